#!/bin/bash
# run A then B of one property sequentially (they share the scratch worktree)
pid=$1; shift
for X in A B; do /verif/tools/run_seeded.sh $pid-$X "$@"; done
