#!/usr/bin/env python3
"""regenerate MANIFEST.json from props/*.py (keeps the manifest valid and in sync with what is claimed)"""
import importlib
import json
import os
import sys

VERIF = os.path.dirname(os.path.dirname(os.path.abspath(__file__)))
sys.path.insert(0, VERIF)
props = json.loads("[" + ",".join(l for l in open(os.path.join(VERIF, "properties.jsonl")) if l.strip()) + "]")
checks, na = [], []
served = []
for p in props:
    pid = p["id"]
    try:
        m = importlib.import_module("props." + pid)
    except ModuleNotFoundError:
        na.append({"property_id": pid, "reason": "no check built yet for this property in this round (planned: DESIGN.md section 9/%s)" % pid})
        continue
    if getattr(m, "NOT_APPLICABLE", None):
        na.append({"property_id": pid, "reason": m.NOT_APPLICABLE})
        continue
    served.append(pid)
    level = getattr(m, "LEVEL", "proof")
    checks.append({
        "property_id": pid,
        "quick_cmd": "./check %s --tier quick" % pid,
        "thorough_cmd": "./check %s --tier thorough" % pid,
        "evidence_file": "evidence/%s.json" % pid,
        "replay_cmd_template": "./check --replay {path}",
        "engine": "pyvc",
        "level_claimed": {"category": "proof" if level == "proof" else "exploration",
                          "text": getattr(m, "LEVEL_TEXT", (m.__doc__ or "").strip()),
                          "design_ref": "DESIGN.md 9/%s and section 14" % pid},
        "level_note": getattr(m, "LEVEL_NOTE", "trusted base and assumptions are listed per run in the evidence file "
                              "(coverage.trusted_base, assumptions); bounded-tier results are a stand-in / cross-check and "
                              "are never counted as proved"),
        "technique": getattr(m, "TECHNIQUE", (
            "contract-based deductive verification of the real source (pyvc: sidecar contracts, loop invariants, ghost "
            "state, lemmas, relational obligations; VCs from the Python AST discharged by z3 5.1 after lambda lifting, "
            "z3 4.8.12 / cvc5 for its unknowns)") if level == "proof" else (
            "the property as a whole is decided by the bounded stand-in (same contracts as run-time monitors + differential "
            "oracles over a stated bounded space; labelled bounded, never counted as proved); contract-based deductive "
            "verification (pyvc; z3 after lambda lifting, z3 4.8.12 / cvc5 for unknowns) discharges, on every run and for "
            "all inputs, the obligations of the functions and lemmas named in level_claimed.text")),
    })
man = {
    "version": 1,
    "setup_cmd": "python3-vt -m compileall -q pyvc contracts props bounded >/dev/null && ./check --selftest",
    "hooks": {
        "guard": "MENELAUS_VERIF",
        "enable": "no source hooks: contracts are sidecar files under /verif/contracts keyed by qualified name; "
                  "run-time monitors are attached by setattr inside the harness process (MENELAUS_VERIF=1 is exported "
                  "for the bounded tier but no repository code reads it)",
        "baseline_off_cmd": "cd /repo && /venv/bin/python -m pytest -ra -q -p no:cacheprovider --timeout=900 "
                            "--continue-on-collection-errors tests/menelaus",
        "source_commits": [],
        "add_only": True,
    },
    "engines": [
        {"name": "pyvc", "path": "pyvc/", "serves_properties": served,
         "kind_free_text": "contract-based deductive verifier for the real menelaus source: Python AST -> verification "
                           "conditions (path-sensitive symbolic execution, loops cut by invariants, modular callee "
                           "contracts, ghost state, lemmas by induction, two-run relational obligations; sampling loops / library-heavy statement blocks can be abstracted by the contract - body not verified, recorded per run as an assumption), discharged by "
                           "z3 5.1 after lambda lifting (see DESIGN.md 14.6), the Debian z3 4.8.12 binary and cvc5 for its unknowns"},
        {"name": "bounded", "path": "bounded/", "serves_properties": served,
         "kind_free_text": "the same sidecar contracts evaluated concretely (z3-free) as run-time monitors on the real "
                           "classes, plus differential oracles, over a stated bounded space; stand-in, replay and "
                           "reachable-witness search only, never counted as proved"},
    ],
    "checks": checks,
    "not_applicable": na,
    "notes": "see DESIGN.md; fixes of genuine defects are the 'fix:' commits in /repo, listed in known_findings.json",
}
with open(os.path.join(VERIF, "MANIFEST.json"), "w") as fh:
    json.dump(man, fh, indent=1)
print("checks:", [c["property_id"] for c in checks], "n/a:", [x["property_id"] for x in na])
