#!/bin/bash
# usage: tools/confirm_seed.sh <Cxx> <round-letter>   confirm a sub-agent's change from /tmp/out/<Cxx> in the scratch worktree
# /tmp/wt/<Cxx> (applies; demo passes clean / fails changed; existing suite passes with it), store it as seeded/<Cxx>-<L>/
p=$1; L=$2; o=/tmp/out/$p; wt=/tmp/wt/$p; d=/verif/seeded/$p-$L
[ -s $o/patch.diff ] && [ -s $o/demo.py ] || { echo "$p: deliverables missing"; exit 2; }
cd $wt && git checkout -q -- . && git clean -fdq
git apply --check $o/patch.diff || { echo "$p: patch does not apply"; exit 2; }
PYTHONPATH=$wt timeout 600 /venv/bin/python $o/demo.py >/tmp/out/$p/clean.log 2>&1; c=$?
git apply $o/patch.diff
PYTHONPATH=$wt timeout 600 /venv/bin/python $o/demo.py >/tmp/out/$p/mut.log 2>&1; m=$?
t=$(PYTHONPATH=$wt timeout 900 /venv/bin/python -m pytest -q -p no:cacheprovider tests/menelaus 2>&1 | tail -1)
st=$(git diff --stat | tail -1)
git checkout -q -- . && git clean -fdq
echo "$p: demo_clean_rc=$c demo_mut_rc=$m tests: $t"
[ $c -eq 0 ] && [ $m -eq 1 ] && echo "$t" | grep -q " passed" && ! echo "$t" | grep -q "failed\|error" || { echo "$p: NOT confirmed"; exit 1; }
mkdir -p $d && cp $o/patch.diff $o/demo.py $d/
python3 - $p $L "$c" "$m" "$t" "$st" <<'PY'
import json, sys
p, L, c, m, t, st = sys.argv[1:]
n = json.load(open('/tmp/out/%s/notes.json' % p))
meta = {"id": "%s-%s" % (p, L), "property": p, "summary": n.get("summary"), "needs_to_manifest": n.get("needs_to_manifest"),
        "files": n.get("files"),
        "author": "independent sub-agent (round %s) given only the property text, one-line summaries of the earlier changes to avoid, and a scratch worktree of /repo (HEAD 98856ea)" % L,
        "confirmed_by_me": {"what_i_ran": ["git apply --check", "demo.py clean (rc 0)", "demo.py with patch (rc 1)", "pytest tests/menelaus with patch"],
                            "results": ["demo_clean_rc=" + c, "applies=yes", "demo_mut_rc=" + m, t, st]}}
json.dump(meta, open('/verif/seeded/%s-%s/meta.json' % (p, L), 'w'), indent=1)
PY
echo "$p: confirmed -> $d"
