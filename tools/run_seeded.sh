#!/bin/bash
# usage: tools/run_seeded.sh <seed-id> [property ...]   run quick checks against one seeded change in a scratch worktree
# (the worktree /tmp/wt/<Cxx> is a git worktree of /repo's HEAD; the change is applied there and undone afterwards)
sid=$1; shift
pid=${sid%%-*}
props=${@:-$pid}
wt=/tmp/wt/$pid
cd $wt && git checkout -q -- . && git clean -fdq && git apply /verif/seeded/$sid/patch.diff || { echo "$sid: patch does not apply"; exit 2; }
cd /verif
for p in $props; do
  out=$(./check $p --repo $wt --jobs ${JOBS:-8} 2>&1)
  rc=$?
  nv=$(echo "$out" | grep -c "^VIOLATION property=$p")
  echo "$sid $p rc=$rc violations=$nv :: $(echo "$out" | tail -1)"
  echo "$out" | grep -A1 "^VIOLATION" | head -6 | cut -c1-260 | sed 's/^/      /'
done
cd $wt && git checkout -q -- . && git clean -fdq
