#!/bin/bash
# bounded tier of every property under several VERIF_SEED values on the unchanged tree: must stay silent
for seed in "$@"; do
  for p in C01 C02 C03 C04 C05 C06 C07 C08 C09 C10 C11 C12 C13 C14 C15 C16 C17 C18 C19 C20; do
    VERIF_SEED=$seed PYTHONPATH=/repo:/verif /venv/bin/python /verif/bounded/run.py $p --tier quick --repo /repo --out /tmp/sweep-$p-$seed.json
    python3 - $p $seed <<'PY'
import json, sys
p, seed = sys.argv[1], sys.argv[2]
d = json.load(open('/tmp/sweep-%s-%s.json' % (p, seed)))
print(p, 'seed', seed, 'eval', d.get('evaluations'), 'viol', len(d.get('violations', [])), 'err', (d.get('error') or '')[-300:].replace('\n', ' | '))
for v in d.get('violations', [])[:3]: print('    V:', v['what'][:300])
PY
  done
done
