#!/bin/bash
# every check's quick command, once, on /repo; prints one line per property (rc and the summary line)
cd "$(dirname "$0")/.."
for i in $(seq -w 1 20); do
  p=C$i
  out=$(./check $p --tier quick 2>&1); rc=$?
  echo "$p rc=$rc :: $(echo "$out" | tail -1)"
  if [ $rc -ne 0 ]; then echo "$out" | tail -15; fi
done
