#!/usr/bin/env python3-vt
"""dev driver: python3-vt dev.py fn <qualname> | lemma <name> | rel <name>  [-v]"""
import sys, json
from pyvc import api
import os
api.init(os.environ.get("REPO", "/repo"))
kind, name = sys.argv[1], sys.argv[2]
v = "-v" in sys.argv
r = api.verify_target((kind, name))
if r.get("crash"):
    print(r["crash"]); sys.exit(3)
print("paths", r["paths"], "time", r["time"], "undecided:", r["undecided"], "vacuity:", r["vacuity"], "exits", r["exits"])
for ob in r["obligations"]:
    if v or ob["verdict"] != "proved":
        print("  %-9s %-60s path=%s %s %.3fs" % (ob["verdict"], ob["name"], ob["path"], ob["backend"], ob["time"]))
        if ob["verdict"] != "proved":
            print("      clause:", ob["clause"]); print("      cex:", json.dumps(ob["cex"])[:1500]); print("      note:", ob["note"])
n = len(r["obligations"]); p = sum(1 for o in r["obligations"] if o["verdict"] == "proved")
print("obligations %d proved %d" % (n, p))
