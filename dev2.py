import sys, os, json
from pyvc import api, vcgen
api.init(os.environ.get("REPO", "/repo"))
rep = vcgen.verify_function(api.make_ctx, api._STATE["reg"], sys.argv[1])
pat = sys.argv[2] if len(sys.argv) > 2 else None
n = 0
for ob in rep.obligations:
    if ob.verdict != "proved" and (pat is None or pat in ob.name):
        print("==", ob.name, ob.path, ob.verdict)
        print("GOAL:", ob.goal)
        for p in ob.pc: print("  PC:", str(p)[:300])
        if ob.model is not None:
            print("MODEL:", str(ob.model)[:1500])
        n += 1
        if n >= int(os.environ.get("N", "1")): break
