"""pyvc executor: path-enumerating symbolic execution of the real Python AST.

Paths are enumerated by *decision replay*: the function is re-executed from its
entry under a decision prefix; every symbolic branch consumes the next decision
(or creates one, queueing the alternative).  Loops are cut by invariants,
contracted callees are replaced by their contract, everything else is inlined
from the real source text.
"""
import ast
import os
from fractions import Fraction
import z3

from .sym import (T, tag, Unsupported, SStr, SOpt, SExt, Ref, SOpaque, SArr1, SFunc, HObj, HList, HSeq, HDict, HMap, HVec,
                  Label, INT, REAL, BOOL, is_z3, is_sym, is_bool, is_num, is_int, py_float, z, b2i, to_real, zbool,
                  AND, OR, NOT, IMPLIES, arith, cmp, same_kind_terms)

BINOPS = {ast.Add: "+", ast.Sub: "-", ast.Mult: "*", ast.Div: "/", ast.FloorDiv: "//", ast.Mod: "%", ast.Pow: "**"}
CMPOPS = {ast.Lt: "<", ast.LtE: "<=", ast.Gt: ">", ast.GtE: ">=", ast.Eq: "==", ast.NotEq: "!="}


SCALARIZE = []       # hooks: (run, value) -> scalar-like value or None


class PathEnd(Exception):
    pass


class ReturnEx(Exception):
    def __init__(self, value):
        self.value = value


class BreakEx(Exception):
    pass


class ContinueEx(Exception):
    pass


class PyRaise(Exception):
    """A Python exception raised by the analysed code."""

    def __init__(self, etype, msg=""):
        Exception.__init__(self, etype)
        self.etype = etype
        self.msg = msg


# opaque sorts that stand for plain objects (instances of classes without __bool__ / __len__): always truthy
TRUTHY_OPAQUE = {"Det", "Election"}
TRUTH_HOOKS = []


class SMod:
    """module / dotted external name"""

    def __init__(self, dotted):
        self.dotted = dotted

    def __repr__(self):
        return "SMod(%s)" % self.dotted


CLASS_MODELS = {}      # class qualname -> constructor model (used only under policy 'opaque')


class SCls:
    def __init__(self, ci):
        self.ci = ci


class SSuper:
    def __init__(self, selfref, after):
        self.selfref = selfref
        self.after = after


class SExcClass:
    def __init__(self, name):
        self.name = name


class SUndef:
    """declared-but-unbound local"""
    pass


class SLazy:
    """a reference into a linked structure that is materialised on first use (lazy initialisation): either None or a
    fresh object of class ``cls`` distinct from every object materialised so far (assumption A-LIST: the list is
    acyclic and its nodes are pairwise distinct)"""

    def __init__(self, cls, name, nullable=True):
        self.cls = cls
        self.name = name
        self.nullable = nullable
        self.forced = False
        self.value = None


class Obligation:
    def __init__(self, name, kind, tags, goal, pc, where, clause=None):
        self.name = name
        self.kind = kind
        self.tags = tags
        self.goal = goal
        self.pc = list(pc)
        self.where = where
        self.clause = clause
        self.verdict = None
        self.model = None
        self.backend = None
        self.time = 0.0
        self.note = None


class Frame:
    def __init__(self, env, fi=None, cls=None, parent=None, module=None):
        self.env = env
        self.fi = fi
        self.cls = cls            # ClassInfo in which the executing function is defined
        self.parent = parent      # enclosing frame for closures
        self.module = module if module is not None else (fi.module if fi is not None else None)
        self.spec = None          # SpecEnv when evaluating a clause
        self.depth = 0


class SpecEnv:
    def __init__(self, old_heap=None, old_env=None, result=None, ghost_old=None):
        self.old_heap = old_heap
        self.old_env = old_env
        self.result = result
        self.in_old = False


EXC_NAMES = {"ValueError", "TypeError", "AttributeError", "NotImplementedError", "ZeroDivisionError", "KeyError",
             "IndexError", "UnboundLocalError", "RuntimeError", "Exception", "NotImplemented", "AssertionError"}


class Ctx:
    """Per-task context shared by all paths: intern tables, uninterpreted functions, background facts."""

    def __init__(self, repo, registry, models):
        self.repo = repo
        self.reg = registry
        self.models = models
        self.strs = {}
        self.str_list = []
        self.ufs = {}
        self.facts = []
        self.fact_keys = set()
        self.sorts = {}
        self.policy = {}          # qualname -> 'inline' | 'contract'
        self.timeout_ms = 10000
        self.check_div = False
        self.intern("drift")
        self.intern("warning")

    def intern(self, s):
        if s not in self.strs:
            self.strs[s] = len(self.str_list) + 1
            self.str_list.append(s)
        return self.strs[s]

    def strval(self, s):
        return SStr(z3.IntVal(self.intern(s)))

    def uf(self, name, *sorts):
        key = name
        if key not in self.ufs:
            self.ufs[key] = z3.Function(name, *sorts)
        return self.ufs[key]

    def sort(self, name):
        if name == "Label":
            return Label
        if name not in self.sorts:
            self.sorts[name] = z3.DeclareSort(name)
        return self.sorts[name]

    def fact(self, f, key=None):
        k = key if key is not None else f.sexpr()
        if k in self.fact_keys:
            return
        self.fact_keys.add(k)
        self.facts.append(f)


class Run:
    """One path."""

    def __init__(self, ctx, decisions, tags=("all",)):
        self.ctx = ctx
        self.decisions = list(decisions)
        self.pos = 0
        self.alternatives = []
        self.pc = []
        self.heap = {}
        self.next_oid = 1
        self.fresh_n = 0
        self.obligations = []
        self.reads = set()
        self.writes = set()
        self.param_reads = set()
        self.trace = []
        self.cur_tags = tuple(tags)
        self.ghost = {}
        self.call_depth = 0
        self.assumed = []
        self.track_params = {}
        self.track_vals = {}
        self.notes = []
        self.spec_depth = 0
        self.old_state = None

    # -- basic services ---------------------------------------------------
    def fresh(self, sort, hint="v"):
        self.fresh_n += 1
        name = "%s!%d" % (hint, self.fresh_n)
        if isinstance(sort, z3.SortRef):
            return z3.Const(name, sort)
        if sort == "Int":
            return z3.Int(name)
        if sort == "Real":
            return z3.Real(name)
        if sort == "Bool":
            return z3.Bool(name)
        if isinstance(sort, z3.SortRef):
            return z3.Const(name, sort)
        return z3.Const(name, self.ctx.sort(sort))

    def alloc(self, obj):
        oid = self.next_oid
        self.next_oid += 1
        self.heap[oid] = obj
        return Ref(oid)

    def obj(self, ref):
        return self.heap[ref.oid]

    def solver(self, extra=(), timeout=400):
        from . import smt
        s, risky = smt.lifted_solver(list(self.ctx.facts) + list(self.pc) + list(extra), timeout)
        s.risky = risky
        return s

    def feasible(self, cond, timeout=None):
        if isinstance(cond, bool):
            cond = z3.BoolVal(cond)
        if timeout is None:
            timeout = int(os.environ.get("PYVC_FEAS_MS", "400"))
        # the same condition is asked again and again under the same path condition while clauses are evaluated
        # (also across the replays of the decision-replay exploration: they rebuild identical, hash-consed terms)
        cache = self.ctx.__dict__.setdefault("_feas_cache", {})
        key = (tuple(p.get_id() if is_z3(p) else id(p) for p in self.pc), len(self.ctx.facts), cond.get_id(), timeout)
        hit = cache.get(key)
        if hit is not None and hit[0] is cond:
            return hit[1]
        s = self.solver([cond], timeout)
        r = s.check()
        # an unsat answer prunes the path: not accepted when the query could not be brought into the trusted fragment
        res = r != z3.unsat or s.risky
        cache[key] = (cond, res, list(self.pc))     # keeps the terms alive, so their ids stay valid
        return res

    def assume(self, cond):
        if cond is True:
            return
        if cond is False or (is_z3(cond) and z3.is_false(cond)):
            raise PathEnd()
        self.pc.append(cond)

    def branch(self, cond, hint=""):
        if isinstance(cond, bool):
            return cond
        cond = z3.simplify(cond)
        if z3.is_true(cond):
            return True
        if z3.is_false(cond):
            return False
        if self.pos < len(self.decisions):
            d = self.decisions[self.pos]
            self.pos += 1
            self.pc.append(cond if d else z3.Not(cond))
            return d
        can_t = self.feasible(cond)
        can_f = self.feasible(z3.Not(cond))
        if can_t and can_f:
            self.alternatives.append(self.decisions[: self.pos] + [False])
            d = True
        elif can_t:
            d = True
        elif can_f:
            d = False
        else:
            raise PathEnd()
        self.decisions.append(d)
        self.pos += 1
        self.pc.append(cond if d else z3.Not(cond))
        return d

    def choose(self, hint=""):
        """non-deterministic binary choice (e.g. callee raises / returns)"""
        self.n_choose = getattr(self, "n_choose", 0) + 1
        if self.pos < len(self.decisions):
            d = self.decisions[self.pos]
            self.pos += 1
            return d
        self.alternatives.append(self.decisions[: self.pos] + [False])
        self.decisions.append(True)
        self.pos += 1
        return True

    def oblige(self, name, goal, kind="assert", where=None, clause=None, tags=None):
        if kind == "safety" and self.spec_depth > 0:
            return None     # reads inside specifications are total (unconstrained outside the domain)
        if goal is True:
            goal = z3.BoolVal(True)
        elif goal is False:
            goal = z3.BoolVal(False)
        ob = Obligation(name, kind, tags or self.cur_tags, goal, self.pc, where, clause)
        self.obligations.append(ob)
        # assumed from here on (dropped again at discharge time if it turns out not to be provable)
        self.pc.append(ob.goal)
        return ob

    # -- truthiness & coercions ------------------------------------------
    def truth(self, v):
        if isinstance(v, SLazy):
            v = self.interp.force(v)       # materialise: None or an object
        if v is None:
            return False
        if isinstance(v, bool):
            return v
        if isinstance(v, (int, Fraction)):
            return v != 0
        if isinstance(v, str):
            return len(v) > 0
        if isinstance(v, tuple):
            return len(v) > 0
        if is_z3(v):
            if v.sort() == BOOL:
                return v
            if v.sort() in (INT, REAL):
                return v != 0
            raise Unsupported("truth of %s" % v.sort())
        if isinstance(v, SOpt):
            return AND(NOT(v.isnone), self.truth(v.val))
        if isinstance(v, SStr):
            return True  # interned strings are non-empty literals or 'other'
        if isinstance(v, SArr1):
            return self.truth(v.val)
        if isinstance(v, Ref):
            o = self.obj(v)
            if isinstance(o, HList):
                return len(o.items) > 0
            if isinstance(o, HSeq):
                return o.hi - o.lo != 0 if is_z3(o.hi - o.lo) else (o.hi - o.lo) != 0
            if isinstance(o, HDict):
                return len(o.items) > 0
            if isinstance(o, HObj):
                # instance of a repository class: truthy unless the class (or a base in the repository) defines
                # __bool__ / __len__
                ci = self.ctx.repo.classes.get(o.cls)
                for k in (ci.mro or [ci]) if ci is not None else []:
                    if "__bool__" in k.methods or "__len__" in k.methods:
                        raise Unsupported("truth value of an instance of %s (defines __bool__ / __len__)" % o.cls)
                return True
            for h in TRUTH_HOOKS:
                r = h(self, v, o)
                if r is not NotImplemented:
                    return r
            # a library container (array, frame, mapping under construction ...): its truth value is its emptiness, or an
            # error (numpy arrays with several elements) - never assumed
            raise Unsupported("truth value of %s" % type(o).__name__)
        if isinstance(v, (SFunc, SCls, SMod)):
            return True
        if isinstance(v, SOpaque):
            if v.sort in TRUTHY_OPAQUE:
                return True
            # the truth value of an opaque library value (an array, a pandas object, ...) is not known: never assumed
            raise Unsupported("truth value of an opaque %s" % v.sort)
        raise Unsupported("truth of %r" % (v,))

    def unopt(self, v, what="value"):
        """use an optional value as present (emits a definedness obligation)"""
        if isinstance(v, SOpt):
            self.oblige("not-none:%s" % what, NOT(zbool(v.isnone)), kind="safety")
            return v.val
        if v is None:
            raise PyRaise("TypeError", "None used as %s" % what)
        return v

    def num(self, v, what="number"):
        v = self.unopt(v, what)
        for h in SCALARIZE:
            r = h(self, v)
            if r is not None:
                v = r
                break
        if isinstance(v, (SArr1, SExt)):
            return v
        if is_z3(v) and v.sort() == Label:
            raise PyRaise("LabelArithmetic", "label used in arithmetic")
        if not is_num(v):
            raise Unsupported("not a number: %r" % (v,))
        return v

    # -- equality ----------------------------------------------------------
    def eq(self, a, b):
        """Python == as python bool / z3 Bool"""
        if a is b and isinstance(a, SLazy):
            return True
        if type(a).__name__ == "SNd" and type(b).__name__ == "SNd":
            if a is b:
                return True
            return self.eq_nd(a, b)
        for h in SCALARIZE:
            ra, rb = h(self, a), h(self, b)
            a = ra if ra is not None else a
            b = rb if rb is not None else b
        if isinstance(a, SArr1):
            a = a.val
        if isinstance(b, SArr1):
            b = b.val
        if isinstance(a, SOpt) or isinstance(b, SOpt):
            an, av = (a.isnone, a.val) if isinstance(a, SOpt) else (a is None, a)
            bn, bv = (b.isnone, b.val) if isinstance(b, SOpt) else (b is None, b)
            both_none = AND(zb(an), zb(bn))
            if av is None or bv is None:
                return both_none
            return OR(both_none, AND(NOT(zb(an)), NOT(zb(bn)), self.eq(av, bv)))
        if a is None or b is None:
            return a is None and b is None
        if isinstance(a, SStr) or isinstance(b, SStr):
            if isinstance(a, str):
                a = self.ctx.strval(a)
            if isinstance(b, str):
                b = self.ctx.strval(b)
            if isinstance(a, SStr) and isinstance(b, SStr):
                return a.t == b.t
            return False
        if isinstance(a, str) or isinstance(b, str):
            return isinstance(a, str) and isinstance(b, str) and a == b
        if isinstance(a, SExt) or isinstance(b, SExt):
            return cmp("==", a, b)
        if is_z3(a) and a.sort() == Label or is_z3(b) and b.sort() == Label:
            if is_z3(a) and is_z3(b) and a.sort() == b.sort():
                return a == b
            raise PyRaise("LabelArithmetic", "label compared with non-label")
        if is_num(a) and is_num(b):
            return cmp("==", a, b)
        if isinstance(a, tuple) and isinstance(b, tuple):
            if len(a) != len(b):
                return False
            return AND(*[self.eq(x, y) for x, y in zip(a, b)])
        if isinstance(a, Ref) and isinstance(b, Ref):
            oa, ob = self.obj(a), self.obj(b)
            if isinstance(oa, HList) and isinstance(ob, HList):
                if len(oa.items) != len(ob.items):
                    return False
                return AND(*[self.eq(x, y) for x, y in zip(oa.items, ob.items)])
            if isinstance(oa, HDict) and isinstance(ob, HDict):
                if set(oa.items) != set(ob.items):
                    return False
                return AND(*[self.eq(oa.items[k], ob.items[k]) for k in oa.items])
            if isinstance(oa, HSeq) and isinstance(ob, HSeq):
                return self.seq_eq(oa, ob)
            if isinstance(oa, HList) and isinstance(ob, HSeq) or isinstance(oa, HSeq) and isinstance(ob, HList):
                if isinstance(oa, HList):
                    oa, ob = ob, oa
                n = len(ob.items)
                return AND(oa.hi - oa.lo == n,
                           *[self.eq(self.seq_get(oa, i), ob.items[i]) for i in range(n)])
            return a.oid == b.oid
        if isinstance(a, Ref) and isinstance(b, tuple) or isinstance(a, tuple) and isinstance(b, Ref):
            t, r = (a, b) if isinstance(a, tuple) else (b, a)
            o = self.obj(r)
            if isinstance(o, HList):
                if len(o.items) != len(t):
                    return False
                return AND(*[self.eq(x, y) for x, y in zip(o.items, t)])
            return False
        if isinstance(a, SOpaque) and isinstance(b, SOpaque):
            if a.sort == b.sort:
                return a.t == b.t
            return False
        if type(a) != type(b):
            return False
        if type(a).__name__ == "SNd":
            return self.eq_nd(a, b)
        raise Unsupported("equality of %r and %r" % (a, b))

    def eq_nd(self, a, b):
        """two n-d arrays: same shape and the same cells"""
        if a is b:
            return True
        if a.shape is None or b.shape is None or len(a.shape) != len(b.shape):
            raise Unsupported("equality of arrays of unknown dimension")
        self.fresh_n += 1
        idx = [z3.Int("i!eq%d_%d" % (self.fresh_n, k)) for k in range(len(a.shape))]
        rng = z3.And(*[z3.And(i >= 0, i < b2i(z(d))) for i, d in zip(idx, a.shape)])
        same = zbool(self.eq(a.elem(tuple(idx)), b.elem(tuple(idx))))
        return AND(*([cmp("==", x, y) for x, y in zip(a.shape, b.shape)] + [z3.ForAll(idx, z3.Implies(rng, same))]))

    def seq_eq(self, a, b):
        i = z3.Int("i!seqeq")
        n = a.hi - a.lo
        return AND(n == b.hi - b.lo,
                   z3.ForAll([i], z3.Implies(z3.And(i >= 0, i < n), a.arr[a.lo + i] == b.arr[b.lo + i])))

    def seq_get(self, o, i):
        t = o.arr[o.lo + i]
        return self.wrap_elem(t, o.elem)

    def wrap_elem(self, t, elem):
        if elem == "Str":
            return SStr(t)
        if elem == "OptStr":
            return SOpt(t == 0, SStr(t))
        if elem in ("Int", "Real", "Bool", "Label"):
            return t
        return SOpaque(elem, t)

    def ite(self, c, a, b):
        if isinstance(c, bool):
            return a if c else b
        if a is b:
            return a
        if isinstance(a, SArr1) or isinstance(b, SArr1):
            nd = max(x.ndim for x in (a, b) if isinstance(x, SArr1))
            av = a.val if isinstance(a, SArr1) else a
            bv = b.val if isinstance(b, SArr1) else b
            return SArr1(self.ite(c, av, bv), nd)
        if isinstance(a, SExt) or isinstance(b, SExt):
            ai, av = (a.inf, a.val) if isinstance(a, SExt) else (False, a)
            bi, bv = (b.inf, b.val) if isinstance(b, SExt) else (False, b)
            return SExt(z3.If(c, zbool(ai), zbool(bi)), z3.If(c, to_real(av), to_real(bv)))
        if a is None or b is None or isinstance(a, SOpt) or isinstance(b, SOpt):
            an, av = (a.isnone, a.val) if isinstance(a, SOpt) else (a is None, a)
            bn, bv = (b.isnone, b.val) if isinstance(b, SOpt) else (b is None, b)
            if av is None and bv is None:
                return None
            if av is None:
                val = bv
            elif bv is None:
                val = av
            else:
                val = self.ite(c, av, bv)
            return SOpt(z3.If(c, zb(an), zb(bn)), val)
        if isinstance(a, (str, SStr)) and isinstance(b, (str, SStr)):
            a_ = a if isinstance(a, SStr) else self.ctx.strval(a)
            b_ = b if isinstance(b, SStr) else self.ctx.strval(b)
            return SStr(z3.If(c, a_.t, b_.t))
        if is_num(a) and is_num(b):
            if not is_z3(a) and not is_z3(b) and a == b and type(a) == type(b):
                return a
            if is_bool(a) and is_bool(b):
                return z3.If(c, zbool(a), zbool(b))
            ts = same_kind_terms(a, b)
            return z3.If(c, ts[0], ts[1])
        if is_z3(a) and is_z3(b) and a.sort() == b.sort():
            return z3.If(c, a, b)
        if isinstance(a, tuple) and isinstance(b, tuple) and len(a) == len(b):
            return tuple(self.ite(c, x, y) for x, y in zip(a, b))
        if isinstance(a, SOpaque) and isinstance(b, SOpaque) and a.sort == b.sort:
            return SOpaque(a.sort, z3.If(c, a.t, b.t))
        if isinstance(a, Ref) and isinstance(b, Ref):
            if a.oid == b.oid:
                return a
            oa, ob = self.obj(a), self.obj(b)
            if isinstance(oa, HList) and isinstance(ob, HList) and len(oa.items) == len(ob.items):
                return self.alloc(HList([self.ite(c, x, y) for x, y in zip(oa.items, ob.items)]))
            if isinstance(oa, HSeq) and isinstance(ob, HSeq) and oa.elem == ob.elem:
                return self.alloc(HSeq(z3.If(c, oa.arr, ob.arr), z3.If(c, oa.lo, ob.lo), z3.If(c, oa.hi, ob.hi),
                                       oa.elem))
        raise Unsupported("ite over %r / %r" % (a, b))


def zb(x):
    return z3.BoolVal(x) if isinstance(x, bool) else x


# ---------------------------------------------------------------------------
class Interp:
    """Statement / expression interpreter bound to one Run."""

    def __init__(self, run):
        self.run = run
        self.ctx = run.ctx
        self.repo = run.ctx.repo
        run.interp = self

    # -- names -------------------------------------------------------------
    def lookup(self, name, fr, node=None):
        f = fr
        while f is not None:
            if name in f.env:
                v = f.env[name]
                if isinstance(v, SUndef):
                    raise PyRaise("UnboundLocalError", name)
                if id(v) in self.run.track_vals:
                    self.run.param_reads.add(self.run.track_vals[id(v)])
                return v
            f = f.parent
        if fr.spec is not None or True:
            sv = self.ctx.reg.spec_lookup(name)
            if sv is not None and fr.spec is not None:
                return sv
        mod = fr.module
        if mod is not None:
            if name in mod.classes:
                return SCls(mod.classes[name])
            if name in mod.functions:
                return SFunc("func", fi=mod.functions[name])
            if name in mod.imports:
                dotted = mod.imports[name]
                last = dotted.split(".")[-1]
                if dotted.startswith("menelaus.") and last in self.repo.classes:
                    return SCls(self.repo.classes[last])
                return SMod(dotted)
        if name in EXC_NAMES:
            return SExcClass(name)
        if name in ("True", "False", "None"):
            return {"True": True, "False": False, "None": None}[name]
        sv = self.ctx.reg.spec_lookup(name)
        if sv is not None:
            return sv
        if ("builtins." + name) in self.ctx.models.ext or name in ("super", "NotImplemented", "Ellipsis", "str",
                                                                   "int", "float", "list", "dict", "tuple", "object"):
            return SMod("builtins." + name)
        if fr.spec is not None:
            raise Unsupported("unknown name %s in specification" % name, node)
        import builtins as _b
        if hasattr(_b, name):
            # a Python builtin the engine has no model for: outside the fragment, never a NameError
            raise Unsupported("no model for builtin %s" % name, node)
        raise PyRaise("NameError", name)

    # -- expressions --------------------------------------------------------
    def ev(self, e, fr):
        m = getattr(self, "e_" + type(e).__name__, None)
        if m is None:
            raise Unsupported("expression %s" % type(e).__name__, e)
        return m(e, fr)

    def e_Constant(self, e, fr):
        v = e.value
        if isinstance(v, float):
            return py_float(v)
        if isinstance(v, (int, str, bool)) or v is None:
            return v
        if v is Ellipsis:
            return SMod("builtins.Ellipsis")
        raise Unsupported("constant %r" % (v,), e)

    def e_Name(self, e, fr):
        return self.lookup(e.id, fr, e)

    def e_JoinedStr(self, e, fr):
        return SStr(z3.IntVal(self.ctx.intern("<fstring>")))

    def e_Tuple(self, e, fr):
        return tuple(self.ev(x, fr) for x in e.elts)

    def e_List(self, e, fr):
        return self.run.alloc(HList([self.ev(x, fr) for x in e.elts]))

    def e_Dict(self, e, fr):
        d = {}
        pairs = []
        symbolic = False
        for k, v in zip(e.keys, e.values):
            kv = self.ev(k, fr)
            vv = self.ev(v, fr)
            if is_z3(kv) and kv.sort() == INT:
                symbolic = True
            elif not isinstance(kv, (str, int)):
                raise Unsupported("dict literal with non-literal key", e)
            pairs.append((kv, vv))
            if not symbolic:
                d[kv] = vv
        if symbolic:
            return T(("maplit", pairs))       # {symbolic int: row}: only ever passed to table.update()
        return self.run.alloc(HDict(d))

    def e_Lambda(self, e, fr):
        return SFunc("closure", node=e, frame=fr)

    def e_UnaryOp(self, e, fr):
        v = self.ev(e.operand, fr)
        if isinstance(e.op, ast.Not):
            return NOT(self.run.truth(v))
        if isinstance(e.op, ast.USub):
            v = self.run.num(v)
            return arith("-", 0, v)
        if isinstance(e.op, ast.UAdd):
            return self.run.num(v)
        raise Unsupported("unary op", e)

    def pure_expr(self, e):
        for n in ast.walk(e):
            if isinstance(n, (ast.Call, ast.NamedExpr)):
                if isinstance(n, ast.Call) and isinstance(n.func, ast.Name) and n.func.id in (
                        "len", "abs", "int", "float", "bool", "old", "implies", "min", "max"):
                    continue
                return False
        return True

    def e_BoolOp(self, e, fr):
        is_and = isinstance(e.op, ast.And)
        vals = e.values
        cur = self.ev(vals[0], fr)
        for nxt in vals[1:]:
            t = self.run.truth(cur)
            if isinstance(t, bool):
                if is_and:
                    if not t:
                        return cur
                    cur = self.ev(nxt, fr)
                else:
                    if t:
                        return cur
                    cur = self.ev(nxt, fr)
                continue
            if fr.spec is not None or self.pure_expr(nxt):
                # side-effect free right operand: build a term (value semantics via ite)
                saved_pc = len(self.run.pc)
                rhs = self.ev_guarded(nxt, fr, t if is_and else NOT(t))
                if is_bool(cur) and is_bool(rhs):
                    r_ = rhs if isinstance(rhs, bool) else zbool(rhs)
                    cur = AND(t, r_) if is_and else OR(t, r_)
                    if isinstance(cur, bool):
                        pass
                else:
                    cur = self.run.ite(t, rhs, cur) if is_and else self.run.ite(t, cur, rhs)
                continue
            d = self.run.branch(t, "boolop")
            if is_and:
                if not d:
                    return cur
                cur = self.ev(nxt, fr)
            else:
                if d:
                    return cur
                cur = self.ev(nxt, fr)
        return cur

    def ev_guarded(self, e, fr, guard):
        """evaluate a side-effect-free expression under an extra path assumption (for safety obligations)"""
        n = len(self.run.pc)
        if guard is not True:
            self.run.pc.append(zbool(guard))
        try:
            v = self.ev(e, fr)
        finally:
            # obligations raised inside were recorded with the guarded pc; drop the guard and what was assumed after
            del self.run.pc[n:]
        return v

    def e_IfExp(self, e, fr):
        c = self.run.truth(self.ev(e.test, fr))
        if isinstance(c, bool):
            return self.ev(e.body if c else e.orelse, fr)
        if fr.spec is not None or (self.pure_expr(e.body) and self.pure_expr(e.orelse)):
            # a condition decided by the path condition is resolved here (keeps terms free of dead branches); this is an
            # optimisation only, so it gets a small solver budget ('unknown' keeps both branches)
            if not self.run.feasible(z3.Not(c), 120):
                return self.ev(e.body, fr)
            if not self.run.feasible(c, 120):
                return self.ev(e.orelse, fr)
            a = self.ev_guarded(e.body, fr, c)
            b = self.ev_guarded(e.orelse, fr, NOT(c))
            return self.run.ite(c, a, b)
        if self.run.branch(c, "ifexp"):
            return self.ev(e.body, fr)
        return self.ev(e.orelse, fr)

    def e_BinOp(self, e, fr):
        a = self.ev(e.left, fr)
        b = self.ev(e.right, fr)
        return self.binop(e.op, a, b, e)

    def binop(self, op, a, b, node=None):
        run = self.run
        if isinstance(op, (ast.BitAnd, ast.BitOr)):
            if is_bool(a) and is_bool(b):
                return AND(a, b) if isinstance(op, ast.BitAnd) else OR(a, b)
            m = self.ctx.models.binop_hook(self, op, a, b, node)
            if m is not NotImplemented:
                return m
            raise Unsupported("bitwise op on non-bools", node)
        if isinstance(op, ast.Add):
            # list concatenation
            if isinstance(a, Ref) and isinstance(b, Ref):
                oa, ob = run.obj(a), run.obj(b)
                if isinstance(oa, HList) and isinstance(ob, HList):
                    return run.alloc(HList(oa.items + ob.items))
            if isinstance(a, tuple) and isinstance(b, tuple):
                return a + b
            if isinstance(a, str) and isinstance(b, str):
                return a + b
        if isinstance(op, ast.Mult):
            # [0] * n
            if isinstance(a, Ref) and isinstance(run.obj(a), HList):
                return self.list_repeat(a, b)
            if isinstance(b, Ref) and isinstance(run.obj(b), HList):
                return self.list_repeat(b, a)
        m = self.ctx.models.binop_hook(self, op, a, b, node)
        if m is not NotImplemented:
            return m
        sop = BINOPS.get(type(op))
        if sop is None:
            raise Unsupported("binary operator %s" % type(op).__name__, node)
        a = run.num(a, "operand")
        b = run.num(b, "operand")
        if sop in ("/", "//", "%"):
            bv = b.val if isinstance(b, SArr1) else b
            if is_z3(bv) and not self.ctx.check_div:
                pass        # z3's total division: nothing can be concluded from a quotient whose divisor may be 0
            elif is_z3(bv):
                run.oblige("div-nonzero@%s" % getattr(node, "lineno", "?"), cmp("!=", bv, 0), kind="safety",
                           where=getattr(node, "lineno", None))
            elif bv == 0 and self.ctx.check_div:
                raise PyRaise("ZeroDivisionError")
            elif bv == 0:
                # total division: the quotient by zero is an unconstrained value (numpy yields inf/nan: A-REAL)
                if sop != "/":
                    raise PyRaise("ZeroDivisionError")
                b = z3.RealVal(0) if not isinstance(b, SArr1) else SArr1(z3.RealVal(0), b.ndim)
        if sop == "**":
            return self.power(a, b, node)
        return arith(sop, a, b)

    def power(self, a, b, node):
        if isinstance(b, int) and not isinstance(b, bool) and 0 <= b <= 4:
            return arith("**", a, b)
        if isinstance(a, int) and a == 2 and is_int(b):
            return self.ctx.models.pow2(self, b)
        if not is_z3(a) and not is_z3(b):
            try:
                return arith("**", a, b)
            except Unsupported:
                pass
        f = self.ctx.uf("pow", REAL, REAL, REAL)
        return f(to_real(a), to_real(b))

    def list_repeat(self, lref, n):
        o = self.run.obj(lref)
        if isinstance(n, int):
            return self.run.alloc(HList(o.items * n))
        if len(o.items) == 1 and is_z3(n):
            v = o.items[0]
            if is_num(v):
                srt = INT if is_int(v) else REAL
                arr = z3.K(INT, b2i(z(v)) if srt == INT else to_real(v))
                return self.run.alloc(HSeq(arr, z3.IntVal(0), n, "Int" if srt == INT else "Real"))
        raise Unsupported("list repetition")

    def e_Compare(self, e, fr):
        left = self.ev(e.left, fr)
        res = True
        for op, rc in zip(e.ops, e.comparators):
            right = self.ev(rc, fr)
            r = self.compare(op, left, right, e)
            res = AND(res, r)
            if res is False:
                return False
            left = right
        return res

    def compare(self, op, a, b, node=None):
        run = self.run
        if isinstance(op, ast.Is):
            return self.is_(a, b)
        if isinstance(op, ast.IsNot):
            return NOT(self.is_(a, b))
        if isinstance(op, ast.Eq):
            return run.eq(a, b)
        if isinstance(op, ast.NotEq):
            r = run.eq(a, b)
            if isinstance(r, SOpaque):      # element-wise comparison of an opaque library value (e.g. a column mask)
                f = self.ctx.uf("negate_%s" % r.sort, self.ctx.sort(r.sort), self.ctx.sort(r.sort))
                return SOpaque(r.sort, f(r.t))
            return NOT(r)
        if isinstance(op, (ast.In, ast.NotIn)):
            r = self.contains(b, a, node)
            return r if isinstance(op, ast.In) else NOT(r)
        sop = CMPOPS[type(op)]
        m = self.ctx.models.cmp_hook(self, sop, a, b, node)
        if m is not NotImplemented:
            return m
        a = run.num(a, "comparand")
        b = run.num(b, "comparand")
        return cmp(sop, a, b)

    def is_(self, a, b):
        a, b = self.force(a), self.force(b)
        if isinstance(a, SOpt) and b is None:
            return a.isnone
        if isinstance(b, SOpt) and a is None:
            return b.isnone
        if a is None or b is None:
            return a is None and b is None
        if isinstance(a, bool) and isinstance(b, bool):
            return a == b
        if isinstance(b, bool) and is_bool(a):
            return a if b else NOT(a)
        if isinstance(a, Ref) and isinstance(b, Ref):
            return a.oid == b.oid
        raise Unsupported("'is' on %r / %r" % (a, b))

    def mapkey(self, k):
        """key of a symbolic dict as an integer term: integers as they are, strings by their interned code"""
        if isinstance(k, str):
            return z3.IntVal(self.ctx.intern(k))
        if isinstance(k, SStr):
            return k.t
        return b2i(z(k))

    def contains(self, container, item, node=None):
        run = self.run
        if tag(container) == "mapkeys":
            return z3.Select(run.obj(container[1]).dom, self.mapkey(item))
        if isinstance(container, tuple):
            return OR(*[run.eq(item, x) for x in container])
        if isinstance(container, Ref):
            o = run.obj(container)
            if isinstance(o, HList):
                return OR(*[run.eq(item, x) for x in o.items])
            if isinstance(o, HDict):
                if isinstance(item, (str, int)):
                    return item in o.items
                if is_z3(item) and item.sort() == INT and all(isinstance(k, str) for k in o.items):
                    # a key given by its integer code (specifications quantify over keys as integers)
                    return OR(*[item == self.ctx.intern(k) for k in o.items])
                return OR(*[run.eq(item, k) for k in o.items])
            if isinstance(o, HMap):
                return z3.Select(o.dom, self.mapkey(item))
        m = self.ctx.models.contains_hook(self, container, item, node)
        if m is not NotImplemented:
            return m
        raise Unsupported("'in' on %r" % (container,), node)

    # -- attribute / subscript ----------------------------------------------
    def e_Attribute(self, e, fr):
        base = self.ev(e.value, fr)
        return self.getattr(base, e.attr, fr, e)

    def force(self, v):
        if isinstance(v, SLazy):
            if not v.forced:
                v.forced = True
                if v.nullable and not self.run.choose("lazy-null"):
                    v.value = None
                else:
                    v.value = self.ctx.reg.make_object(self, v.cls, "lazy!%s!%d" % (v.name, self.run.fresh_n))
                    self.run.assumed.append("A-LIST: lazily materialised %s nodes are pairwise distinct" % v.cls)
            return v.value
        return v

    def getattr(self, base, attr, fr, node=None):
        run = self.run
        base = self.force(base)
        if isinstance(base, SOpt):
            base = run.unopt(base, "receiver of .%s" % attr)
        if isinstance(base, SMod):
            return SMod(base.dotted + "." + attr)
        if isinstance(base, SSuper):
            ci = self.repo.classes[run.obj(base.selfref).cls]
            fi = self.repo.find_method(ci, attr, after=base.after)
            if fi is None:
                if attr == "__init__":
                    return SFunc("noop")
                raise PyRaise("AttributeError", attr)
            return SFunc("bound", fi=fi, selfv=base.selfref)
        if isinstance(base, SCls):
            fi = self.repo.find_method(base.ci, attr)
            if fi is not None:
                if fi.kind == "class":
                    return SFunc("bound", fi=fi, selfv=base)
                return SFunc("func", fi=fi)
            if attr == "__init__":
                return SFunc("noop")
            raise Unsupported("class attribute %s.%s" % (base.ci.name, attr), node)
        if isinstance(base, Ref):
            o = run.obj(base)
            if isinstance(o, HObj):
                if fr.spec is not None and attr == "ghost":
                    return T(("ghostns", base))
                ci = self.repo.classes.get(o.cls)
                if attr in o.fields:
                    run.reads.add((o.cls, attr))
                    v = o.fields[attr]
                    if isinstance(v, SUndef):
                        raise PyRaise("AttributeError", attr)
                    return v
                if ci is not None:
                    g = self.repo.find_getter(ci, attr)
                    if g is not None:
                        return self.call_function(g, [base], {}, fr, node, force_inline=True)
                    fi = self.repo.find_method(ci, attr)
                    if fi is not None:
                        if fi.kind == "static":
                            return SFunc("func", fi=fi)
                        if fi.kind == "class":
                            return SFunc("bound", fi=fi, selfv=SCls(ci))
                        return SFunc("bound", fi=fi, selfv=base)
                m = self.ctx.models.attr_hook(self, base, o, attr, node)
                if m is not NotImplemented:
                    return m
                if getattr(o, "declared", False):
                    # a symbolic instance only has the fields its klass declaration lists: an attribute the code reads
                    # but the declaration does not know (added since the contract was written) is outside the contract's
                    # vocabulary - undecided, never an AttributeError of the real code
                    raise Unsupported("field %s.%s is not declared in the klass contract" % (o.cls, attr), node)
                raise PyRaise("AttributeError", "%s.%s" % (o.cls, attr))
            m = self.ctx.models.attr_hook(self, base, o, attr, node)
            if m is not NotImplemented:
                return m
            return SFunc("objmethod", target=base, name=attr)
        if tag(base) == "ghostns":
            if (base[1].oid, attr) not in run.ghost:
                raise Unsupported("unknown ghost field %s" % attr, node)
            return run.ghost[(base[1].oid, attr)]
        m = self.ctx.models.attr_hook(self, base, None, attr, node)
        if m is not NotImplemented:
            return m
        if base is None:
            raise PyRaise("AttributeError", "'NoneType' object has no attribute %r" % attr)
        raise Unsupported("attribute %s of %r" % (attr, base), node)

    def setattr(self, base, attr, val, fr, node=None):
        run = self.run
        base = self.force(base)
        if tag(base) == "ghostns":
            run.ghost[(base[1].oid, attr)] = val
            return
        if not isinstance(base, Ref):
            raise Unsupported("attribute store on %r" % (base,), node)
        o = run.obj(base)
        if not isinstance(o, HObj):
            raise Unsupported("attribute store on container", node)
        ci = self.repo.classes.get(o.cls)
        if ci is not None:
            s = self.repo.find_setter(ci, attr)
            if s is not None:
                self.call_function(s, [base, val], {}, fr, node, force_inline=True)
                return
        if fr.spec is not None and not getattr(fr.spec, "allow_write", False):
            raise Unsupported("write in specification")
        run.writes.add((o.cls, attr))
        o.fields[attr] = val

    def e_Subscript(self, e, fr):
        base = self.ev(e.value, fr)
        if isinstance(e.slice, ast.Slice):
            lo = self.ev(e.slice.lower, fr) if e.slice.lower is not None else None
            hi = self.ev(e.slice.upper, fr) if e.slice.upper is not None else None
            if e.slice.step is not None:
                raise Unsupported("slice step", e)
            return self.getslice(base, lo, hi, e)
        idx = self.ev(e.slice, fr)
        return self.getitem(base, idx, e)

    def e_Slice(self, e, fr):
        """a slice inside a tuple subscript (a[:, m]): a tagged value, interpreted by the subscripted object's model"""
        if e.step is not None:
            raise Unsupported("slice step", e)
        return T(("slice", self.ev(e.lower, fr) if e.lower is not None else None,
                  self.ev(e.upper, fr) if e.upper is not None else None))

    def norm_index(self, i, n, node, what="index"):
        """normalise a possibly negative index against length n; emits bounds obligation"""
        run = self.run
        if isinstance(i, int) and not is_z3(n):
            if i < 0:
                i += n
            if not (0 <= i < n):
                raise PyRaise("IndexError")
            return i
        zi, zn = b2i(z(i)), b2i(z(n))
        if isinstance(i, int):
            j = zn + i if i < 0 else zi
        elif not run.feasible(zi < 0):
            j = zi                      # provably non-negative under the path condition: no wrap-around term
        else:
            j = z3.If(zi < 0, zi + zn, zi)
        run.oblige("%s-in-range@%s" % (what, getattr(node, "lineno", "?")), z3.And(j >= 0, j < zn), kind="safety",
                   where=getattr(node, "lineno", None))
        return j

    def getitem(self, base, idx, node=None):
        run = self.run
        if isinstance(base, SOpt):
            base = run.unopt(base, "subscripted value")
        if tag(base) == "ghostns":
            raise Unsupported("ghost subscript")
        if isinstance(base, tuple) and not isinstance(base, T):
            if isinstance(idx, int):
                try:
                    return base[idx]
                except IndexError:
                    raise PyRaise("IndexError")
            if is_z3(idx):
                j = self.norm_index(idx, len(base), node)
                res = base[-1]
                for k in range(len(base) - 2, -1, -1):
                    res = run.ite(j == k, base[k], res)
                return res
        if isinstance(base, SArr1):
            if isinstance(idx, int) and idx in (0, -1):
                return base.val if base.ndim == 1 else SArr1(base.val, base.ndim - 1)
            if isinstance(idx, tuple) and len(idx) == base.ndim and all(i in (0, -1) for i in idx):
                return base.val
            raise Unsupported("index %r on 1-element array" % (idx,), node)
        if isinstance(base, Ref):
            o = run.obj(base)
            if isinstance(o, HList):
                n = len(o.items)
                if isinstance(idx, int):
                    return o.items[self.norm_index(idx, n, node)]
                if is_z3(idx):
                    if n == 0:
                        raise PyRaise("IndexError")
                    j = self.norm_index(idx, n, node)
                    if any(isinstance(x, Ref) for x in o.items):
                        # rows are mutable objects: select one by case split so that writes reach the real row
                        for k in range(n - 1):
                            if run.branch(j == k, "row-index"):
                                return o.items[k]
                        return o.items[n - 1]
                    res = o.items[-1]
                    for k in range(n - 2, -1, -1):
                        res = run.ite(j == k, o.items[k], res)
                    return res
            if isinstance(o, HSeq):
                j = self.norm_index(idx, o.hi - o.lo, node)
                return run.seq_get(o, j)
            if isinstance(o, HDict):
                if isinstance(idx, (str, int)):
                    if idx not in o.items:
                        raise PyRaise("KeyError", str(idx))
                    return o.items[idx]
                if isinstance(idx, SStr) or is_z3(idx):
                    keys = list(o.items)
                    if is_z3(idx) and idx.sort() == INT and all(isinstance(k, str) for k in keys):
                        keq = lambda k: idx == self.ctx.intern(k)     # key given by its integer code
                    else:
                        keq = lambda k: run.eq(idx, k)
                    run.oblige("key-present@%s" % getattr(node, "lineno", "?"),
                               OR(*[keq(k) for k in keys]), kind="safety")
                    res = o.items[keys[-1]]
                    for k in reversed(keys[:-1]):
                        res = run.ite(zbool(keq(k)), o.items[k], res)
                    return res
            if isinstance(o, HMap):
                k = self.mapkey(idx)
                run.oblige("key-present@%s" % getattr(node, "lineno", "?"), z3.Select(o.dom, k), kind="safety")
                return self.ctx.models.map_get(self, o, k)
        m = self.ctx.models.getitem_hook(self, base, idx, node)
        if m is not NotImplemented:
            return m
        raise Unsupported("subscript of %r with %r" % (base, idx), node)

    def getslice(self, base, lo, hi, node=None):
        run = self.run
        if isinstance(base, Ref):
            o = run.obj(base)
            if isinstance(o, HList):
                if (lo is None or isinstance(lo, int)) and (hi is None or isinstance(hi, int)):
                    return run.alloc(HList(o.items[lo:hi]))
                # symbolic bounds on a concrete list -> go through a sequence view
                o = self.list_to_seq(o)
            if isinstance(o, HSeq):
                n = o.hi - o.lo

                def clamp(x, default):
                    if x is None:
                        return default
                    zx = b2i(z(x))
                    zx = z3.If(zx < 0, zx + n, zx)
                    return z3.If(zx < 0, 0, z3.If(zx > n, n, zx))
                a = clamp(lo, z3.IntVal(0))
                b_ = clamp(hi, n)
                b_ = z3.If(b_ < a, a, b_)
                nlo, nhi = z3.simplify(o.lo + a), z3.simplify(o.lo + b_)
                from . import seqs
                seqs.note_slice(self, o, nlo, nhi)
                return run.alloc(HSeq(o.arr, nlo, nhi, o.elem))
        if isinstance(base, tuple) and (lo is None or isinstance(lo, int)) and (hi is None or isinstance(hi, int)):
            return base[lo:hi]
        m = self.ctx.models.getslice_hook(self, base, lo, hi, node)
        if m is not NotImplemented:
            return m
        raise Unsupported("slice of %r" % (base,), node)

    def list_to_seq(self, o):
        items = o.items
        if not items:
            return HSeq(z3.K(INT, z3.RealVal(0)), z3.IntVal(0), z3.IntVal(0), "Real")
        allint = all(is_int(x) for x in items)
        arr = z3.K(INT, z3.IntVal(0) if allint else z3.RealVal(0))
        for i, x in enumerate(items):
            arr = z3.Store(arr, i, b2i(z(x)) if allint else to_real(x))
        return HSeq(arr, z3.IntVal(0), z3.IntVal(len(items)), "Int" if allint else "Real")

    def setitem(self, base, idx, val, fr, node=None):
        run = self.run
        if isinstance(base, SOpt):
            base = run.unopt(base, "subscripted value")
        if isinstance(base, Ref):
            o = run.obj(base)
            if isinstance(o, HList):
                n = len(o.items)
                if isinstance(idx, int):
                    o.items[self.norm_index(idx, n, node)] = val
                    return
                if is_z3(idx):
                    j = self.norm_index(idx, n, node)
                    o.items = [run.ite(j == k, val, o.items[k]) for k in range(n)]
                    return
            if isinstance(o, HSeq):
                if isinstance(idx, Ref):
                    # a container used as index (numpy fancy indexing): left to the model hooks
                    m = self.ctx.models.setitem_hook(self, base, idx, val, node)
                    if m is not NotImplemented:
                        return
                    raise Unsupported("subscript store with a container index", node)
                j = self.norm_index(idx, o.hi - o.lo, node)
                o.arr = z3.Store(o.arr, o.lo + j, self.elem_term(val, o.elem))
                return
            if isinstance(o, HDict):
                if isinstance(idx, (str, int)):
                    o.items[idx] = val
                    return
            if isinstance(o, HMap):
                self.ctx.models.map_set(self, o, self.mapkey(idx), val)
                return
        m = self.ctx.models.setitem_hook(self, base, idx, val, node)
        if m is not NotImplemented:
            return
        if tag(base) == "maplit":
            # {symbolic key: value} literal: a store under a key that is syntactically one of its keys replaces the value
            # (in place: the pair list is shared by every alias); any other key is outside the fragment
            pairs = base[1]
            for i, (k, _v) in enumerate(pairs):
                if (is_z3(k) and is_z3(idx) and k.eq(idx)) or (not is_z3(k) and not is_z3(idx) and k == idx):
                    pairs[i] = (k, val)
                    return
            raise Unsupported("store into a dict literal under a new symbolic key", node)
        raise Unsupported("subscript store on %r" % (base,), node)

    def elem_term(self, v, elem):
        if elem == "Int":
            return b2i(z(self.run.num(v)))
        if elem == "Real":
            vv = self.run.num(v)
            if isinstance(vv, SArr1):
                vv = vv.val
            return to_real(vv)
        if elem == "Bool":
            return zbool(v)
        if elem == "Str":
            if isinstance(v, str):
                return self.ctx.strval(v).t
            return v.t
        if elem == "OptStr":
            if v is None:
                return z3.IntVal(0)
            if isinstance(v, str):
                return self.ctx.strval(v).t
            if isinstance(v, SStr):
                return v.t
            if isinstance(v, SOpt):
                return z3.If(zbool(v.isnone), z3.IntVal(0), v.val.t if v.val is not None else z3.IntVal(0))
        raise Unsupported("element of kind %s from %r" % (elem, v))

    # -- comprehensions -------------------------------------------------------
    def e_ListComp(self, e, fr):
        return self.comp(e, fr, "list")

    def e_GeneratorExp(self, e, fr):
        return self.comp(e, fr, "list")

    def e_DictComp(self, e, fr):
        return self.comp(e, fr, "dict")

    def comp(self, e, fr, kind):
        if len(e.generators) != 1:
            raise Unsupported("nested comprehension", e)
        g = e.generators[0]
        it = self.ev(g.iter, fr)
        m = self.ctx.models.comp_hook(self, e, it, fr, kind)
        if m is not NotImplemented:
            return m
        if (kind == "list" and tag(it) == "range" and it[3] == 1 and any(is_z3(x) for x in it[1:3]) and not g.ifs
                and isinstance(g.target, ast.Name)):
            return self.comp_symbolic_range(e, g, it, fr)
        items = self.iter_concrete(it, e)
        out = []
        outd = {}
        for x in items:
            sub = Frame({}, fr.fi, fr.cls, parent=fr, module=fr.module)
            sub.spec = fr.spec
            self.assign(g.target, x, sub)
            ok = True
            for cond in g.ifs:
                t = self.run.truth(self.ev(cond, sub))
                if isinstance(t, bool):
                    ok = ok and t
                else:
                    ok = ok and self.run.branch(t, "comp-if")
                if not ok:
                    break
            if not ok:
                continue
            if kind == "dict":
                k = self.ev(e.key, sub)
                outd[k] = self.ev(e.value, sub)
            else:
                out.append(self.ev(e.elt, sub))
        if kind == "dict":
            return self.run.alloc(HDict(outd))
        return self.run.alloc(HList(out))

    def comp_symbolic_range(self, e, g, it, fr):
        """[f(i) for i in range(a, b)] with symbolic bounds: the sequence whose j-th element is f(a + j).  The element
        expression is evaluated once for an arbitrary index in range (its safety obligations then hold for every index);
        it must not split the path (no index-dependent branching) and must yield a number"""
        run = self.run
        a, b = b2i(z(it[1])), b2i(z(it[2]))
        j = z3.Int("j!comp%d" % run.fresh_n)
        run.fresh_n += 1
        n = z3.simplify(z3.If(b - a >= 0, b - a, z3.IntVal(0)))
        sub = Frame({}, fr.fi, fr.cls, parent=fr, module=fr.module)
        sub.spec = fr.spec
        sub.env[g.target.id] = a + j
        n_pc, n_dec = len(run.pc), run.pos
        run.pc.append(z3.And(j >= 0, j < n))
        try:
            v = run.num(self.ev(e.elt, sub), "comprehension element")
        finally:
            # the index assumption is local to the element: obligations created inside carry it, later ones do not
            del run.pc[n_pc]
        if run.pos != n_dec:
            raise Unsupported("comprehension over a symbolic range whose element splits the path", e)
        if not is_z3(v):
            v = z3.IntVal(v) if isinstance(v, int) else z3.RealVal(v)
        elem = "Int" if v.sort() == INT else ("Real" if v.sort() == REAL else None)
        if elem is None:
            raise Unsupported("comprehension over a symbolic range with non-numeric elements", e)
        return run.alloc(HSeq(z3.Lambda([j], v), z3.IntVal(0), n, elem))

    def iter_concrete(self, it, node=None):
        run = self.run
        if isinstance(it, tuple):
            if tag(it) == "range":
                _, a, b, s = it
                if all(isinstance(x, int) for x in (a, b, s)):
                    return list(range(a, b, s))
                raise Unsupported("symbolic range needs a loop invariant", node)
            if tag(it) == "enumerate":
                inner = self.iter_concrete(it[1], node)
                return [(i, x) for i, x in enumerate(inner)]
            if tag(it) == "zip":
                lists = [self.iter_concrete(x, node) for x in it[1]]
                return list(zip(*lists))
            return list(it)
        if isinstance(it, Ref):
            o = run.obj(it)
            if isinstance(o, HList):
                return list(o.items)
            if isinstance(o, HDict):
                return list(o.items.keys())
            if isinstance(o, HSeq):
                n = z3.simplify(o.hi - o.lo)
                if z3.is_int_value(n):
                    return [run.seq_get(o, i) for i in range(n.as_long())]
        m = self.ctx.models.iter_hook(self, it, node)
        if m is not NotImplemented:
            return m
        raise Unsupported("iteration over %r needs a loop invariant" % (it,), node)

    # -- calls ---------------------------------------------------------------------
    def e_Call(self, e, fr):
        # spec-only forms
        if isinstance(e.func, ast.Name):
            nm = e.func.id
            if fr.spec is not None:
                h = getattr(self, "spec_" + nm, None)
                if h is not None:
                    return h(e, fr)
            if nm == "super" and not e.args:
                selfv = fr.env.get("self")
                f = fr
                while selfv is None and f.parent is not None:
                    f = f.parent
                    selfv = f.env.get("self")
                return SSuper(selfv, fr.cls)
        fn = self.ev(e.func, fr)
        args = []
        for a in e.args:
            if isinstance(a, ast.Starred):
                args.extend(self.iter_concrete(self.ev(a.value, fr), e))
            else:
                args.append(self.ev(a, fr))
        kwargs = {}
        for k in e.keywords:
            if k.arg is None:
                raise Unsupported("**kwargs call", e)
            kwargs[k.arg] = self.ev(k.value, fr)
        return self.call(fn, args, kwargs, fr, e)

    def call(self, fn, args, kwargs, fr, node=None):
        run = self.run
        if isinstance(fn, SFunc):
            k = fn.kind
            if k == "noop":
                return None
            if k == "bound":
                return self.call_function(fn.fi, [fn.selfv] + args, kwargs, fr, node)
            if k == "func":
                return self.call_function(fn.fi, args, kwargs, fr, node)
            if k == "closure":
                return self.call_closure(fn, args, kwargs, fr, node)
            if k == "objmethod":
                return self.ctx.models.call_method(self, fn.target, fn.name, args, kwargs, fr, node)
            if k == "model":
                return fn.fn(self, args, kwargs, fr, node)
            if k == "uf":
                return self.ctx.models.call_uf(self, fn, args, kwargs, node)
            if k == "spec":
                return self.ctx.reg.call_spec(self, fn, args, kwargs, fr, node)
        if isinstance(fn, SMod):
            return self.ctx.models.call_external(self, fn.dotted, args, kwargs, fr, node)
        if isinstance(fn, SCls):
            return self.instantiate(fn.ci, args, kwargs, fr, node)
        if isinstance(fn, SExcClass):
            return T(("exc", fn.name, args))
        if isinstance(fn, Ref):
            o = run.obj(fn)
            if isinstance(o, HObj):
                ci = self.repo.classes.get(o.cls)
                if ci is not None:
                    fi = self.repo.find_method(ci, "__call__")
                    if fi is not None:
                        return self.call_function(fi, [fn] + args, kwargs, fr, node)
                m = self.ctx.models.call_object(self, fn, o, args, kwargs, fr, node)
                if m is not NotImplemented:
                    return m
        if isinstance(fn, SOpaque):
            return self.ctx.models.call_opaque(self, fn, args, kwargs, fr, node)
        raise Unsupported("call of %r" % (fn,), node)

    def instantiate(self, ci, args, kwargs, fr, node):
        if self.ctx.policy.get(ci.qualname) == "opaque":
            # the verified function's contract asks for this class to be an opaque library object (calls={...: 'opaque'})
            m = CLASS_MODELS.get(ci.qualname)
            if m is None:
                raise Unsupported("no opaque model for class %s" % ci.qualname, node)
            return m(self, args, kwargs, fr, node)
        ref = self.run.alloc(HObj(ci.name, {}))
        init = self.repo.find_method(ci, "__init__")
        if init is not None:
            self.call_function(init, [ref] + args, kwargs, fr, node)
        return ref

    def bind(self, fnode, args, kwargs, fr, node, defaults_frame):
        a = fnode.args
        env = {}
        params = [p.arg for p in a.posonlyargs + a.args]
        defaults = a.defaults
        ndef = len(defaults)
        npos = len(params)
        if len(args) > npos and a.vararg is None:
            raise PyRaise("TypeError", "too many positional arguments")
        for i, p in enumerate(params):
            if i < len(args):
                env[p] = args[i]
            elif p in kwargs:
                env[p] = kwargs.pop(p)
            else:
                di = i - (npos - ndef)
                if di >= 0:
                    env[p] = self.ev(defaults[di], defaults_frame)
                else:
                    raise PyRaise("TypeError", "missing argument %s" % p)
        if a.vararg is not None:
            env[a.vararg.arg] = tuple(args[npos:])
        for i, p in enumerate(a.kwonlyargs):
            if p.arg in kwargs:
                env[p.arg] = kwargs.pop(p.arg)
            elif a.kw_defaults[i] is not None:
                env[p.arg] = self.ev(a.kw_defaults[i], defaults_frame)
            else:
                raise PyRaise("TypeError", "missing kw argument")
        if kwargs:
            if a.kwarg is not None:
                env[a.kwarg.arg] = self.run.alloc(HDict(kwargs))
            else:
                for kname in list(kwargs):
                    if kname in params:
                        raise PyRaise("TypeError", "multiple values for %s" % kname)
                raise PyRaise("TypeError", "unexpected keyword %s" % list(kwargs))
        return env

    def call_function(self, fi, args, kwargs, fr, node=None, force_inline=False):
        run = self.run
        kwargs = dict(kwargs)
        if not force_inline:
            mode = self.ctx.policy.get(fi.qualname)
            if mode is None:
                mode = "contract" if self.ctx.reg.has_contract(fi.qualname) and self.ctx.reg.contracts[
                    fi.qualname].get("modular", False) else "inline"
            if mode == "contract" or (isinstance(mode, str) and mode.startswith("contract:")):
                return self.ctx.reg.apply_contract(self, fi, args, kwargs, fr, node)
            if mode == "model":
                return self.ctx.models.call_external(self, "repo." + fi.qualname, args, kwargs, fr, node)
        if run.call_depth > 40:
            raise Unsupported("recursion without contract: %s" % fi.qualname, node)
        modfr = Frame({}, fi, fi.cls, module=fi.module)
        env = self.bind(fi.node, args, kwargs, fr, node, modfr)
        nf = Frame(env, fi, fi.cls, module=fi.module)
        self.declare_locals(fi.node, nf)
        run.call_depth += 1
        try:
            self.exec_block(fi.node.body, nf)
            return None
        except ReturnEx as r:
            return r.value
        finally:
            run.call_depth -= 1

    def declare_locals(self, fnode, fr):
        """Python scoping: a name assigned anywhere in the function is local (unbound until assigned)."""
        for n in ast.walk(fnode):
            if isinstance(n, ast.Name) and isinstance(n.ctx, ast.Store):
                if n.id not in fr.env:
                    fr.env[n.id] = SUndef()
            elif isinstance(n, ast.FunctionDef) and n is not fnode:
                if n.name not in fr.env:
                    fr.env[n.name] = SUndef()

    def call_closure(self, fn, args, kwargs, fr, node):
        nd = fn.node
        kwargs = dict(kwargs)
        if isinstance(nd, ast.Lambda):
            env = self.bind(nd, args, kwargs, fr, node, fn.frame)
            nf = Frame(env, fn.frame.fi, fn.frame.cls, parent=fn.frame, module=fn.frame.module)
            nf.spec = fr.spec if fr.spec is not None else fn.frame.spec
            return self.ev(nd.body, nf)
        env = self.bind(nd, args, kwargs, fr, node, fn.frame)
        nf = Frame(env, fn.frame.fi, fn.frame.cls, parent=fn.frame, module=fn.frame.module)
        # locals of the nested def (but not names it only reads from the enclosing scope)
        for n in ast.walk(nd):
            if isinstance(n, ast.Name) and isinstance(n.ctx, ast.Store) and n.id not in nf.env:
                nf.env[n.id] = SUndef()
        self.run.call_depth += 1
        try:
            self.exec_block(nd.body, nf)
            return None
        except ReturnEx as r:
            return r.value
        finally:
            self.run.call_depth -= 1

    # -- statements ------------------------------------------------------------------
    def exec_block(self, stmts, fr):
        blocks = self.abstract_blocks(stmts, fr)
        skip_until = None
        for s in stmts:
            if skip_until is not None:
                if s is skip_until:
                    skip_until = None
                continue
            b = blocks.get(id(s))
            if b is not None:
                self.abstract_block(b, fr)
                if b["last"] is not s:
                    skip_until = b["last"]
                continue
            self.exec_stmt(s, fr)

    def abstract_blocks(self, stmts, fr):
        """statement ranges of the function body that the (two-run) contract abstracts: {id(first stmt): block}.  A block
        is named by the variables its first and last statements assign, so it survives line shifts."""
        if fr.fi is None or stmts is not fr.fi.node.body:
            return {}
        rl = getattr(self.ctx.reg, "rel_blocks", None) or {}
        specs = rl.get(fr.fi.qualname)
        if specs is None:
            c = self.ctx.reg.contracts.get(fr.fi.qualname)
            specs = (c or {}).get("abstract_blocks")
        if not specs:
            return {}
        out = {}
        for spec in specs:
            first = last = None
            for st in stmts:
                names = self.assigned_names([st]) if not isinstance(st, ast.FunctionDef) else {st.name}
                if first is None and spec["from"] in names:
                    first = st
                if first is not None and spec["to"] in names:
                    last = st
                    if not spec.get("to_last"):
                        break
            if first is None or last is None:
                raise Unsupported("abstracted block %s..%s not found in %s" % (spec["from"], spec["to"], fr.fi.qualname))
            i0, i1 = stmts.index(first), stmts.index(last)
            out[id(first)] = dict(spec, first=first, last=last, stmts=stmts[i0:i1 + 1])
        return out

    def abstract_block(self, b, fr):
        """replace a straight run of statements by the havoc of the variables it assigns (its effect on objects it might
        mutate is NOT modelled: only blocks that build fresh local values may be abstracted); in two-run mode the block
        must not read the varied data, and both runs then see the same values"""
        run = self.run
        names = set()
        for st in b["stmts"]:
            names |= {st.name} if isinstance(st, ast.FunctionDef) else self.assigned_names([st])
            todo = [st] if not isinstance(st, ast.FunctionDef) else []
            while todo:
                n = todo.pop()
                if isinstance(n, (ast.Return, ast.Raise, ast.Break, ast.Continue)):
                    raise Unsupported("abstracted block contains control transfer", st)
                todo.extend(c for c in ast.iter_child_nodes(n) if not isinstance(c, (ast.FunctionDef, ast.Lambda)))
            for n in ast.walk(st):
                if isinstance(n, (ast.Attribute, ast.Subscript)) and isinstance(n.ctx, ast.Store):
                    if isinstance(n, ast.Attribute) and isinstance(n.value, ast.Name) and n.value.id == "self" and \
                            n.attr in b.get("havoc_fields", {}):
                        continue        # a field the contract declares as written by the block: havocked below
                    raise Unsupported("abstracted block writes to an object", st)
        rel = getattr(run, "rel_share", None)
        key = (fr.fi.qualname, "block", b["from"], b["to"])
        if rel is not None:
            from .taint import Taint
            t = Taint(fr.fi.node, rel["vary_params"], rel["vary_fields"])
            for st in b["stmts"]:
                for n in ast.walk(st):
                    if isinstance(n, ast.expr) and t.expr_tainted(n):
                        raise Unsupported("abstracted block declared independent of the varied data, but line %d reads it"
                                          % getattr(n, "lineno", st.lineno), st)
        if rel is not None and rel["side"] == 1 and key in rel["store"]:
            for nm, v0 in rel["store"][key].items():
                fr.env[nm] = v0
        else:
            types = b.get("types", {})
            vals = {}
            for nm in sorted(names):
                if nm in types:
                    vals[nm] = self.ctx.reg.make_symbolic(self, types[nm], "block!%s" % nm)
                else:
                    vals[nm] = SOpaque("AnyVal", run.fresh(self.ctx.sort("AnyVal"), "block!%s" % nm))
                fr.env[nm] = vals[nm]
            if rel is not None:
                for v0 in vals.values():
                    if isinstance(v0, Ref):
                        raise Unsupported("abstracted block result on the heap")
                rel["store"][key] = vals
        for fld, ty in b.get("havoc_fields", {}).items():
            selfv = fr.env.get("self")
            run.obj(selfv).fields[fld] = self.ctx.reg.make_symbolic(self, ty, "block!self.%s" % fld)
            run.writes.add((run.obj(selfv).cls, fld))
        run.assumed.append("abstracted statements of %s (from the assignment of %s to that of %s, lines %d-%d): not verified, "
                           "the variables they assign are arbitrary afterwards%s" % (
                               fr.fi.qualname, b["from"], b["to"], b["first"].lineno, getattr(b["last"], "end_lineno", b["last"].lineno),
                               "; two-run mode: they read nothing that depends on the varied data (checked: syntactic dependency "
                               "analysis), so both runs see the same values - library calls are deterministic under one random "
                               "seed schedule (assumed)" if rel is not None else ""))

    def exec_stmt(self, s, fr):
        m = getattr(self, "s_" + type(s).__name__, None)
        if m is None:
            raise Unsupported("statement %s" % type(s).__name__, s)
        self.run.trace.append(getattr(s, "lineno", 0))
        m(s, fr)

    def s_Pass(self, s, fr):
        pass

    def s_Expr(self, s, fr):
        if isinstance(s.value, ast.Constant):
            return
        self.ev(s.value, fr)

    def s_Return(self, s, fr):
        raise ReturnEx(self.ev(s.value, fr) if s.value is not None else None)

    def s_Break(self, s, fr):
        raise BreakEx()

    def s_Continue(self, s, fr):
        raise ContinueEx()

    def s_FunctionDef(self, s, fr):
        fr.env[s.name] = SFunc("closure", node=s, frame=fr)

    def s_Raise(self, s, fr):
        if s.exc is None:
            raise Unsupported("bare raise", s)
        v = self.ev(s.exc, fr)
        if tag(v) == "exc":
            raise PyRaise(v[1])
        if isinstance(v, SExcClass):
            raise PyRaise(v.name)
        if isinstance(v, SMod) and v.dotted == "builtins.NotImplemented":
            raise PyRaise("TypeError")
        raise Unsupported("raise of %r" % (v,), s)

    def s_Assert(self, s, fr):
        c = self.run.truth(self.ev(s.test, fr))
        if not self.run.branch(c, "assert"):
            raise PyRaise("AssertionError")

    def s_If(self, s, fr):
        c = self.run.truth(self.ev(s.test, fr))
        if self.run.branch(c, "if@%d" % s.lineno):
            self.exec_block(s.body, fr)
        else:
            self.exec_block(s.orelse, fr)

    def s_Assign(self, s, fr):
        v = self.ev(s.value, fr)
        for t in s.targets:
            self.assign(t, v, fr)

    def s_AnnAssign(self, s, fr):
        if s.value is not None:
            self.assign(s.target, self.ev(s.value, fr), fr)

    def s_AugAssign(self, s, fr):
        t = s.target
        if isinstance(t, ast.Name):
            cur = self.lookup(t.id, fr, t)
            nv = self.aug(s.op, cur, self.ev(s.value, fr), s)
            self.assign(t, nv, fr)
        elif isinstance(t, ast.Attribute):
            base = self.ev(t.value, fr)
            cur = self.getattr(base, t.attr, fr, t)
            nv = self.aug(s.op, cur, self.ev(s.value, fr), s)
            self.setattr(base, t.attr, nv, fr, t)
        elif isinstance(t, ast.Subscript):
            base = self.ev(t.value, fr)
            if isinstance(t.slice, ast.Slice):
                raise Unsupported("augmented slice assignment", s)
            idx = self.ev(t.slice, fr)
            cur = self.getitem(base, idx, t)
            nv = self.aug(s.op, cur, self.ev(s.value, fr), s)
            self.setitem(base, idx, nv, fr, t)
        else:
            raise Unsupported("augmented target", s)

    def aug(self, op, cur, val, node):
        if isinstance(op, ast.Add) and isinstance(cur, Ref) and isinstance(self.run.obj(cur), HList):
            # list += list mutates in place
            o = self.run.obj(cur)
            o.items.extend(self.iter_concrete(val, node))
            return cur
        return self.binop(op, cur, val, node)

    def assign(self, t, v, fr):
        if isinstance(t, ast.Name):
            f = fr
            if fr.spec is not None and not getattr(fr.spec, "allow_write", False):
                raise Unsupported("assignment in specification")
            fr.env[t.id] = v
        elif isinstance(t, ast.Attribute):
            base = self.ev(t.value, fr)
            self.setattr(base, t.attr, v, fr, t)
        elif isinstance(t, ast.Subscript):
            base = self.ev(t.value, fr)
            if isinstance(t.slice, ast.Slice):
                lo = self.ev(t.slice.lower, fr) if t.slice.lower is not None else None
                hi = self.ev(t.slice.upper, fr) if t.slice.upper is not None else None
                m = self.ctx.models.setslice_hook(self, base, lo, hi, v, t)
                if m is NotImplemented:
                    raise Unsupported("slice assignment", t)
                return
            idx = self.ev(t.slice, fr)
            self.setitem(base, idx, v, fr, t)
        elif isinstance(t, (ast.Tuple, ast.List)):
            vals = self.iter_concrete(v, t) if not isinstance(v, tuple) or (tag(v) in ("range", "zip", "enumerate")) else list(v)
            if len(vals) != len(t.elts):
                raise PyRaise("ValueError", "unpack")
            for tt, vv in zip(t.elts, vals):
                self.assign(tt, vv, fr)
        else:
            raise Unsupported("assignment target %s" % type(t).__name__, t)

    # -- loops --------------------------------------------------------------------------
    def loop_ordinal(self, s, fr):
        fi = fr.fi
        if fi is None:
            return None
        loops = [n for n in ast.walk(fi.node) if isinstance(n, (ast.While, ast.For))]
        loops.sort(key=lambda n: (n.lineno, n.col_offset))
        for i, n in enumerate(loops):
            if n is s:
                return i
        return None

    def s_While(self, s, fr):
        spec = self.ctx.reg.loop_spec(fr.fi, self.loop_ordinal(s, fr)) if fr.fi is not None else None
        if spec is None:
            fuel = 0
            while True:
                c = self.run.truth(self.ev(s.test, fr))
                if not isinstance(c, bool):
                    raise Unsupported("while loop with symbolic guard needs an invariant", s)
                if not c:
                    break
                fuel += 1
                if fuel > 256:
                    raise Unsupported("concrete loop exceeded fuel", s)
                try:
                    self.exec_block(s.body, fr)
                except BreakEx:
                    return
                except ContinueEx:
                    continue
            self.exec_block(s.orelse, fr)
            return
        self.cut_loop(s, fr, spec, guard=lambda: self.run.truth(self.ev(s.test, fr)), pre_body=None, post_body=None)

    def s_For(self, s, fr):
        spec = self.ctx.reg.loop_spec(fr.fi, self.loop_ordinal(s, fr)) if fr.fi is not None else None
        if spec is not None and spec.get("abstract"):
            # abstracted loop: neither the iterable nor the body is executed (recorded as an assumption by cut_loop)
            self.cut_loop(s, fr, spec, (lambda: False), None, None, extra_havoc=sorted(self.assigned_names([s.target])))
            return
        it = self.ev(s.iter, fr)
        if spec is None:
            items = self.iter_concrete(it, s)
            for x in items:
                self.assign(s.target, x, fr)
                try:
                    self.exec_block(s.body, fr)
                except BreakEx:
                    return
                except ContinueEx:
                    continue
            self.exec_block(s.orelse, fr)
            return
        # invariant-cut for loop: hidden index
        kname = spec.get("index", "k")
        length, getter = self.iter_symbolic(it, s)
        fr.env[kname] = 0

        def guard():
            return cmp("<", fr.env[kname], length)

        def pre_body():
            self.assign(s.target, getter(fr.env[kname]), fr)

        def post_body():
            fr.env[kname] = arith("+", fr.env[kname], 1)
        implicit = lambda: AND(cmp("<=", 0, fr.env[kname]), cmp("<=", fr.env[kname], length))
        self.cut_loop(s, fr, spec, guard, pre_body, post_body, extra_havoc=[kname], implicit_inv=implicit)

    def iter_symbolic(self, it, node):
        run = self.run
        if isinstance(it, SOpt):
            it = run.unopt(it, "iterable")
        if tag(it) == "enumerate" and isinstance(it[1], SOpt):
            it = T(("enumerate", run.unopt(it[1], "iterable")))
        if tag(it) == "range":
            _, a, b, st = it
            if st != 1:
                raise Unsupported("range step", node)
            a = run.unopt(a, "range bound") if isinstance(a, SOpt) else a
            b = run.unopt(b, "range bound") if isinstance(b, SOpt) else b
            n = arith("-", b, a)
            n = run.ite(cmp("<", n, 0), 0, n) if is_z3(n) else max(n, 0)
            return n, (lambda k: arith("+", a, k))
        if tag(it) == "enumerate":
            n, g = self.iter_symbolic(it[1], node)
            return n, (lambda k: (k, g(k)))
        if isinstance(it, Ref):
            o = run.obj(it)
            if isinstance(o, HSeq):
                return o.hi - o.lo, (lambda k: run.seq_get(o, b2i(z(k))))
            if isinstance(o, HList):
                return len(o.items), (lambda k: self.getitem(it, k, node))
        m = self.ctx.models.iter_symbolic_hook(self, it, node)
        if m is not NotImplemented:
            return m
        raise Unsupported("symbolic iteration over %r" % (it,), node)

    def assigned_names(self, stmts):
        names = set()
        for st in stmts:
            for n in ast.walk(st):
                if isinstance(n, ast.Name) and isinstance(n.ctx, ast.Store):
                    names.add(n.id)
        return names

    def cut_loop(self, s, fr, spec, guard, pre_body, post_body, extra_havoc=(), implicit_inv=None):
        run = self.run
        reg = self.ctx.reg
        ordn = self.loop_ordinal(s, fr)
        invs = spec.get("invariant", [])
        tags = spec.get("tags")
        lname = "%s/loop%d" % (fr.fi.qualname.split(":")[1], ordn)
        # 0. snapshots named by the loop contract (values at loop entry)
        for nm, txt in spec.get("let", {}).items():
            sf0 = Frame(dict(fr.env), fr.fi, fr.cls, parent=fr.parent, module=fr.module)
            sf0.spec = SpecEnv()
            sf0.spec.old = run.old_state
            run.spec_depth += 1
            try:
                v0 = self.ev(reg.parse(txt), sf0)
            finally:
                run.spec_depth -= 1
            if isinstance(v0, Ref):
                o0 = run.obj(v0)
                if isinstance(o0, HSeq):
                    v0 = run.alloc(HSeq(o0.arr, o0.lo, o0.hi, o0.elem))
                elif isinstance(o0, HList):
                    v0 = run.alloc(HList(o0.items))
                elif isinstance(o0, HDict):
                    v0 = run.alloc(HDict(o0.items))
            fr.env[nm] = v0
        # 1. invariant on entry
        if implicit_inv is not None:
            run.oblige("%s/implicit-inv/entry" % lname, implicit_inv(), kind="loop-inv", where=s.lineno)
        for i, inv in enumerate(invs):
            g = reg.eval_clause(self, inv, fr)
            run.oblige("%s/inv%d/entry" % (lname, i), g, kind="loop-inv", where=s.lineno, clause=inv, tags=tags)
        # 2. havoc
        names = set(spec.get("havoc_locals", self.assigned_names(s.body))) | set(extra_havoc)
        types = spec.get("types", {})
        for nm in sorted(names):
            cur = fr.env.get(nm)
            if nm in types:
                fr.env[nm] = reg.make_symbolic(self, types[nm], "loop!%s" % nm)
            elif cur is None or isinstance(cur, SUndef):
                continue
            else:
                fr.env[nm] = self.havoc_like(cur, "loop!%s" % nm)
        for fld, ty in spec.get("havoc_fields", {}).items():
            selfv = fr.env.get("self")
            curf = run.obj(selfv).fields.get(fld)
            if isinstance(curf, Ref) and not isinstance(run.obj(curf), HObj) and not ty.startswith("Opaque["):
                self.havoc_like(curf, "loop!self.%s" % fld)      # in place: aliases (e.g. a running iterator) see it
            else:
                run.obj(selfv).fields[fld] = reg.make_symbolic(self, ty, "loop!self.%s" % fld)
        for gk in spec.get("havoc_ghost_keys", []):
            gk = tuple(gk)
            if gk in run.ghost:
                run.ghost[gk] = run.fresh(run.ghost[gk].sort(), "loop!ghost!%s" % gk[1])
        # 2b. two-run mode: a loop that provably does not read the varied data leaves both runs in the same state
        rel = getattr(run, "rel_share", None)
        if rel is not None and spec.get("independent"):
            from .taint import Taint
            why = Taint(fr.fi.node, rel["vary_params"], rel["vary_fields"]).loop_independent(s)
            if why is not None:
                raise Unsupported("loop declared independent of the varied data, but %s" % why, s)
            key = (fr.fi.qualname, ordn)
            if rel["side"] == 0:
                rel["store"][key] = {nm: fr.env.get(nm) for nm in names}
            elif key in rel["store"]:
                for nm, v0 in rel["store"][key].items():
                    if isinstance(v0, Ref):
                        o0 = run.obj(v0)
                        if not hasattr(o0, "clone"):
                            raise Unsupported("shared loop state of type %s" % type(o0).__name__, s)
                        v0 = run.alloc(o0.clone())
                    fr.env[nm] = v0
            run.assumed.append("two-run: loop %s reads nothing that depends on the varied data (checked: syntactic dependency "
                               "analysis), so both runs leave it in the same state - library calls are deterministic under one "
                               "random seed schedule (assumed)" % lname)
        # 3. assume invariant
        if implicit_inv is not None:
            run.assume(zbool(implicit_inv()))
        for inv in invs:
            run.assume(zbool(reg.eval_clause(self, inv, fr)))
        for use in spec.get("use", []):
            reg.use_lemma(self, use, fr)
        # 4. guard
        c = guard()
        if spec.get("abstract"):
            # the body is not executed: the loop is replaced by the havoc of its targets (no invariant can be claimed,
            # exceptions raised inside the body are not considered) - recorded as an assumption of the report
            if invs:
                raise Unsupported("an abstracted loop cannot carry invariants", s)
            run.assumed.append("abstracted loop %s: its body is not verified, the variables it assigns are arbitrary "
                               "afterwards, exceptions raised inside it are not considered" % lname)
            run.assume(NOT(zbool(c)))
            self.exec_block(s.orelse, fr)
            return
        if run.branch(c, "loop@%d" % s.lineno):
            try:
                if pre_body is not None:
                    pre_body()
                for use in spec.get("use_body", []):
                    reg.use_lemma(self, use, fr)
                self.exec_block(s.body, fr)
            except BreakEx:
                return
            except ContinueEx:
                pass
            if post_body is not None:
                post_body()
            for use in spec.get("use_end", []):
                reg.use_lemma(self, use, fr)
            if implicit_inv is not None:
                run.oblige("%s/implicit-inv/preserved" % lname, implicit_inv(), kind="loop-inv", where=s.lineno)
            for i, inv in enumerate(invs):
                g = reg.eval_clause(self, inv, fr)
                run.oblige("%s/inv%d/preserved" % (lname, i), g, kind="loop-inv", where=s.lineno, clause=inv,
                           tags=tags)
            raise PathEnd()
        else:
            for use in spec.get("use_exit", []):
                reg.use_lemma(self, use, fr)
            self.exec_block(s.orelse, fr)

    def havoc_like(self, cur, hint):
        run = self.run
        if isinstance(cur, bool) or (is_z3(cur) and cur.sort() == BOOL):
            return run.fresh("Bool", hint)
        if isinstance(cur, int) or (is_z3(cur) and cur.sort() == INT):
            return run.fresh("Int", hint)
        if isinstance(cur, Fraction) or (is_z3(cur) and cur.sort() == REAL):
            return run.fresh("Real", hint)
        if isinstance(cur, SArr1):
            return SArr1(self.havoc_like(cur.val, hint), cur.ndim)
        if isinstance(cur, (str, SStr)):
            return SStr(run.fresh("Int", hint))
        if isinstance(cur, SOpt):
            return SOpt(run.fresh("Bool", hint + "!none"), self.havoc_like(cur.val, hint))
        if is_z3(cur):
            return run.fresh(cur.sort(), hint)
        if isinstance(cur, SOpaque):
            return SOpaque(cur.sort, run.fresh(cur.t.sort(), hint), dict(cur.meta))
        if isinstance(cur, tuple):
            return tuple(self.havoc_like(x, hint) for x in cur)
        if isinstance(cur, Ref):
            o = run.obj(cur)
            if isinstance(o, HList):
                o.items = [self.havoc_like(x, hint) for x in o.items]
                return cur
            if isinstance(o, HSeq):
                o.arr = run.fresh(o.arr.sort(), hint + "!arr")
                o.hi = o.lo + run.fresh("Int", hint + "!len")
                run.assume(o.hi >= o.lo)
                return cur
            if isinstance(o, HDict):
                o.items = {k: self.havoc_like(x, hint) for k, x in o.items.items()}
                return cur
            return cur
        if isinstance(cur, (SFunc, SCls, SMod)):
            return cur
        raise Unsupported("cannot havoc %r" % (cur,))
