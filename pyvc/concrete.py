"""z3-free concrete interpreter of the contract language: run-time monitors on the real classes.

The *same clause text* that pyvc proves symbolically is evaluated here on real objects (under /venv python, next
to numpy / pandas).  Used for (a) the bounded stand-in, (b) replay of counter-models, (c) reachable-witness search.
Floating point: a clause counts as satisfied if it holds exactly, or holds when comparisons between values that
agree to 1e-9 (relative) are resolved either way -- the proofs are over the reals (A-REAL).
"""
import ast
import copy
import math
import types

import numpy as np

try:
    import pandas as pd
except Exception:  # pragma: no cover
    pd = None

TOL_REL = 1e-9
TOL_ABS = 1e-12


class CRegistry:
    def __init__(self):
        self.classes = {}
        self.contracts = {}
        self.spec_sources = []
        self.lemmas = {}
        self.relationals = []

    def klass(self, qualname, **kw):
        name = qualname.split(":")[1]
        d = dict(qualname=qualname, name=name, fields={}, ghost={}, invariant=[], public=[], ghost_init=[],
                 params=[], tags=None)
        d.update(kw)
        self.classes[name] = d

    def contract(self, qualname, **kw):
        c = dict(qualname=qualname, params={}, requires=[], ensures=[], raises={}, modifies=None, loops={},
                 ghost_update=[], result=None, tags=("all",), reads_not=[])
        c.update(kw)
        self.contracts[qualname] = c

    def specfn(self, source):
        self.spec_sources.append(source)

    def lemma(self, name, params, **kw):
        self.lemmas[name] = kw

    def relational(self, name, **kw):
        kw["name"] = name
        self.relationals.append(kw)

    def frame(self, name, **kw):
        pass


def load_registry():
    import importlib
    from pyvc_modules import CONTRACT_MODULES
    R = CRegistry()
    for m in CONTRACT_MODULES:
        try:
            mod = importlib.import_module("contracts." + m)
        except ModuleNotFoundError:
            continue
        mod.register(R)
    return R


# ---------------------------------------------------------------------------
class Mode:
    cur = "exact"


def _scalar(x):
    if isinstance(x, np.ndarray):
        if x.size == 1:
            return x.reshape(-1)[0].item() if hasattr(x.reshape(-1)[0], "item") else x.reshape(-1)[0]
        return x
    if isinstance(x, np.generic):
        return x.item()
    return x


def _near(a, b):
    try:
        if isinstance(a, bool) or isinstance(b, bool):
            return False
        fa, fb = float(a), float(b)
    except (TypeError, ValueError):
        return False
    if not (isinstance(a, float) or isinstance(b, float)):
        return False
    if math.isinf(fa) or math.isinf(fb) or math.isnan(fa) or math.isnan(fb):
        return False
    return abs(fa - fb) <= max(TOL_ABS, TOL_REL * max(abs(fa), abs(fb)))


def deep_equal(a, b):
    a, b = _scalar(a), _scalar(b)
    if a is b:
        return True
    if isinstance(a, np.ndarray) or isinstance(b, np.ndarray):
        try:
            aa, bb = np.asarray(a, dtype=object), np.asarray(b, dtype=object)
            if aa.shape != bb.shape:
                return False
            return all(deep_equal(x, y) for x, y in zip(aa.reshape(-1), bb.reshape(-1)))
        except Exception:
            return False
    if pd is not None and (isinstance(a, (pd.DataFrame, pd.Series, pd.Index)) or isinstance(b, (pd.DataFrame, pd.Series, pd.Index))):
        try:
            return type(a) == type(b) and a.equals(b)
        except Exception:
            return False
    if isinstance(a, (list, tuple)) and isinstance(b, (list, tuple)):
        return len(a) == len(b) and all(deep_equal(x, y) for x, y in zip(a, b))
    if isinstance(a, dict) and isinstance(b, dict):
        return list(a.keys()) == list(b.keys()) and all(deep_equal(a[k], b[k]) for k in a)
    if isinstance(a, float) and isinstance(b, float) and math.isnan(a) and math.isnan(b):
        return True
    if hasattr(a, "__dict__") and hasattr(b, "__dict__") and type(a) == type(b) and not callable(a):
        da, db = vars(a), vars(b)
        return set(da) == set(db) and all(deep_equal(da[k], db[k]) for k in da)
    try:
        r = a == b
        if isinstance(r, np.ndarray):
            return bool(r.all())
        return bool(r)
    except Exception:
        return False


def _cmp(op, a, b):
    a, b = _scalar(a), _scalar(b)
    if op in ("is", "isnot"):
        r = a is b
        if a is None or b is None:
            r = a is None and b is None
        return r if op == "is" else not r
    if op in ("in", "notin"):
        r = a in b
        return r if op == "in" else not r
    if op in ("==", "!="):
        if (a is None) != (b is None):
            r = False
        elif isinstance(a, (list, tuple, dict, np.ndarray)) or isinstance(b, (list, tuple, dict, np.ndarray)):
            r = deep_equal(a, b)
        else:
            if Mode.cur != "exact" and _near(a, b):
                r = True
            elif isinstance(a, float) and isinstance(b, float) and math.isnan(a) and math.isnan(b):
                r = True
            else:
                try:
                    r = bool(a == b)
                except Exception:
                    r = deep_equal(a, b)
        return r if op == "==" else not r
    if Mode.cur != "exact" and _near(a, b):
        return Mode.cur == "lenient-true"
    if op == "<":
        return a < b
    if op == "<=":
        return a <= b
    if op == ">":
        return a > b
    if op == ">=":
        return a >= b
    raise ValueError(op)


OPS = {ast.Eq: "==", ast.NotEq: "!=", ast.Lt: "<", ast.LtE: "<=", ast.Gt: ">", ast.GtE: ">=", ast.Is: "is",
       ast.IsNot: "isnot", ast.In: "in", ast.NotIn: "notin"}


class Rewriter(ast.NodeTransformer):
    """old(e) / implies / forall / exists / unchanged / .ghost / comparisons -> plain Python"""

    def __init__(self, params):
        self.params = set(params)
        self.in_old = False
        self.bound = []

    def visit_Name(self, n):
        if self.in_old and isinstance(n.ctx, ast.Load) and n.id not in self.bound:
            if n.id == "self" or n.id in self.params:
                return ast.copy_location(ast.Name(id="__old_" + n.id, ctx=ast.Load()), n)
        return n

    def visit_Attribute(self, n):
        self.generic_visit(n)
        if n.attr == "ghost":
            return ast.copy_location(ast.Attribute(value=n.value, attr="_verif_ghost", ctx=n.ctx), n)
        return n

    def visit_BinOp(self, n):
        self.generic_visit(n)
        if isinstance(n.op, ast.Div):
            return ast.copy_location(ast.Call(func=ast.Name(id="__div", ctx=ast.Load()), args=[n.left, n.right],
                                              keywords=[]), n)
        return n

    def visit_Compare(self, n):
        self.generic_visit(n)
        parts = []
        left = n.left
        for op, right in zip(n.ops, n.comparators):
            parts.append(ast.Call(func=ast.Name(id="__cmp", ctx=ast.Load()),
                                  args=[ast.Constant(OPS[type(op)]), left, right], keywords=[]))
            left = right
        if len(parts) == 1:
            return ast.copy_location(parts[0], n)
        return ast.copy_location(ast.BoolOp(op=ast.And(), values=parts), n)

    def visit_Call(self, n):
        if isinstance(n.func, ast.Name):
            nm = n.func.id
            if nm == "old":
                prev = self.in_old
                self.in_old = True
                inner = self.visit(n.args[0])
                self.in_old = prev
                return inner
            if nm == "implies":
                a = self.visit(n.args[0])
                b = self.visit(n.args[1])
                return ast.copy_location(ast.BoolOp(op=ast.Or(), values=[ast.UnaryOp(op=ast.Not(), operand=a), b]), n)
            if nm in ("forall", "exists"):
                var = n.args[0].id
                lo = self.visit(n.args[1])
                hi = self.visit(n.args[2])
                self.bound.append(var)
                body = self.visit(n.args[3])
                self.bound.pop()
                gen = ast.GeneratorExp(
                    elt=body,
                    generators=[ast.comprehension(
                        target=ast.Name(id=var, ctx=ast.Store()),
                        iter=ast.Call(func=ast.Name(id="range", ctx=ast.Load()),
                                      args=[ast.Call(func=ast.Name(id="int", ctx=ast.Load()), args=[lo], keywords=[]),
                                            ast.Call(func=ast.Name(id="int", ctx=ast.Load()), args=[hi], keywords=[])],
                                      keywords=[]),
                        ifs=[], is_async=0)])
                return ast.copy_location(ast.Call(func=ast.Name(id="all" if nm == "forall" else "any", ctx=ast.Load()),
                                                  args=[gen], keywords=[]), n)
            if nm == "unchanged":
                calls = []
                for a in n.args:
                    prev = self.in_old
                    cur = self.visit(copy.deepcopy(a))
                    self.in_old = True
                    oldv = self.visit(copy.deepcopy(a))
                    self.in_old = prev
                    calls.append(ast.Call(func=ast.Name(id="__deep_equal", ctx=ast.Load()), args=[cur, oldv],
                                          keywords=[]))
                return ast.copy_location(ast.BoolOp(op=ast.And(), values=calls) if len(calls) > 1 else calls[0], n)
            if nm in ("count", "count2"):
                lam = n.args[0]
                # the predicate is closed: do not rewrite its parameter names
                self.bound.extend(a.arg for a in lam.args.args)
                lam2 = ast.Lambda(args=lam.args, body=self.visit(lam.body))
                for _ in lam.args.args:
                    self.bound.pop()
                rest = [self.visit(a) for a in n.args[1:]]
                return ast.copy_location(ast.Call(func=ast.Name(id="count", ctx=ast.Load()), args=[lam2] + rest,
                                                  keywords=[]), n)
        self.generic_visit(n)
        return n


# ---------------------------------------------------------------------------
# spec vocabulary, concrete versions
def _first(y):
    return np.array(y).ravel()[0]


def _size(y):
    return int(np.array(y).ravel().shape[0])


def _count(pred, *args):
    *seqs, k = args
    return sum(1 for i in range(int(k)) if pred(*[s[i] for s in seqs]))


def _zeros(n):
    return [0] * int(n)


def _c_in(cs, n):
    return [0] * int(n) if cs is None else cs


def _is_df(X):
    return pd is not None and isinstance(X, pd.DataFrame)


def _coerce_stream(X):
    if _is_df(X):
        return X.values
    a = np.array(copy.copy(X))
    if len(a.shape) <= 1:
        a = a.reshape(1, -1)
    return a


def _coerce_batch(X):
    if _is_df(X):
        return X.values
    a = np.array(copy.copy(X))
    if len(a.shape) <= 1:
        a = a.reshape(-1, 1)
    return a


def _seq_mean(xs):
    return float(np.mean([_scalar(np.asarray(x)) for x in xs])) if len(xs) else float("nan")


def _seq_std(xs):
    return float(np.std([_scalar(np.asarray(x)) for x in xs])) if len(xs) else float("nan")


class _Inf:
    pass


def _div(a, b):
    """total division with numpy float semantics (x/0 -> inf / nan), as the library's own arithmetic"""
    a, b = _scalar(a), _scalar(b)
    with np.errstate(all="ignore"):
        return float(np.float64(a) / np.float64(b))


class DivOnly(ast.NodeTransformer):
    def visit_BinOp(self, n):
        self.generic_visit(n)
        if isinstance(n.op, ast.Div):
            return ast.copy_location(ast.Call(func=ast.Name(id="__div", ctx=ast.Load()), args=[n.left, n.right],
                                              keywords=[]), n)
        return n


def _vals2(x):
    return x.values if _is_df(x) else np.asarray(x)


def _same_container(a, b):
    if type(a) is not type(b) or _vals2(a).shape != _vals2(b).shape:
        return False
    return bool(a.columns.equals(b.columns)) if _is_df(a) else True


def _colidx(x, c):
    return int(x.columns.get_loc(c)) if _is_df(x) else int(c)


def _valid_col(x, c):
    return (c in x.columns) if _is_df(x) else 0 <= int(c) < _vals2(x).shape[1]


BASE_NS = {
    # content-level 2-D containers (injectors)
    "cell": lambda x, i, j: _scalar(_vals2(x)[int(i)][int(j)]),
    "mrows": lambda x: int(_vals2(x).shape[0]), "mcols": lambda x: int(_vals2(x).shape[1]),
    "shares_cells": lambda a, b: a is b or bool(np.shares_memory(_vals2(a), _vals2(b))),
    "is_frame": _is_df, "same_container": _same_container, "colidx": _colidx, "valid_col": _valid_col,
    "mcol": lambda x, a, b, c: [_scalar(v) for v in _vals2(x)[int(a):int(b), int(c)]],
    "__cmp": _cmp, "__deep_equal": deep_equal, "__div": _div,
    "first": _first, "size": _size, "count": _count, "count2": _count, "zeros": _zeros, "c_in": _c_in,
    "isinf": lambda x: isinstance(_scalar(x), float) and math.isinf(_scalar(x)),
    "inf": lambda: float("inf"),
    "sqrt": lambda x: math.sqrt(x) if _scalar(x) >= 0 else float("nan"),
    "log": lambda x: math.log(x) if x > 0 else float("nan"),
    "close": lambda a, b: _cmp("==", float(_scalar(a)), float(_scalar(b))) if Mode.cur != "exact" else _near(
        float(_scalar(a)), float(_scalar(b))) or _scalar(a) == _scalar(b),
    "is_df": _is_df,
    "width": lambda X: int(_coerce_stream(X).shape[1]),
    "rows": lambda X: int(_coerce_stream(X).shape[0]),
    "bwidth": lambda X: int(_coerce_batch(X).shape[1]),
    "brows": lambda X: int(_coerce_batch(X).shape[0]),
    "cols": lambda X: X.columns,
    "cols_equal": lambda a, b: bool(a.equals(b)),
    "ncols": lambda c: len(c),
    "xval": lambda X, j: _coerce_stream(X)[0][int(j)],
    "bval": lambda X, i, j: _coerce_batch(X)[int(i)][int(j)],
    "seq_mean": _seq_mean, "seq_std": _seq_std,
    "pow2": lambda k: 2 ** int(k),
    "has_key": lambda m, k: k in m,
    "fresh": lambda v: True,        # ownership is checked by the aliasing probes of the bounded tier (b_C15)
    "vsum": lambda xs: sum(_scalar(np.asarray(x)) for x in xs),
    "asum": lambda xs, lo, hi: sum(_scalar(np.asarray(x)) for x in list(xs)[int(lo):int(hi)]),
    "norm_cdf": lambda x: float(__import__("scipy.stats").stats.norm.cdf(x, 0, 1)),
    "max": max, "min": min, "len": len, "abs": abs, "range": range, "int": int, "all": all, "any": any,
    "float": float, "sum": sum, "round": round, "bool": bool, "list": list, "tuple": tuple, "isinstance": isinstance,
    "np": np,
    "floor": lambda x: int(math.floor(_scalar(x))),
    "recursive": lambda *sig: (lambda f: f),     # marker decorator of recursive spec functions (plain recursion here)
}


class ClauseFailure(Exception):
    def __init__(self, kind, qualname, clause, detail=""):
        Exception.__init__(self, "%s of %s violated: %s %s" % (kind, qualname, clause, detail))
        self.kind = kind
        self.qualname = qualname
        self.clause = clause
        self.detail = detail


class Monitors:
    """Attach the sidecar contracts of a class to the real class as run-time monitors (setattr, no /repo edit)."""

    def __init__(self, reg, tags=None):
        self.reg = reg
        self.tags = set(tags) if tags else None
        self.ns = dict(BASE_NS)
        for src in reg.spec_sources:
            tree = DivOnly().visit(ast.parse(src))
            ast.fix_missing_locations(tree)
            exec(compile(tree, "<spec>", "exec"), self.ns)
        self.compiled = {}
        self.evaluations = 0
        self.per_clause = {}
        self.failures = []
        self.raise_on_failure = True
        self.installed = []
        self.depth = 0

    def wanted(self, tags):
        if self.tags is None:
            return True
        ts = set(t.strip().rstrip("!") for t in tags)
        return bool(ts & self.tags) or "all" in ts

    def compile_clause(self, text, params):
        key = (text, tuple(params))
        c = self.compiled.get(key)
        if c is None:
            tree = ast.parse(text.strip(), mode="eval")
            tree = Rewriter(params).visit(tree)
            ast.fix_missing_locations(tree)
            c = compile(tree, "<clause>", "eval")
            self.compiled[key] = c
        return c

    def eval_clause(self, text, env, params):
        code = self.compile_clause(text, params)
        ns = dict(self.ns)
        ns.update(env)
        last = None
        for mode in ("exact", "lenient-true", "lenient-false"):
            Mode.cur = mode
            try:
                r = eval(code, ns)
            finally:
                Mode.cur = "exact"
            r = _scalar(r)
            if isinstance(r, np.ndarray):
                r = bool(r.all())
            if r:
                return True
            last = r
        return False

    def exec_ghost(self, text, env, params):
        tree = ast.parse(text.strip())
        tree = Rewriter(params).visit(tree)
        ast.fix_missing_locations(tree)
        ns = dict(self.ns)
        ns.update(env)
        exec(compile(tree, "<ghost>", "exec"), ns)
        for k in list(ns):
            if k not in self.ns and k not in env and not k.startswith("__"):
                env[k] = ns[k]

    def check(self, kind, qualname, tags, text, env, params):
        if not self.wanted(tags):
            return
        self.evaluations += 1
        self.per_clause[(qualname, text)] = self.per_clause.get((qualname, text), 0) + 1
        try:
            ok = self.eval_clause(text, env, params)
            detail = ""
        except Exception as e:  # a clause that cannot be evaluated is a checker problem, not a violation
            raise RuntimeError("clause evaluation failed for %s: %s (%s: %s)" % (qualname, text, type(e).__name__, e))
        if not ok:
            f = ClauseFailure(kind, qualname, text, detail)
            self.failures.append(f)
            if self.raise_on_failure:
                raise f

    def install(self, cls, cname=None):
        """wrap every method of ``cls`` (a real class) that has a contract"""
        cname = cname or cls.__name__
        k = self.reg.classes.get(cname)
        for q, c in self.reg.contracts.items():
            mod, rest = q.split(":")
            if "." not in rest:
                continue
            cn, fn = rest.split(".")
            if cn != cname:
                continue
            if not hasattr(cls, fn):
                continue
            orig = cls.__dict__.get(fn)
            if orig is None:
                # inherited: wrap on this class so that other subclasses are not affected
                orig = getattr(cls, fn)
            if getattr(orig, "_verif_wrapped", False):
                continue
            wrapped = self.make_wrapper(cls, fn, orig, c, k)
            setattr(cls, fn, wrapped)
            self.installed.append((cls, fn, orig))

    def uninstall(self):
        for cls, fn, orig in reversed(self.installed):
            setattr(cls, fn, orig)
        self.installed = []

    def make_wrapper(self, cls, fn, orig, c, k):
        import inspect
        mon = self
        f = orig.__func__ if isinstance(orig, (staticmethod, classmethod)) else orig
        is_static = isinstance(orig, staticmethod)
        sig = inspect.signature(f)
        dtags = c["tags"]
        q = c["qualname"]
        is_init = fn == "__init__"
        pnames = [p for p in sig.parameters if p != "self"]

        def parts(cl, default):
            if isinstance(cl, tuple):
                return tuple(cl[0].split(",")), cl[1]
            return tuple(default), cl

        def wrapper(*args, **kwargs):
            if mon.depth > 0:
                # nested call from inside a monitored method: class invariants need not hold mid-method; the callee
                # is verified on its own (modularly / inlined) by the deductive tier
                return f(*args, **kwargs)
            try:
                ba = sig.bind(*args, **kwargs)
            except TypeError:
                return f(*args, **kwargs)
            ba.apply_defaults()
            env = dict(ba.arguments)
            selfv = env.get("self")
            if selfv is not None and not is_init and not hasattr(selfv, "_verif_ghost"):
                selfv._verif_ghost = types.SimpleNamespace()
            # preconditions: a call outside the contract's domain is simply not monitored
            try:
                for r in c["requires"]:
                    _t, txt = parts(r, dtags)
                    if not mon.eval_clause(txt, env, pnames):
                        return f(*args, **kwargs)
            except Exception:
                return f(*args, **kwargs)
            old_env = {}
            for kname, v in env.items():
                try:
                    old_env["__old_" + kname] = copy.deepcopy(v)
                except Exception:
                    old_env["__old_" + kname] = v
            mon.depth += 1
            exc = None
            result = None
            try:
                try:
                    result = f(*args, **kwargs)
                except Exception as e:
                    exc = e
            finally:
                mon.depth -= 1
            post = dict(env)
            post.update(old_env)
            post["result"] = result
            fname = q.split(":")[1]
            if exc is None:
                if selfv is not None and is_init:
                    selfv._verif_ghost = types.SimpleNamespace()
                    for g in (k["ghost_init"] if k else []):
                        mon.exec_ghost(g, post, pnames)
                for g in c["ghost_update"]:
                    mon.exec_ghost(g, post, pnames)
                for etype, spec in c["raises"].items():
                    if isinstance(spec, dict) and spec.get("iff") and spec.get("when"):
                        tg = tuple(spec["tags"].split(",")) if spec.get("tags") else dtags
                        mon.check("must-raise-" + etype, q, tg, "not (old(%s))" % spec["when"], post, pnames)
                for en in c["ensures"]:
                    tg, txt = parts(en, dtags)
                    mon.check("postcondition", q, tg, txt, post, pnames)
                if k is not None and not is_static and c.get("check_invariant", True):
                    for inv in k["invariant"]:
                        tg, txt = parts(inv, k.get("tags") or dtags)
                        mon.check("invariant", q, tg, txt, post, pnames)
                return result
            etype = type(exc).__name__
            spec = c["raises"].get(etype)
            if spec is None:
                if mon.wanted(c.get("exception_tags", dtags)):
                    mon.evaluations += 1
                    fl = ClauseFailure("exception", q, "no %s is raised" % etype, repr(exc))
                    mon.failures.append(fl)
                    if mon.raise_on_failure:
                        raise fl from exc
                raise exc
            if not isinstance(spec, dict):
                spec = {"when": spec}
            tg = tuple(spec["tags"].split(",")) if spec.get("tags") else dtags
            if spec.get("when"):
                mon.check("raises-only-when", q, tg, "old(%s)" % spec["when"], post, pnames)
            for en in spec.get("ensures", []):
                tg2, txt = parts(en, tg)
                mon.check("exceptional postcondition", q, tg2, txt, post, pnames)
            raise exc
        wrapper._verif_wrapped = True
        wrapper.__name__ = getattr(f, "__name__", fn)
        if is_static:
            return staticmethod(wrapper)
        return wrapper
