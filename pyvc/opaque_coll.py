"""Opaque collections for code whose *values* do not matter to the property being proved (LabelProbabilityInjector's
probability bookkeeping, C20): dicts / lists / sets of which only existence is modelled, and a **bag of row indices**
(`HBag`) of which exactly one thing is tracked: a predicate every member satisfies.

AnyDict / AnyList / AnySet: every read yields an arbitrary value of the right kind (fresh symbol), every write is
dropped.  This over-approximates the behaviours of the code (any concrete run is one choice of the fresh symbols), so
what is proved for all choices holds for the real values; nothing about those values themselves can be proved.
"""
import ast
import z3

from . import execu as X
from .sym import (T, tag, Unsupported, SOpt, Ref, SOpaque, HList, HSeq, INT, REAL, BOOL, z, b2i, is_z3, is_num, zbool,
                  AND, OR, NOT)
from .models import HOOKS, Models, OPAQUE_ATTRS
from . import arrays as _arrays
from . import mat2

ANY = ("AnyDict", "AnyList", "AnySet", "AnyVals", "AnyKeys")


def mk(it, sort, hint="any"):
    return SOpaque(sort, it.run.fresh(it.ctx.sort(sort), hint))


def any_len(it, v):
    t = it.ctx.uf("any_len_" + v.sort, it.ctx.sort(v.sort), INT)(v.t)
    it.ctx.fact(t >= 0, key=("anylen", t.sexpr()))
    return t


class HBag:
    """a list of row indices: ``member[v]`` for every value v in the list (and possibly more: an over-approximation)"""

    def __init__(self, member, length):
        self.member, self.length = member, length

    def clone(self):
        return HBag(self.member, self.length)

    def to_json(self, run, m, depth):
        return "<index bag>"


def _make(models, it, reg, ty, name, fresh):
    if ty.startswith("AnyDictOf["):
        # an opaque dict whose *values* have a known type (a cache of records, a dict of dicts): reads yield an arbitrary
        # value of that type, writes are dropped
        srt = it.ctx.sort("AnyDict")
        return SOpaque("AnyDict", it.run.fresh(srt, name) if fresh else z3.Const(name, srt), {"item": ty[10:-1]})
    if ty in ANY:
        srt = it.ctx.sort(ty)
        return SOpaque(ty, it.run.fresh(srt, name) if fresh else z3.Const(name, srt))
    if ty == "IdxBag":
        mem = it.run.fresh(z3.ArraySort(INT, BOOL), name + "!member")
        ln = it.run.fresh("Int", name + "!len")
        it.run.assume(ln >= 0)
        return it.run.alloc(HBag(mem, ln))
    return NotImplemented


HOOKS["make_symbolic"].insert(0, _make)


def _note(models, it):
    models.note(it, "opaque:dict / list / set whose values are irrelevant to the clause (reads are arbitrary values, writes dropped)")


def _dict_hook(models, it, v, node):
    if isinstance(v, SOpaque) and v.sort in ("AnyDict", "AnyItems"):
        _note(models, it)
        r = mk(it, "AnyDict", "dictcopy")
        r.meta.update({k: x for k, x in v.meta.items() if k == "item"})
        return r
    return NotImplemented


HOOKS["dict"].insert(0, _dict_hook)


def _list_hook(models, it, v, node):
    if isinstance(v, SOpaque) and v.sort in ("AnyKeys", "AnyVals", "AnyList", "AnySet"):
        return mk(it, "AnyList", "list")
    return NotImplemented


HOOKS["list"].insert(0, _list_hook)


def _sum_hook(models, it, v, node):
    if isinstance(v, SOpaque) and v.sort in ("AnyVals", "AnyList"):
        _note(models, it)
        return it.run.fresh("Real", "anysum")
    return NotImplemented


HOOKS["sum"].insert(0, _sum_hook)


def _len_hook(models, it, v, o, node):
    if isinstance(v, SOpaque) and v.sort in ANY:
        return any_len(it, v)
    if isinstance(o, HBag):
        return o.length
    return NotImplemented


HOOKS["len"].insert(0, _len_hook)


def _method(models, it, target, obj, name, args, kwargs, fr, node):
    if isinstance(target, SOpaque) and target.sort == "AnyDict":
        if name == "values":
            return mk(it, "AnyVals", "values")
        if name == "keys":
            return mk(it, "AnyKeys", "keys")
        if name == "items":
            r = mk(it, "AnyItems", "items")
            r.meta.update({k: x for k, x in target.meta.items() if k == "item"})
            return r
    if isinstance(target, SOpaque) and target.sort == "AnyList" and name in ("extend", "append"):
        _note(models, it)
        return None
    if isinstance(obj, HBag) and name == "extend":
        return _bag_extend(models, it, target, obj, args[0], node)
    return NotImplemented


HOOKS["method"].insert(0, _method)


def _bag_extend(models, it, ref, bag, what, node):
    if not isinstance(what, mat2.SIdx):
        raise Unsupported("index bag extended with %r" % (what,), node)
    k = z3.Int("i!bag")
    bag.member = z3.Lambda([k], z3.Or(bag.member[k], z3.And(k >= 0, k < what.n, what.pred[k])))
    bag.length = bag.length + mat2.mcount_fn(it.ctx)(what.pred, what.n)
    models.note(it, "model:list of row indices as a bag (tracks a predicate that holds for every member)")
    return None


_orig_list_method = Models.list_method


def _list_method(self, it, ref, o, name, args, kwargs, node):
    if name == "extend" and args and isinstance(args[0], mat2.SIdx):
        if o.items:
            raise Unsupported("extend of a non-empty concrete list with an index array", node)
        bag = HBag(z3.K(INT, z3.BoolVal(False)), z3.IntVal(0))
        it.run.heap[ref.oid] = bag          # the list object itself becomes a bag (aliases see it)
        return _bag_extend(self, it, ref, bag, args[0], node)
    if name == "extend" and args and isinstance(args[0], Ref) and isinstance(it.run.obj(args[0]), HSeq) \
            and is_z3(it.run.obj(args[0]).hi - it.run.obj(args[0]).lo) and not z3.is_int_value(z3.simplify(it.run.obj(args[0]).hi - it.run.obj(args[0]).lo)):
        raise Unsupported("extend of a concrete list with a sequence of symbolic length (declare the list opaque in the loop contract)", node)
    return _orig_list_method(self, it, ref, o, name, args, kwargs, node)


Models.list_method = _list_method


def _contains(self, it, container, item, node):
    if isinstance(container, SOpaque) and container.sort in ANY:
        return it.run.fresh("Bool", "anyin")
    return NotImplemented


_orig_contains = Models.contains_hook


def _contains_hook(self, it, container, item, node):
    r = _contains(self, it, container, item, node)
    if r is not NotImplemented:
        return r
    return _orig_contains(self, it, container, item, node)


Models.contains_hook = _contains_hook


def _getitem(models, it, base, idx, node):
    if isinstance(base, SOpaque) and base.sort == "AnyDict":
        if base.meta.get("item"):
            return it.ctx.reg.make_symbolic(it, base.meta["item"], "anyitem")
        return it.run.fresh("Real", "anyitem")
    return NotImplemented


HOOKS["getitem"].insert(0, _getitem)


def _setitem(models, it, base, idx, val, node):
    if isinstance(base, SOpaque) and base.sort == "AnyDict":
        return True
    return NotImplemented


HOOKS["setitem"].insert(0, _setitem)


def _binop(models, it, op, a, b, node):
    if isinstance(op, ast.Add):
        la = isinstance(a, SOpaque) and a.sort == "AnyList"
        lb = isinstance(b, SOpaque) and b.sort == "AnyList"
        if la or lb:
            return mk(it, "AnyList", "concat")
    return NotImplemented


HOOKS["binop"].insert(0, _binop)


def _closed_comprehension(it, e, fr):
    if len(e.generators) != 1 or e.generators[0].ifs:
        return False
    own = set()
    for n in ast.walk(e.generators[0].target):
        if isinstance(n, ast.Name):
            own.add(n.id)
    for n in ast.walk(e.elt):
        if isinstance(n, ast.Attribute) and "random" in n.attr:
            return False
        if isinstance(n, ast.Name) and isinstance(n.ctx, ast.Load) and n.id not in own:
            if "random" in n.id:
                return False
            f, found = fr, False
            while f is not None:
                if n.id in f.env:
                    found = True
                    break
                f = f.parent
            if found:
                return False            # a local / parameter: the result depends on more than the list
            mod = fr.module
            if mod is None or not (n.id in mod.imports or n.id in mod.functions or n.id in mod.classes):
                return False
    return True


def _comp(models, it, e, iterable, fr, kind):
    # a comprehension over an opaque list / with an opaque filter is an opaque list
    if kind == "list" and isinstance(iterable, SOpaque) and iterable.sort in ("AnyList", "AnyKeys", "AnyVals", "AnyDict"):
        if _closed_comprehension(it, e, fr):
            # the element expression mentions nothing but the comprehension's own variables and module-level library
            # functions (none of them random): the result is a deterministic function of the list
            f = it.ctx.uf("comp@%s:%d" % (fr.fi.qualname if fr.fi is not None else "?", e.lineno),
                          it.ctx.sort(iterable.sort), it.ctx.sort("AnyList"))
            return SOpaque("AnyList", f(iterable.t))
        return mk(it, "AnyList", "comp")
    if kind in ("list", "dict"):
        # a filter / element expression that consults an opaque collection: which elements survive is unknown
        for n in ast.walk(e):
            if isinstance(n, ast.Attribute) and isinstance(n.value, ast.Name):
                f = fr
                while f is not None and n.value.id not in f.env:
                    f = f.parent
                base = f.env[n.value.id] if f is not None else None
                if isinstance(base, Ref) and hasattr(it.run.obj(base), "fields"):
                    v = it.run.obj(base).fields.get(n.attr)
                    if isinstance(v, SOpaque) and v.sort in ANY:
                        _note(models, it)
                        return mk(it, "AnyDict" if kind == "dict" else "AnyList", "comp")
            if isinstance(n, ast.Name) and isinstance(n.ctx, ast.Load):
                f = fr
                while f is not None:
                    if n.id in f.env:
                        v = f.env[n.id]
                        if isinstance(v, SOpaque) and v.sort in ANY:
                            _note(models, it)
                            return mk(it, "AnyDict" if kind == "dict" else "AnyList", "comp")
                        break
                    f = f.parent
    return NotImplemented


HOOKS["comp"].insert(0, _comp)


def _iter_symbolic(models, it, iterable, node):
    if isinstance(iterable, SOpaque) and iterable.sort in ("AnyList", "AnyKeys", "AnyVals", "AnyDict"):
        n = any_len(it, iterable)
        return n, (lambda k: it.run.fresh("Real", "anyelem"))
    return NotImplemented


HOOKS["iter_symbolic"].insert(0, _iter_symbolic)


def _install():
    orig = Models.__init__

    def b_set(self, it, args, kw, fr, node, prev=None):
        v = args[0] if args else None
        if isinstance(v, SOpaque) and v.sort in ANY:
            return mk(it, "AnySet", "set")
        if isinstance(v, Ref) and isinstance(it.run.obj(v), HSeq):
            return mk(it, "AnySet", "set")
        return prev(self, it, args, kw, fr, node)

    def new_init(self):
        orig(self)
        prev = self.ext.get("builtins.set")
        self.ext["builtins.set"] = lambda s, it, args, kw, fr, node: b_set(s, it, args, kw, fr, node, prev)
        prev_sorted = self.ext.get("builtins.sorted")

        def b_sorted(s, it, args, kw, fr, node):
            if args and isinstance(args[0], SOpaque) and args[0].sort == "AnyItems":
                return args[0]          # the (key, value) pairs of an opaque dict in another order: still those pairs
            return prev_sorted(s, it, args, kw, fr, node)
        self.ext["builtins.sorted"] = b_sorted
    Models.__init__ = new_init


_install()


# np.unique of a vector: some sequence of values of unknown length (non-empty for a non-empty vector)
_prev_unique = _arrays.EXTRA_EXT.get("numpy.unique")


def _np_unique(models, it, args, kw, fr, node):
    o = mat2._nd_seq(it.run, args[0]) if args else None
    if o is not None and not kw:
        u = it.run.fresh("Int", "n_unique")
        it.run.assume(z3.And(u >= 0, u <= o.hi - o.lo, z3.Implies(o.hi - o.lo >= 1, u >= 1)))
        models.note(it, "opaque:np.unique(vector) (a sequence of arbitrary values, no longer than the vector)")
        return it.run.alloc(HSeq(it.run.fresh(z3.ArraySort(INT, REAL), "unique"), z3.IntVal(0), u, "Real", nd=True))
    return _prev_unique(models, it, args, kw, fr, node)


_arrays.EXTRA_EXT["numpy.unique"] = _np_unique


# np.random.choice(bag, size, replace, p): an arbitrary sequence of members of the bag
_prev_choice = _arrays.EXTRA_EXT.get("numpy.random.choice")


def _rand_choice(models, it, args, kw, fr, node):
    if args and isinstance(args[0], Ref) and isinstance(it.run.obj(args[0]), HBag):
        bag = it.run.obj(args[0])
        n = b2i(z(it.run.num(args[1], "sample size")))
        vals = it.run.fresh(z3.ArraySort(INT, INT), "choice")
        k = z3.Int("k!choice")
        it.run.assume(z3.ForAll([k], z3.Implies(z3.And(k >= 0, k < n), bag.member[vals[k]])))
        models.note(it, "havoc:np.random.choice(list, n, ...) is an arbitrary sequence of n members of the list")
        return mat2.SIdxSeq(vals, z3.If(n < 0, z3.IntVal(0), n))
    return _prev_choice(models, it, args, kw, fr, node)


_arrays.EXTRA_EXT["numpy.random.choice"] = _rand_choice


def _attr(models, it, base, obj, attr, node):
    if isinstance(base, mat2.SIdx) and attr == "shape":
        return (mat2.mcount_fn(it.ctx)(base.pred, base.n),)
    return NotImplemented


HOOKS["attr"].insert(0, _attr)


def _spec_bag_within(self, e, fr):
    """every member of the index list lies in [lo, hi) (True for a list that is still empty)"""
    v = self.ev(e.args[0], fr)
    lo, hi = b2i(z(self.ev(e.args[1], fr))), b2i(z(self.ev(e.args[2], fr)))
    if isinstance(v, Ref):
        o = self.run.obj(v)
        if isinstance(o, HList) and not o.items:
            return True
        if isinstance(o, HBag):
            self.run.fresh_n += 1
            k = z3.Int("k!bag%d" % self.run.fresh_n)
            return z3.ForAll([k], z3.Implies(o.member[k], z3.And(lo <= k, k < hi)))
    raise Unsupported("bag_within(%r)" % (v,))


X.Interp.spec_bag_within = _spec_bag_within


def _list_term(it, v, node):
    if isinstance(v, SOpaque) and v.sort in ("AnyList", "AnyVals"):
        return v.t
    raise Unsupported("statistic of a list that is not opaque", node)


def _norm_fit(models, it, args, kw, fr, node):
    t = _list_term(it, args[0], node)
    mu = it.ctx.uf("norm_fit_mu", t.sort(), REAL)(t)
    sd = it.ctx.uf("norm_fit_std", t.sort(), REAL)(t)
    it.ctx.fact(sd >= 0, key=("fitstd", sd.sexpr()))
    models.note(it, "axiom:scipy.stats.norm.fit(sample) == (mu(sample), std(sample)), std >= 0 (uninterpreted functions of the sample)")
    return (mu, sd)


def _np_quantile(models, it, args, kw, fr, node):
    t = _list_term(it, args[0], node)
    q = it.run.num(args[1] if len(args) > 1 else kw["q"])
    q = q if is_z3(q) else z3.RealVal(q)
    if q.sort() == INT:
        q = z3.ToReal(q)
    method = kw.get("method", kw.get("interpolation", "linear"))
    name = "np_quantile_%s" % (method if isinstance(method, str) else "m")
    f = it.ctx.uf(name, t.sort(), REAL, REAL)
    r = f(t, q)
    reg = it.ctx.__dict__.setdefault("quantile_args", {}).setdefault(name, [])
    for (t2, q2, r2) in reg:
        if t2.eq(t) and not q2.eq(q):
            it.ctx.fact(z3.And(z3.Implies(q2 <= q, r2 <= r), z3.Implies(q <= q2, r <= r2)), key=(name + "-mono", t.sexpr(), q.sexpr(), q2.sexpr()))
    if not any(t2.eq(t) and q2.eq(q) for (t2, q2, r2) in reg):
        reg.append((t, q, r))
    models.note(it, "axiom:numpy.quantile / percentile of a fixed sample is monotone (non-decreasing) in the level")
    return r


def _np_mean_std(which):
    def f(models, it, args, kw, fr, node):
        if args and isinstance(args[0], SOpaque) and args[0].sort in ("AnyList", "AnyVals"):
            t = args[0].t
            r = it.ctx.uf("np_%s_any" % which, t.sort(), REAL)(t)
            if which == "std":
                it.ctx.fact(r >= 0, key=("npstd", r.sexpr()))
            models.note(it, "axiom:numpy.%s of an opaque list is an uninterpreted function of it%s" % (which, " (>= 0)" if which == "std" else ""))
            return r
        prev = _PREV_MS.get(which)
        if prev is None:
            raise Unsupported("numpy.%s of %r" % (which, args), node)
        return prev(models, it, args, kw, fr, node)
    return f


_PREV_MS = {}


def _np_percentile(models, it, args, kw, fr, node):
    from .sym import arith
    q = it.run.num(args[1] if len(args) > 1 else kw["q"])
    kw2 = {k: v for k, v in kw.items() if k != "q"}
    return _np_quantile(models, it, [args[0], arith("/", q, 100)], kw2, fr, node)


def _np_dirichlet(models, it, args, kw, fr, node):
    models.note(it, "havoc:np.random.dirichlet (an arbitrary vector; only used as resampling weights)")
    return mk(it, "AnyList", "dirichlet")


_arrays.EXTRA_EXT["numpy.random.dirichlet"] = _np_dirichlet
_arrays.EXTRA_EXT["scipy.stats.norm.fit"] = _norm_fit
for _w in ("mean", "std"):
    _PREV_MS[_w] = _arrays.EXTRA_EXT.get("numpy." + _w)
    _arrays.EXTRA_EXT["numpy." + _w] = _np_mean_std(_w)
_prev_quantile = _arrays.EXTRA_EXT.get("numpy.quantile")
_arrays.EXTRA_EXT.setdefault("numpy.quantile", _np_quantile)
_arrays.EXTRA_EXT.setdefault("numpy.percentile", _np_percentile)


def _getitem_list(models, it, base, idx, node):
    if isinstance(base, SOpaque) and base.sort == "AnyList":
        return it.run.fresh("Real", "anyelem")
    return NotImplemented


HOOKS["getitem"].insert(0, _getitem_list)


def _minmax1(models, it, v, is_max, node):
    if isinstance(v, SOpaque) and v.sort in ("AnyList", "AnyVals"):
        return it.run.fresh("Real", "anymax")
    return NotImplemented


HOOKS["minmax1"].insert(0, _minmax1)


def _method_list(models, it, target, obj, name, args, kwargs, fr, node):
    if isinstance(target, SOpaque) and target.sort == "AnyList" and name == "index":
        k = it.run.fresh("Int", "anyindex")
        it.run.assume(k >= 0)
        return k
    return NotImplemented


HOOKS["method"].insert(0, _method_list)
