"""Content-level 2-D numpy arrays and DataFrames wrapping them (the drift injectors, C20).

A matrix is a heap object ``HMat(arr, n, d)`` with ``arr : Int -> (Int -> Real)`` (curried z3 arrays), so that slices,
fancy column lists, boolean masks, index arrays and their assignment forms are *exact* lambda-array updates and the
frame condition "every other cell is unchanged" is a first-order statement over cells.  A DataFrame is
``HFrame(mat, cols)``: a reference to its value matrix plus an opaque column-index term (labels are integer codes;
``get_loc`` is an uninterpreted function that is injective on present labels -- pandas unique column index, assumption
A-UNIQUE-COLS).

What numpy does and this model does not: negative column indices (obligation ``col-in-range`` demands 0 <= c < d),
broadcasting other than scalar-to-slice, dtype coercion on assignment (cells are reals; A-REAL).
"""
import ast
import z3

from . import execu as X
from .sym import (T, tag, Unsupported, SOpt, Ref, SOpaque, SArr1, HList, HSeq, HObj,
                  INT, REAL, BOOL, z, b2i, is_z3, is_num, zbool, AND, OR, NOT, to_real, cmp)
from .models import HOOKS, Models
from . import arrays as _arrays
from .seqs import _norm_bound

ROW = z3.ArraySort(INT, REAL)
MAT = z3.ArraySort(INT, ROW)
PRED = z3.ArraySort(INT, BOOL)
IDX = z3.ArraySort(INT, INT)


class HMat:
    def __init__(self, arr, n, d):
        self.arr, self.n, self.d = arr, n, d

    def clone(self):
        return HMat(self.arr, self.n, self.d)

    def deep_eq(self, it, other, ha, hb):
        if not isinstance(other, HMat):
            return False
        return AND(self.arr == other.arr, self.n == other.n, self.d == other.d)

    def to_json(self, run, m, depth):
        n, d = _mev(m, self.n), _mev(m, self.d)
        if not (isinstance(n, int) and isinstance(d, int) and 0 <= n <= 40 and 0 <= d <= 12):
            return {"matrix_shape": [str(n), str(d)]}
        return {"matrix": [[_mev(m, self.arr[z3.IntVal(i)][z3.IntVal(j)]) for j in range(d)] for i in range(n)],
                "rows": n, "width": d}


def _mev(m, t):
    r = m.eval(t, model_completion=True)
    if z3.is_int_value(r):
        return r.as_long()
    if z3.is_rational_value(r):
        return r.numerator_as_long() / r.denominator_as_long()
    if z3.is_algebraic_value(r):
        return float(r.approx(20).as_fraction())
    return str(r)


def _labels_json(run, m, cols, width):
    """column labels of a model frame: the labels the integer arguments resolve to sit at their get_loc position,
    every other position gets a distinct unused label"""
    ctx = run.ctx
    labels = {}
    has, loc = ctx.ufs.get("cols2_has"), ctx.ufs.get("cols2_loc")
    if has is not None and loc is not None:
        for v in getattr(run, "col_label_terms", []):
            if is_z3(v) and v.sort() == INT:
                c = _mev(m, v)
                if z3.is_true(m.eval(has(cols, v), model_completion=True)):
                    k = _mev(m, loc(cols, v))
                    if isinstance(k, int) and 0 <= k < width and k not in labels:
                        labels[k] = c
    used = set(labels.values())
    out = []
    nxt = 1000
    for k in range(width):
        if k in labels:
            out.append(labels[k])
            continue
        while nxt in used:
            nxt += 1
        used.add(nxt)
        out.append(nxt)
    return out


class HFrame:
    def __init__(self, mat, cols):
        self.mat, self.cols = mat, cols

    def clone(self):
        return HFrame(self.mat, self.cols)

    def to_json(self, run, m, depth):
        heap = run.old_state.heap if getattr(run, "old_state", None) is not None and self.mat.oid in run.old_state.heap else run.heap
        d = heap[self.mat.oid].to_json(run, m, depth)
        if isinstance(d, dict) and "matrix" in d:
            d["labels"] = _labels_json(run, m, self.cols, d["width"])
        return d


class SBoolVec:
    """boolean 1-D array of length n: pred[i]"""

    def __init__(self, pred, n):
        self.pred, self.n = pred, n


class SIdx:
    """ascending integer index array {i in [0, n): pred[i]} (np.where(...)[0] and its boolean-mask selections)"""

    def __init__(self, pred, n):
        self.pred, self.n = pred, n


class SIdxMask:
    """boolean mask over the elements of an index array: q[i] for the element whose value is i"""

    def __init__(self, owner, q):
        self.owner, self.q = owner, q


class SIdxSeq:
    """an integer array of row numbers of unknown content: vals[k], 0 <= k < n (np.random.choice result)"""

    def __init__(self, vals, n):
        self.vals, self.n = vals, n


def _mat_of(it, v, heap=None):
    """HMat behind an ndarray / DataFrame reference (None if v is neither)"""
    if isinstance(v, SOpt):
        v = v.val
    if not isinstance(v, Ref):
        return None
    heap = heap if heap is not None else it.run.heap
    o = heap[v.oid]
    if isinstance(o, HMat):
        return o
    if isinstance(o, HFrame):
        return heap[o.mat.oid]
    return None


def _frame_of(it, v):
    if isinstance(v, Ref):
        o = it.run.obj(v)
        if isinstance(o, HFrame):
            return o
    return None


def _fresh_name(it, base):
    it.run.fresh_n += 1
    return "%s%d" % (base, it.run.fresh_n)


def _rows_slice(o, sl):
    """normalised [s, e) and length of a row slice"""
    s = _norm_bound(sl[1], o.n, z3.IntVal(0))
    e = _norm_bound(sl[2], o.n, o.n)
    ln = z3.If(e - s < 0, z3.IntVal(0), e - s)
    return z3.simplify(s), z3.simplify(e), z3.simplify(ln)


def _col(it, o, c, node):
    c = b2i(z(it.run.num(c, "column index")))
    it.run.oblige("col-in-range@%s" % getattr(node, "lineno", "?"), z3.And(c >= 0, c < o.d), kind="safety",
                  where=getattr(node, "lineno", None))
    return c


def _int_list(it, v):
    if isinstance(v, Ref) and isinstance(it.run.obj(v), HList):
        items = it.run.obj(v).items
        if items and all(is_num(x) and not isinstance(x, float) for x in items):
            return items
    return None


def col_vector(it, o, s, ln, c):
    i = z3.Int("i!mcol")
    r = it.run.alloc(HSeq(z3.Lambda([i], o.arr[s + i][c]), z3.IntVal(0), ln, "Real", nd=True))
    if z3.is_const(o.arr) and z3.is_int_value(z3.simplify(z3.IntVal(0) + s)) and z3.simplify(z3.IntVal(0) + s).as_long() == 0:
        # a whole-height column of a matrix that is a plain array constant: remembered, so that its extremes can be written
        # as functions of (matrix, height, column index) without a lambda term (which would be open under a binder)
        it.run.obj(r).colof = (o.arr, ln, c)
    return r


# ------------------------------------------------------------------------------------------------- reads
def _getitem(models, it, base, idx, node):
    if isinstance(base, SIdx):
        if isinstance(idx, SIdxMask) and idx.owner is base:
            k = z3.Int("i!idx")
            return SIdx(z3.Lambda([k], z3.And(base.pred[k], idx.q[k])), base.n)
        raise Unsupported("subscript of an index array with %r" % (idx,), node)
    if tag(base) == "wheretuple":
        if idx == 0:
            return base[1]
        raise Unsupported("np.where(...)[%r]" % (idx,), node)
    o = _mat_of(it, base)
    if o is None or _frame_of(it, base) is not None:
        return NotImplemented
    models.note(it, "exact:2-D numpy indexing as lambda arrays over cells")
    if isinstance(idx, tuple) and not isinstance(idx, T) and len(idx) == 2:
        r, c = idx
        if isinstance(c, SOpt):
            c = it.run.unopt(c, "column index")
        if tag(r) == "slice":
            s, e, ln = _rows_slice(o, r)
            cl = _int_list(it, c)
            if cl is not None:
                cs = [_col(it, o, x, node) for x in cl]
                i, j = z3.Int("i!msub"), z3.Int("j!msub")
                body = o.arr[s + i][cs[-1]]
                for k in range(len(cs) - 2, -1, -1):
                    body = z3.If(j == k, o.arr[s + i][cs[k]], body)
                return it.run.alloc(HMat(z3.Lambda([i], z3.Lambda([j], body)), ln, z3.IntVal(len(cs))))
            if is_num(c):
                return col_vector(it, o, s, ln, _col(it, o, c, node))
        elif is_num(r) and is_num(c):
            ri = it.norm_index(r, o.n, node, "row")
            return o.arr[ri][_col(it, o, c, node)]
        raise Unsupported("2-D subscript %r" % (idx,), node)
    if isinstance(idx, SIdxSeq):
        i = z3.Int("i!mrows")
        k = z3.Int("k!q%d" % it.run.fresh_n)
        it.run.fresh_n += 1
        it.run.oblige("row-indices-in-range@%s" % getattr(node, "lineno", "?"),
                      z3.ForAll([k], z3.Implies(z3.And(k >= 0, k < idx.n), z3.And(idx.vals[k] >= 0, idx.vals[k] < o.n))),
                      kind="safety", where=getattr(node, "lineno", None))
        return it.run.alloc(HMat(z3.Lambda([i], o.arr[idx.vals[i]]), idx.n, o.d))
    raise Unsupported("subscript of a 2-D array with %r" % (idx,), node)


HOOKS["getitem"].insert(0, _getitem)


# ------------------------------------------------------------------------------------------------- writes
def _setitem(models, it, base, idx, val, node):
    o = _mat_of(it, base)
    if o is None or _frame_of(it, base) is not None:
        return NotImplemented
    models.note(it, "exact:2-D numpy assignment as lambda-array update (every other cell keeps its value)")
    i, j = z3.Int(_fresh_name(it, "i!mset")), z3.Int(_fresh_name(it, "j!mset"))
    if isinstance(idx, tuple) and not isinstance(idx, T) and len(idx) == 2:
        r, c = idx
        if tag(r) == "slice":
            s, e, ln = _rows_slice(o, r)
            inside = z3.And(i >= s, i < s + ln)
            cl = _int_list(it, c)
            if cl is not None:
                cs = [_col(it, o, x, node) for x in cl]
                src = _mat_of(it, val)
                if src is None:
                    raise Unsupported("fancy column assignment from %r" % (val,), node)
                it.run.oblige("assign-shape@%s" % getattr(node, "lineno", "?"),
                              z3.And(src.n == ln, src.d == len(cs)), kind="safety")
                body = o.arr[i][j]
                for k in range(len(cs)):           # later positions win (numpy assigns left to right)
                    body = z3.If(j == cs[k], src.arr[i - s][z3.IntVal(k)], body)
                o.arr = z3.Lambda([i], z3.Lambda([j], z3.If(inside, body, o.arr[i][j])))
                return True
            if is_num(c):
                cc = _col(it, o, c, node)
                if isinstance(val, Ref) and isinstance(it.run.obj(val), HSeq):
                    v = it.run.obj(val)
                    it.run.oblige("assign-length@%s" % getattr(node, "lineno", "?"), (v.hi - v.lo) == ln, kind="safety")
                    cell = _elem_real(v, v.lo + (i - s))
                else:
                    cell = to_real(it.run.num(val, "assigned value"))
                o.arr = z3.Lambda([i], z3.Lambda([j], z3.If(z3.And(inside, j == cc), cell, o.arr[i][j])))
                return True
        if isinstance(r, SIdx) and is_num(c):
            cc = _col(it, o, c, node)
            cell = to_real(it.run.num(val, "assigned value"))
            hit = z3.And(i >= 0, i < o.n, r.pred[i], j == cc)
            o.arr = z3.Lambda([i], z3.Lambda([j], z3.If(hit, cell, o.arr[i][j])))
            return True
    raise Unsupported("2-D subscript store %r" % (idx,), node)


def _elem_real(v, k):
    t = v.arr[k]
    return z3.ToReal(t) if t.sort() == INT else t


HOOKS["setitem"].insert(0, _setitem)


def _setslice(models, it, base, lo, hi, val, node):
    o = _mat_of(it, base)
    if o is None or _frame_of(it, base) is not None:
        return NotImplemented
    src = _mat_of(it, val)
    if src is None:
        raise Unsupported("row-slice assignment from %r" % (val,), node)
    s, e, ln = _rows_slice(o, ("slice", lo, hi))
    it.run.oblige("assign-shape@%s" % getattr(node, "lineno", "?"), z3.And(src.n == ln, src.d == o.d), kind="safety")
    i = z3.Int(_fresh_name(it, "i!mset"))
    o.arr = z3.Lambda([i], z3.If(z3.And(i >= s, i < s + ln), src.arr[i - s], o.arr[i]))
    return True


HOOKS["setslice"].insert(0, _setslice)


# ------------------------------------------------------------------------------------------------- comparisons, masks
_orig_eq = X.Run.eq


def _nd_seq(run, v):
    if isinstance(v, Ref):
        o = run.obj(v)
        if isinstance(o, HSeq) and o.nd:
            return o
    return None


def _elementwise(run, sop, a, b):
    """comparison of a 1-D numpy vector / an index array with a scalar"""
    if isinstance(a, SOpt) and (_nd_seq(run, b) is not None or isinstance(b, SIdx)):
        a = run.unopt(a, "comparand")
    if isinstance(b, SOpt) and (_nd_seq(run, a) is not None or isinstance(a, SIdx)):
        b = run.unopt(b, "comparand")
    oa, ob = _nd_seq(run, a), _nd_seq(run, b)
    if (oa is None) == (ob is None) and not isinstance(a, SIdx) and not isinstance(b, SIdx):
        return NotImplemented
    if isinstance(a, SIdx) or isinstance(b, SIdx):
        own, sc, flip = (a, b, False) if isinstance(a, SIdx) else (b, a, True)
        if not is_num(sc):
            return NotImplemented
        k = z3.Int("i!idxm")
        t = cmp(sop, sc, k) if flip else cmp(sop, k, sc)
        return SIdxMask(own, z3.Lambda([k], zbool(t)))
    vec, sc, flip = (oa, b, False) if oa is not None else (ob, a, True)
    if not is_num(sc):
        return NotImplemented
    k = z3.Int("i!bvec")
    e = _elem_real(vec, vec.lo + k)
    t = cmp(sop, sc, e) if flip else cmp(sop, e, sc)
    return SBoolVec(z3.Lambda([k], zbool(t)), z3.simplify(vec.hi - vec.lo))


def _eq(self, a, b):
    r = _elementwise(self, "==", a, b)
    if r is not NotImplemented:
        return r
    return _orig_eq(self, a, b)


X.Run.eq = _eq


def _cmp_hook(models, it, sop, a, b, node):
    return _elementwise(it.run, sop, a, b)


HOOKS["cmp"].insert(0, _cmp_hook)


def _binop(models, it, op, a, b, node):
    if isinstance(a, SBoolVec) and isinstance(b, SBoolVec) and isinstance(op, (ast.BitOr, ast.BitAnd)):
        it.run.oblige("mask-lengths@%s" % getattr(node, "lineno", "?"), a.n == b.n, kind="safety")
        k = z3.Int("i!bvec")
        f = z3.Or if isinstance(op, ast.BitOr) else z3.And
        return SBoolVec(z3.Lambda([k], f(a.pred[k], b.pred[k])), a.n)
    if isinstance(a, SIdxMask) and isinstance(b, SIdxMask) and isinstance(op, (ast.BitOr, ast.BitAnd)):
        if a.owner is not b.owner:
            raise Unsupported("masks over different index arrays", node)
        k = z3.Int("i!idxm")
        f = z3.Or if isinstance(op, ast.BitOr) else z3.And
        return SIdxMask(a.owner, z3.Lambda([k], f(a.q[k], b.q[k])))
    return NotImplemented


HOOKS["binop"].insert(0, _binop)


# ------------------------------------------------------------------------------------------------- library functions
def _np_where(models, it, args, kw, fr, node):
    if len(args) == 1 and isinstance(args[0], SBoolVec):
        models.note(it, "exact:np.where(mask)[0] as the ascending index set of the mask")
        return T(("wheretuple", SIdx(args[0].pred, args[0].n)))
    raise Unsupported("np.where(%r)" % (args,), node)


def _np_copy(models, it, args, kw, fr, node):
    o = _mat_of(it, args[0])
    if o is None:
        raise Unsupported("np.copy(%r)" % (args[0],), node)
    models.note(it, "exact:np.copy of a 2-D array / DataFrame gives a fresh array of the same cells")
    return it.run.alloc(HMat(o.arr, o.n, o.d))


def _np_add(models, it, args, kw, fr, node):
    return it.binop(ast.Add(), args[0], args[1], node)


def _pd_dataframe(models, it, args, kw, fr, node):
    if args and isinstance(args[0], _arrays.SNd):
        from .libmodels import _pd_dataframe_nd      # a validated batch: opaque frame (HistogramDensityMethod skeleton)
        return _pd_dataframe_nd(models, it, args, kw, fr, node)
    o = _mat_of(it, args[0]) if args else None
    cols = kw.get("columns")
    if isinstance(cols, SOpt):
        cols = it.run.unopt(cols, "columns")
    if o is None or _frame_of(it, args[0]) is not None or not (isinstance(cols, SOpaque) and cols.sort == "Cols2"):
        raise Unsupported("pd.DataFrame(%r, columns=%r)" % (args, cols), node)
    models.note(it, "model:pd.DataFrame(ndarray, columns=index) wraps the array's cells under the given labels")
    it.run.oblige("frame-width@%s" % getattr(node, "lineno", "?"), ncols_fn(it)(cols.t) == o.d, kind="safety")
    return it.run.alloc(HFrame(args[0], cols.t))


def _rand_choice(models, it, args, kw, fr, node):
    items = None
    if args and isinstance(args[0], Ref) and isinstance(it.run.obj(args[0]), HList):
        items = it.run.obj(args[0]).items
    if items and len(args) == 1 and not kw and all(isinstance(x, int) for x in items):
        v = it.run.fresh("Int", "choice")
        it.run.assume(z3.Or(*[v == x for x in items]))
        models.note(it, "havoc:np.random.choice(list) is an arbitrary member of the list")
        return v
    raise Unsupported("np.random.choice(%r)" % (args,), node)


def _rand_seed(models, it, args, kw, fr, node):
    models.note(it, "havoc:np.random.seed (random draws are arbitrary values of their range)")
    return None


_arrays.EXTRA_EXT["numpy.where"] = _np_where
_arrays.EXTRA_EXT["numpy.copy"] = _np_copy
_arrays.EXTRA_EXT["numpy.add"] = _np_add
_arrays.EXTRA_EXT["pandas.DataFrame"] = _pd_dataframe
_arrays.EXTRA_EXT["numpy.random.choice"] = _rand_choice
_arrays.EXTRA_EXT["numpy.random.seed"] = _rand_seed


def ncols_fn(it):
    return it.ctx.uf("cols2_len", it.ctx.sort("Cols2"), INT)


def col_loc(it, cols, c):
    return it.ctx.uf("cols2_loc", it.ctx.sort("Cols2"), INT, INT)(cols, c)


def has_col(it, cols, c):
    return it.ctx.uf("cols2_has", it.ctx.sort("Cols2"), INT, BOOL)(cols, c)


def label_at(it, cols, k):
    return it.ctx.uf("cols2_label", it.ctx.sort("Cols2"), INT, INT)(cols, k)


def loc_facts(it, cols, c):
    loc = col_loc(it, cols, c)
    it.ctx.fact(z3.Implies(has_col(it, cols, c), z3.And(loc >= 0, loc < ncols_fn(it)(cols), label_at(it, cols, loc) == c)),
                key=("cols2-loc", cols.sexpr(), c.sexpr()))
    return loc


def _attr(models, it, base, obj, attr, node):
    f = _frame_of(it, base)
    if f is not None:
        if attr == "columns":
            return SOpaque("Cols2", f.cols)
        if attr == "to_numpy":
            return X.SFunc("objmethod", target=base, name=attr)
        raise Unsupported("DataFrame.%s" % attr, node)
    return NotImplemented


HOOKS["attr"].insert(0, _attr)


def _method(models, it, target, obj, name, args, kwargs, fr, node):
    if isinstance(target, SOpaque) and target.sort == "Cols2" and name == "get_loc":
        c = b2i(z(it.run.num(args[0], "column label")))
        it.run.__dict__.setdefault("col_label_terms", []).append(c)
        if not it.run.branch(has_col(it, target.t, c)):
            raise X.PyRaise("KeyError", "column label not in the frame")
        models.note(it, "axiom:Index.get_loc is injective on present labels and within [0, width) (A-UNIQUE-COLS)")
        return loc_facts(it, target.t, c)
    if isinstance(target, Ref) and _frame_of(it, target) is not None and name == "to_numpy":
        models.note(it, "model:DataFrame.to_numpy returns the value matrix")
        return _frame_of(it, target).mat
    return NotImplemented


HOOKS["method"].insert(0, _method)


def _isinstance(models, it, v, c, node):
    if isinstance(c, X.SMod) and isinstance(v, Ref):
        nm = c.dotted.split(".")[-1]
        o = it.run.obj(v)
        if isinstance(o, (HMat, HFrame)) and nm in ("DataFrame", "ndarray"):
            return isinstance(o, HFrame) == (nm == "DataFrame")
    return NotImplemented


HOOKS["isinstance"].insert(0, _isinstance)


def _make(models, it, reg, ty, name, fresh):
    if ty not in ("Data2", "Nd2c", "Frame2"):
        return NotImplemented
    mk = (lambda s, n: it.run.fresh(s, n)) if fresh else (lambda s, n: z3.Const(n, s))
    arr = mk(MAT, name + "!cells")
    n = mk(INT, name + "!rows")
    d = mk(INT, name + "!width")
    it.run.assume(z3.And(n >= 0, d >= 1))
    it.run.__dict__.setdefault("size_terms", []).extend([n, d])
    mat = it.run.alloc(HMat(arr, n, d))
    if ty == "Nd2c":
        return mat
    cols = mk(it.ctx.sort("Cols2"), name + "!columns")
    it.run.assume(ncols_fn(it)(cols) == d)
    if ty == "Data2":
        isdf = mk(BOOL, name + "!is_frame")
        if not it.run.branch(isdf):
            return mat
    return it.run.alloc(HFrame(mat, cols))


HOOKS["make_symbolic"].insert(0, _make)


# ------------------------------------------------------------------------------------------------- spec vocabulary
def _spec_cell(self, e, fr):
    o = _mat_of(self, self.ev(e.args[0], fr))
    return o.arr[b2i(z(self.ev(e.args[1], fr)))][b2i(z(self.ev(e.args[2], fr)))]


def _spec_mrows(self, e, fr):
    return _mat_of(self, self.ev(e.args[0], fr)).n


def _spec_mcols(self, e, fr):
    return _mat_of(self, self.ev(e.args[0], fr)).d


def _spec_is_frame(self, e, fr):
    v = self.ev(e.args[0], fr)
    if _mat_of(self, v) is None:
        raise X.PyRaise("TypeError", "not a 2-D container")
    return _frame_of(self, v) is not None


def _spec_same_container(self, e, fr):
    """same container type, shape and column labels"""
    a, b = self.ev(e.args[0], fr), self.ev(e.args[1], fr)
    ma, mb = _mat_of(self, a), _mat_of(self, b)
    if ma is None or mb is None:
        return False
    fa, fb = _frame_of(self, a), _frame_of(self, b)
    if (fa is None) != (fb is None):
        return False
    r = AND(ma.n == mb.n, ma.d == mb.d)
    if fa is not None:
        r = AND(r, fa.cols == fb.cols)
    return r


def _spec_colidx(self, e, fr):
    """integer position of the column the caller named (position for arrays, label for frames)"""
    v = self.ev(e.args[0], fr)
    c = b2i(z(self.ev(e.args[1], fr)))
    f = _frame_of(self, v)
    if f is None:
        return c
    return loc_facts(self, f.cols, c)


def _spec_valid_col(self, e, fr):
    v = self.ev(e.args[0], fr)
    c = b2i(z(self.ev(e.args[1], fr)))
    f = _frame_of(self, v)
    o = _mat_of(self, v)
    if f is None:
        return AND(c >= 0, c < o.d)
    return has_col(self, f.cols, c)


def _spec_mcol(self, e, fr):
    """the vector data[a:b, c] (same term the code's slice read produces)"""
    o = _mat_of(self, self.ev(e.args[0], fr))
    s, en, ln = _rows_slice(o, ("slice", self.ev(e.args[1], fr), self.ev(e.args[2], fr)))
    return col_vector(self, o, s, ln, b2i(z(self.ev(e.args[3], fr))))


def _spec_shares_cells(self, e, fr):
    """the two containers are the same object or are backed by the same cell storage (ndarray / frame values)"""
    a, b = self.ev(e.args[0], fr), self.ev(e.args[1], fr)
    if not (isinstance(a, Ref) and isinstance(b, Ref)):
        raise X.PyRaise("TypeError", "not containers")
    if a.oid == b.oid:
        return True
    fa, fb = _frame_of(self, a), _frame_of(self, b)
    ma = fa.mat.oid if fa is not None else a.oid
    mb = fb.mat.oid if fb is not None else b.oid
    return ma == mb


X.Interp.spec_shares_cells = _spec_shares_cells


for _n, _f in (("cell", _spec_cell), ("mrows", _spec_mrows), ("mcols", _spec_mcols), ("is_frame", _spec_is_frame),
               ("same_container", _spec_same_container), ("colidx", _spec_colidx), ("valid_col", _spec_valid_col),
               ("mcol", _spec_mcol)):
    setattr(X.Interp, "spec_" + _n, _f)


def _cols2_json(run, m, v, ev):
    f = run.ctx.ufs.get("cols2_len")
    w = _mev(m, f(v.t)) if f is not None else 1
    if not isinstance(w, int) or not (0 <= w <= 12):
        w = 1
    return {"opaque": "Cols2", "meta": {"labels": _labels_json(run, m, v.t, w)}}


from . import vcgen as _vcgen  # noqa: E402
_vcgen.OPAQUE_JSON["Cols2"] = _cols2_json


# ------------------------------------------------------------------------------------------------- shapes, mask selection
from .models import GLOBAL_REC  # noqa: E402


def mcount_fn(ctx):
    """number of True entries among mask[0..n): recursive function (lemmas mcount_range / _complement / _pos are proved
    in contracts/partitioners.py and instantiated automatically where a mask selects rows)"""
    key = "rec!mcount"
    if key in GLOBAL_REC:
        ctx.ufs[key] = GLOBAL_REC[key]
    if key not in ctx.ufs:
        f = z3.RecFunction("mcount", PRED, INT, INT)
        p = z3.Const("mcount!p", PRED)
        n = z3.Int("mcount!n")
        z3.RecAddDefinition(f, [p, n], z3.If(n <= 0, z3.IntVal(0), f(p, n - 1) + z3.If(p[n - 1], z3.IntVal(1), z3.IntVal(0))))
        GLOBAL_REC[key] = f
        ctx.ufs[key] = f
    return ctx.ufs[key]


def _select_rows(models, it, base_ref, o, mask, node):
    run = it.run
    run.oblige("mask-length@%s" % getattr(node, "lineno", "?"), mask.n == o.n, kind="safety")
    f = mcount_fn(it.ctx)
    c = f(mask.pred, o.n)
    k = z3.Int("k!mc")
    it.ctx.fact(z3.And(c >= 0, c <= o.n), key=("mcount-range", c.sexpr()))
    it.ctx.fact(z3.ForAll([k], z3.Implies(z3.And(k >= 0, k < o.n, mask.pred[k]), c >= 1)), key=("mcount-pos", c.sexpr()))
    run.assumed.extend(["lemma:mcount_range", "lemma:mcount_pos"])
    sels = run.__dict__.setdefault("mask_selections", [])
    for (oid, n_, pred_, c_) in sels:
        if oid == base_ref.oid and z3.eq(n_, o.n):
            it.ctx.fact(z3.Implies(z3.ForAll([k], z3.Implies(z3.And(k >= 0, k < o.n), pred_[k] != mask.pred[k])), c_ + c == o.n),
                        key=("mcount-compl", c_.sexpr(), c.sexpr()))
            run.assumed.append("lemma:mcount_complement")
    sels.append((base_ref.oid, o.n, mask.pred, c))
    models.note(it, "model:boolean-mask row selection (row count = mcount(mask); the selected rows' cells are not tracked)")
    arr = run.fresh(MAT, "selected")
    return run.alloc(HMat(arr, c, o.d))


def _getitem_mask(models, it, base, idx, node):
    if isinstance(idx, SBoolVec) and isinstance(base, Ref):
        o = _mat_of(it, base)
        if o is not None and _frame_of(it, base) is None:
            return _select_rows(models, it, base, o, idx, node)
    return NotImplemented


HOOKS["getitem"].insert(0, _getitem_mask)


def _attr_shape(models, it, base, obj, attr, node):
    if isinstance(obj, HMat) and attr == "shape":
        return (obj.n, obj.d)
    return NotImplemented


HOOKS["attr"].insert(0, _attr_shape)


def _spec_mcount(self, e, fr):
    from .seqs import _hseq
    o = _hseq(self, self.ev(e.args[0], fr))
    n = b2i(z(self.ev(e.args[1], fr)))
    k = z3.Int("i!mcs")
    pred = o.arr if (o.lo is not None and z3.is_int_value(z3.simplify(o.lo)) and z3.simplify(o.lo).as_long() == 0) else \
        z3.Lambda([k], o.arr[o.lo + k])
    return mcount_fn(self.ctx)(pred, n)


X.Interp.spec_mcount = _spec_mcount


# ------------------------------------------------------------------------------------------------- min / max / ptp / unique
def _extreme(it, name, seq):
    """np.min / np.max of a 1-D vector: a value bounding every element and attained at some index (n >= 1)"""
    ctx = it.ctx
    colof = getattr(seq, "colof", None)
    if colof is not None and z3.is_int_value(z3.simplify(seq.lo)) and z3.simplify(seq.lo).as_long() == 0 and \
            z3.simplify(seq.hi - seq.lo).eq(z3.simplify(colof[1])):
        m2, n, c = colof
        n = z3.simplify(n)
        f = ctx.uf("col_" + name, m2.sort(), INT, INT, REAL)
        at = ctx.uf("col_" + name + "_at", m2.sort(), INT, INT, INT)
        v, w = f(m2, n, c), at(m2, n, c)
        k, cc = z3.Int("k!ext"), z3.Int("c!ext")
        # stated for every column at once (the column index may be a bound variable of a clause or of a comprehension)
        vv, ww = f(m2, n, cc), at(m2, n, cc)
        bound = (vv <= m2[k][cc]) if name == "min" else (vv >= m2[k][cc])
        ctx.fact(z3.ForAll([cc, k], z3.Implies(z3.And(k >= 0, k < n), bound)),
                 key=("col-" + name, m2.sexpr(), n.sexpr()))
        ctx.fact(z3.ForAll([cc], z3.Implies(n >= 1, z3.And(ww >= 0, ww < n, m2[ww][cc] == vv))),
                 key=("col-" + name + "-at", m2.sexpr(), n.sexpr()))
        it.ctx.models.note(it, "axiom:np.min / np.max / np.ptp of a vector (bounds every element, attained at some index)")
        return v
    i = z3.Int("i!ext")
    arr = seq.arr if z3.is_int_value(z3.simplify(seq.lo)) and z3.simplify(seq.lo).as_long() == 0 else \
        z3.Lambda([i], seq.arr[seq.lo + i])
    if arr.sort().range() == INT:
        arr = z3.Lambda([i], z3.ToReal(arr[i]))
    n = z3.simplify(seq.hi - seq.lo)
    f = ctx.uf("vec_" + name, ROW, INT, REAL)
    at = ctx.uf("vec_" + name + "_at", ROW, INT, INT)
    v, w = f(arr, n), at(arr, n)
    k = z3.Int("k!ext")
    bound = (v <= arr[k]) if name == "min" else (v >= arr[k])
    ctx.fact(z3.ForAll([k], z3.Implies(z3.And(k >= 0, k < n), bound)), key=("vec-" + name, v.sexpr()))
    ctx.fact(z3.Implies(n >= 1, z3.And(w >= 0, w < n, arr[w] == v)), key=("vec-" + name + "-at", v.sexpr()))
    it.ctx.models.note(it, "axiom:np.min / np.max / np.ptp of a vector (bounds every element, attained at some index)")
    return v


def _np_min(models, it, args, kw, fr, node):
    o = _nd_seq(it.run, args[0]) if args else None
    if o is None or kw:
        raise Unsupported("np.min(%r)" % (args,), node)
    it.run.oblige("min-of-nonempty@%s" % getattr(node, "lineno", "?"), o.hi - o.lo >= 1, kind="safety")
    return _extreme(it, "min", o)


def _np_max(models, it, args, kw, fr, node):
    o = _nd_seq(it.run, args[0]) if args else None
    if o is None or kw:
        raise Unsupported("np.max(%r)" % (args,), node)
    it.run.oblige("max-of-nonempty@%s" % getattr(node, "lineno", "?"), o.hi - o.lo >= 1, kind="safety")
    return _extreme(it, "max", o)


def _np_ptp(models, it, args, kw, fr, node):
    o = _nd_seq(it.run, args[0]) if args else None
    if o is None or kw:
        raise Unsupported("np.ptp(%r)" % (args,), node)
    it.run.oblige("ptp-of-nonempty@%s" % getattr(node, "lineno", "?"), o.hi - o.lo >= 1, kind="safety")
    return _extreme(it, "max", o) - _extreme(it, "min", o)


def _np_unique(models, it, args, kw, fr, node):
    o = _mat_of(it, args[0]) if args else None
    if o is None or kw:
        raise Unsupported("np.unique(%r)" % (args,), node)
    u = it.run.fresh("Int", "n_unique")
    it.run.assume(z3.And(u >= 0, z3.Implies(z3.And(o.n >= 1, o.d >= 1), u >= 1)))
    models.note(it, "opaque:np.unique(data).size (some count, >= 1 for non-empty data)")
    return SOpaque("Uniq", None, {"size": u})


from .models import OPAQUE_ATTRS  # noqa: E402
OPAQUE_ATTRS[("Uniq", "size")] = lambda models, it, base, node: base.meta["size"]
_arrays.EXTRA_EXT["numpy.min"] = _np_min
_arrays.EXTRA_EXT["numpy.max"] = _np_max
_arrays.EXTRA_EXT["numpy.ptp"] = _np_ptp
_arrays.EXTRA_EXT["numpy.unique"] = _np_unique


def _spec_colmin(self, e, fr):
    o = _mat_of(self, self.ev(e.args[0], fr))
    c = b2i(z(self.ev(e.args[1], fr)))
    return _extreme(self, "min", self.run.obj(col_vector(self, o, z3.IntVal(0), o.n, c)))


def _spec_colmax(self, e, fr):
    o = _mat_of(self, self.ev(e.args[0], fr))
    c = b2i(z(self.ev(e.args[1], fr)))
    return _extreme(self, "max", self.run.obj(col_vector(self, o, z3.IntVal(0), o.n, c)))


X.Interp.spec_colmin = _spec_colmin
X.Interp.spec_colmax = _spec_colmax


def _anylist_method(models, it, target, obj, name, args, kwargs, fr, node):
    if isinstance(target, SOpaque) and target.sort == "AnyList" and name == "append":
        models.note(it, "opaque:append to a caller-owned list whose content is not tracked")
        return None
    return NotImplemented


HOOKS["method"].insert(0, _anylist_method)
