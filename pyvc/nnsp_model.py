"""Content-level numpy models for menelaus.partitioners.NNSpacePartitioner:NNSpacePartitioner.build (C10): which points
of the pooled sample the two membership vectors mark.

np.vstack((A, B))                    exact: the rows of A followed by the rows of B
np.unique(M, axis=0, return_inverse=True) -> (D, inv)
                                     axioms (numpy's documented contract): 0 <= inv[i] < rows(D); D[inv[i]] == M[i] row by
                                     row; the rows of D are pairwise distinct; every row of D is hit by some inv[i]
np.ravel(v), np.split(v, [k])        exact on 1-D vectors (views [0, k) and [k, n))
vec[idx] = c  (idx a 1-D index vector)   exact: vec[u] becomes c exactly for the u that occur in idx
Everything after the membership vectors (nearest neighbours, the NNPS matrix) is abstracted by the contract.
"""
import z3

from .sym import (T, tag, Unsupported, SOpt, Ref, SOpaque, HSeq, INT, REAL, BOOL, is_z3, is_num, z, b2i)
from . import execu as X
from . import arrays as A
from .models import HOOKS, Models
from . import mat2
from .mat2 import HMat, _mat_of


def _fresh(it, hint):
    it.run.fresh_n += 1
    return "%s%d" % (hint, it.run.fresh_n)


_prev_vstack = A.EXTRA_EXT.get("numpy.vstack")


def _np_vstack(models, it, args, kw, fr, node):
    parts = it.iter_concrete(args[0], node) if args else []
    mats = [_mat_of(it, p) for p in parts]
    if len(mats) == 2 and all(m is not None for m in mats):
        a, b = mats
        it.run.oblige("vstack-widths@%s" % getattr(node, "lineno", "?"), a.d == b.d, kind="safety")
        i, j = z3.Int(_fresh(it, "i!vst")), z3.Int(_fresh(it, "j!vst"))
        arr = z3.Lambda([i], z3.Lambda([j], z3.If(i < a.n, a.arr[i][j], b.arr[i - a.n][j])))
        models.note(it, "exact:np.vstack of two 2-D arrays (rows of the first followed by rows of the second)")
        return it.run.alloc(HMat(arr, z3.simplify(a.n + b.n), a.d))
    return _prev_vstack(models, it, args, kw, fr, node)


A.EXTRA_EXT["numpy.vstack"] = _np_vstack
_prev_unique = A.EXTRA_EXT.get("numpy.unique")


def _np_unique(models, it, args, kw, fr, node):
    m = _mat_of(it, args[0]) if args else None
    if m is not None and kw.get("axis") == 0 and kw.get("return_inverse") is True and len(kw) == 2:
        run, ctx = it.run, it.ctx
        nD = run.fresh("Int", "uniq!rows")
        D = run.fresh(z3.ArraySort(INT, z3.ArraySort(INT, REAL)), "uniq!D")
        inv = run.fresh(z3.ArraySort(INT, INT), "uniq!inv")
        i, j, u, w = z3.Ints("i!uq j!uq u!uq w!uq")
        run.assume(z3.And(nD >= 0, z3.Implies(m.n >= 1, nD >= 1), nD <= m.n))
        # inverse indices are in range and reconstruct the input row by row
        run.assume(z3.ForAll([i], z3.Implies(z3.And(i >= 0, i < m.n), z3.And(inv[i] >= 0, inv[i] < nD))))
        run.assume(z3.ForAll([i, j], z3.Implies(z3.And(i >= 0, i < m.n, j >= 0, j < m.d), D[inv[i]][j] == m.arr[i][j])))
        # the unique rows are pairwise distinct (they differ in some column) ...
        col = ctx.uf("uniq_diffcol", z3.ArraySort(INT, z3.ArraySort(INT, REAL)), INT, INT, INT)
        run.assume(z3.ForAll([u, w], z3.Implies(z3.And(u >= 0, u < nD, w >= 0, w < nD, u != w),
                                                z3.And(col(D, u, w) >= 0, col(D, u, w) < m.d,
                                                       D[u][col(D, u, w)] != D[w][col(D, u, w)]))))
        # ... and each of them is the image of some input row
        src = ctx.uf("uniq_source", z3.ArraySort(INT, INT), INT, INT)
        run.assume(z3.ForAll([u], z3.Implies(z3.And(u >= 0, u < nD), z3.And(src(inv, u) >= 0, src(inv, u) < m.n,
                                                                             inv[src(inv, u)] == u))))
        models.note(it, "axiom:np.unique(M, axis=0, return_inverse=True): inverse indices in range, D[inv[i]] == M[i], rows of D "
                        "pairwise distinct, every row of D is the image of an input row")
        Dv = run.alloc(HMat(D, nD, m.d))
        invv = run.alloc(HSeq(inv, z3.IntVal(0), m.n, "Int", nd=True))
        return (Dv, invv)
    return _prev_unique(models, it, args, kw, fr, node)


A.EXTRA_EXT["numpy.unique"] = _np_unique


def _np_ravel(models, it, args, kw, fr, node):
    o = mat2._nd_seq(it.run, args[0]) if args else None
    if o is None:
        raise Unsupported("np.ravel(%r)" % (args,), node)
    return it.run.alloc(HSeq(o.arr, o.lo, o.hi, o.elem, nd=True))


def _np_split(models, it, args, kw, fr, node):
    o = mat2._nd_seq(it.run, args[0]) if args else None
    cuts = it.iter_concrete(args[1], node) if len(args) > 1 and isinstance(args[1], Ref) else None
    if o is None or cuts is None or len(cuts) != 1:
        raise Unsupported("np.split(%r)" % (args,), node)
    k = b2i(z(cuts[0]))
    n = o.hi - o.lo
    kk = z3.If(k < 0, z3.IntVal(0), z3.If(k > n, n, k))
    models.note(it, "exact:np.split of a 1-D vector at one cut point (two views)")
    a = it.run.alloc(HSeq(o.arr, o.lo, z3.simplify(o.lo + kk), o.elem, nd=True))
    b = it.run.alloc(HSeq(o.arr, z3.simplify(o.lo + kk), o.hi, o.elem, nd=True))
    return it.run.alloc(X.HList([a, b]))


A.EXTRA_EXT["numpy.ravel"] = _np_ravel
A.EXTRA_EXT["numpy.split"] = _np_split


def _setitem(models, it, base, idx, val, node):
    """vec[index vector] = scalar"""
    vo = mat2._nd_seq(it.run, base)
    io = mat2._nd_seq(it.run, idx) if isinstance(idx, Ref) else None
    if vo is None or io is None or io.elem != "Int" or not is_num(val):
        return NotImplemented
    u, i = z3.Int(_fresh(it, "u!fset")), z3.Int(_fresh(it, "i!fset"))
    n = vo.hi - vo.lo
    # numpy raises IndexError for an index outside [-n, n); negative indices are not produced by np.unique
    it.run.oblige("fancy-index-in-range@%s" % getattr(node, "lineno", "?"),
                  z3.ForAll([i], z3.Implies(z3.And(i >= io.lo, i < io.hi), z3.And(io.arr[i] >= 0, io.arr[i] < n))), kind="safety")
    t = it.elem_term(val, vo.elem)
    hit = z3.Exists([i], z3.And(i >= io.lo, i < io.hi, vo.lo + io.arr[i] == u))
    vo.arr = z3.Lambda([u], z3.If(hit, t, vo.arr[u]))
    models.note(it, "exact:vector[index vector] = scalar (exactly the indexed positions change)")
    return True


HOOKS["setitem"].insert(0, _setitem)


def _len(models, it, v, o, node):
    if isinstance(o, HMat):
        return o.n
    return NotImplemented


HOOKS["len"].insert(0, _len)


def _np_array_split(models, it, args, kw, fr, node):
    o = mat2._nd_seq(it.run, args[0]) if args else None
    if o is None or len(args) < 2 or args[1] != 2:
        raise Unsupported("np.array_split(%r)" % (args,), node)
    n = o.hi - o.lo
    k = n / 2 + n % 2          # the first of two sections gets the extra element (numpy.array_split)
    models.note(it, "exact:np.array_split of a 1-D vector into two sections (sizes ceil(n/2), floor(n/2))")
    a = it.run.alloc(HSeq(o.arr, o.lo, z3.simplify(o.lo + k), o.elem, nd=True))
    b = it.run.alloc(HSeq(o.arr, z3.simplify(o.lo + k), o.hi, o.elem, nd=True))
    return it.run.alloc(X.HList([a, b]))


A.EXTRA_EXT["numpy.array_split"] = _np_array_split
