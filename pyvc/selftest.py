"""engine self-test, run by MANIFEST.setup_cmd: the verifier must (a) prove a known-true lemma, (b) refute a
deliberately false one, (c) refute a function contract whose postcondition is deliberately wrong, (d) report a
non-zero number of obligations.  Exit 0 ok / 3 broken machinery."""
import sys

from . import api, vcgen


def main(repo_root="/repo"):
    repo, reg = api.init(repo_root)
    bad = []
    rep = vcgen.verify_lemma(api.make_ctx, reg, "ndrift_bounds")
    if not rep.obligations or any(o.verdict != "proved" for o in rep.obligations):
        bad.append("true lemma ndrift_bounds not proved")
    reg.lemma("selftest_false", params={"dets": "List[Det]", "k": "Int"}, requires=["k >= 0"],
              ensures=["ndrift(dets, k) <= k - 1"], induct=("k", "0"))
    rep = vcgen.verify_lemma(api.make_ctx, reg, "selftest_false")
    if not any(o.verdict == "refuted" for o in rep.obligations):
        bad.append("false lemma not refuted")
    q = "menelaus.ensemble.election:SimpleMajorityElection.__call__"
    saved = reg.contracts[q]
    wrong = dict(saved)
    wrong["ensures"] = ["result == ('drift' if 2 * ndrift(detectors, len(detectors)) >= len(detectors) else None)"]
    reg.contracts[q] = wrong
    rep = vcgen.verify_function(api.make_ctx, reg, q)
    reg.contracts[q] = saved
    if rep.undecided or not any(o.verdict == "refuted" for o in rep.obligations):
        bad.append("wrong postcondition not refuted (%s)" % rep.undecided)
    rep = vcgen.verify_function(api.make_ctx, reg, q)
    if rep.undecided or not rep.obligations or any(o.verdict != "proved" for o in rep.obligations):
        bad.append("correct contract not proved")
    bad += backend_guard()
    if bad:
        for b in bad:
            print("SELFTEST-FAILED: " + b)
        return 3
    print("selftest ok")
    return 0


def backend_guard():
    """the solver behind the binding conflates distinct lambda arguments of recursive functions (z3 5.1: the query below
    is answered unsat although y = 1 makes the two sums differ by 6).  discharge() must not be fooled: with lambda
    lifting the false goal is not proved, and a true goal over the same terms still is."""
    import z3
    from . import smt
    I, R = z3.IntSort(), z3.RealSort()
    V = z3.ArraySort(I, R)
    vs = z3.RecFunction("selftest_vsum", V, I, I, R)
    aa, lo, hi = z3.Const("st!aa", V), z3.Int("st!lo"), z3.Int("st!hi")
    z3.RecAddDefinition(vs, [aa, lo, hi], z3.If(hi <= lo, 0, vs(aa, lo, hi - 1) + aa[hi - 1]))
    x, y, i = z3.Array("st!x", I, R), z3.Array("st!y", I, R), z3.Int("st!i")
    l1, l2 = z3.Lambda([i], x[i] + y[i]), z3.Lambda([i], x[i] - y[i])

    class Ob:
        model = None
        note = None
    out = []
    ob = Ob()
    ob.goal, ob.pc = vs(l1, 0, 3) == vs(l2, 0, 3), [y[0] == 1, y[1] == 1, y[2] == 1]
    smt.discharge(ob, [], timeout_ms=5000, use_cvc5=False)
    if ob.verdict == "proved":
        out.append("back-end guard: a false goal over two distinct lambda arguments was 'proved'")
    ob = Ob()
    ob.goal, ob.pc = vs(l1, 0, 3) + vs(l2, 0, 3) == 2 * (x[0] + x[1] + x[2]), []
    smt.discharge(ob, [], timeout_ms=5000, use_cvc5=False)
    if ob.verdict != "proved":
        out.append("back-end guard: a true goal over lifted lambdas was not proved (%s)" % ob.verdict)
    return out


if __name__ == "__main__":
    sys.exit(main())
