"""engine self-test, run by MANIFEST.setup_cmd: the verifier must (a) prove a known-true lemma, (b) refute a
deliberately false one, (c) refute a function contract whose postcondition is deliberately wrong, (d) report a
non-zero number of obligations.  Exit 0 ok / 3 broken machinery."""
import sys

from . import api, vcgen


def main(repo_root="/repo"):
    repo, reg = api.init(repo_root)
    bad = []
    rep = vcgen.verify_lemma(api.make_ctx, reg, "ndrift_bounds")
    if not rep.obligations or any(o.verdict != "proved" for o in rep.obligations):
        bad.append("true lemma ndrift_bounds not proved")
    reg.lemma("selftest_false", params={"dets": "List[Det]", "k": "Int"}, requires=["k >= 0"],
              ensures=["ndrift(dets, k) <= k - 1"], induct=("k", "0"))
    rep = vcgen.verify_lemma(api.make_ctx, reg, "selftest_false")
    if not any(o.verdict == "refuted" for o in rep.obligations):
        bad.append("false lemma not refuted")
    q = "menelaus.ensemble.election:SimpleMajorityElection.__call__"
    saved = reg.contracts[q]
    wrong = dict(saved)
    wrong["ensures"] = ["result == ('drift' if 2 * ndrift(detectors, len(detectors)) >= len(detectors) else None)"]
    reg.contracts[q] = wrong
    rep = vcgen.verify_function(api.make_ctx, reg, q)
    reg.contracts[q] = saved
    if rep.undecided or not any(o.verdict == "refuted" for o in rep.obligations):
        bad.append("wrong postcondition not refuted (%s)" % rep.undecided)
    rep = vcgen.verify_function(api.make_ctx, reg, q)
    if rep.undecided or not rep.obligations or any(o.verdict != "proved" for o in rep.obligations):
        bad.append("correct contract not proved")
    if bad:
        for b in bad:
            print("SELFTEST-FAILED: " + b)
        return 3
    print("selftest ok")
    return 0


if __name__ == "__main__":
    sys.exit(main())
