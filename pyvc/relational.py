"""Relational (two-run) obligations: the same real function (or two functions) executed from two coupled
symbolic pre-states inside one path; the coupling postcondition is the obligation.

Clause vocabulary: self1 / self2 (receivers), <param>1 / <param>2, result1 / result2, raised1 / raised2 (None or the
exception name), old(...), same_fields(self1, self2, 'f', ...), same_except(self1, self2, 'f', ...).
Uninterpreted library functions are shared by both runs, so equal arguments give equal results (determinism).
"""
import time
import z3

from .sym import (Unsupported, SStr, SOpt, Ref, HObj, zbool, AND, OR, NOT)
from . import execu as X
from . import spec as S
from . import smt
from .vcgen import FnReport, explore, resolve_function, clause_parts, model_inputs


def _fields_eq(self, e, fr, except_mode):
    a = self.ev(e.args[0], fr)
    b = self.ev(e.args[1], fr)
    names = [x.value for x in e.args[2:]]
    oa, ob = self.run.obj(a), self.run.obj(b)
    parts = []
    for f in sorted(set(oa.fields) | set(ob.fields)):
        if (f in names) == except_mode:
            continue
        if f not in oa.fields or f not in ob.fields:
            parts.append(False)
            continue
        parts.append(self.deep_eq(oa.fields[f], ob.fields[f], self.run.heap, self.run.heap))
    return AND(*parts)


def _spec_same_fields(self, e, fr):
    return _fields_eq(self, e, fr, False)


def _spec_same_except(self, e, fr):
    return _fields_eq(self, e, fr, True)


X.Interp.spec_same_fields = _spec_same_fields
X.Interp.spec_same_except = _spec_same_except


def verify_relational(make_ctx, reg, name, timeout_ms=10000):
    rel = [r for r in reg.relationals if r["name"] == name][0]
    rep = FnReport("rel:" + name)
    rep.kind = "relational"
    t0 = time.time()
    ctx = make_ctx()
    repo = ctx.repo
    quals = rel.get("functions") or (rel["function"], rel["function"])
    try:
        fis = [resolve_function(repo, q) for q in quals]
    except KeyError:
        rep.undecided = "contract anchor mismatch: %s" % (quals,)
        return rep
    rep.file, rep.sha, rep.lines = fis[0][0].path, fis[0][0].sha, list(fis[0][0].lines)
    dtags = tuple(rel.get("tags", ("all",)))
    ctx.policy.update(rel.get("calls", {}))
    reg.rel_loops = rel.get("loops", {})
    reg.rel_blocks = rel.get("abstract_blocks", {})

    def body(run, it):
        run.cur_tags = dtags
        envs = []
        sel = []
        for idx, ((fi, ci), q) in enumerate(zip(fis, quals)):
            c = reg.contracts.get(q, {"params": {}, "requires": [], "on_self": None})
            sfx = str(idx + 1)
            recv = rel.get("on_self") or c.get("on_self") or (ci.name if ci else None)
            is_init = fi.name == "__init__"
            env = {}
            share = idx == 1 and "vary" in rel and quals[0] == quals[1]
            k0 = reg.classes.get(recv)
            static = fi.kind in ("static", "function")
            if static:
                selfv = None
            elif is_init:
                selfv = run.alloc(HObj(recv, {}))
            elif share:
                # second run: the *same* symbolic pre-state except for the varied fields (identical statistics)
                first = envs[0][2]
                selfv = S.import_value(run, first["self"], run.heap, {})
                for (oid, g), gv in list(run.ghost.items()):
                    if oid == first["self"].oid:
                        run.ghost[(selfv.oid, g)] = gv
                for f in rel["vary"]:
                    run.obj(selfv).fields[f] = reg.make_symbolic(it, k0["fields"][f], "self2.%s" % f, fresh=False)
            else:
                selfv = reg.make_object(it, recv, "self" + sfx, fresh=False)
            pn = [a.arg for a in fi.node.args.args][(0 if static else 1):]
            if not static:
                env["self"] = selfv
            for p in pn:
                ty = c["params"].get(p) or rel.get("params", {}).get(p)
                if ty is None:
                    raise Unsupported("no type for parameter %s of %s" % (p, q))
                if share and p not in rel.get("vary_params", []):
                    env[p] = envs[0][2][p]
                else:
                    env[p] = reg.make_symbolic(it, ty, "arg%s.%s" % (sfx, p), fresh=False)
            envs.append((fi, ci, env, pn, is_init, c, recv))
            sel.append(selfv)
        joint = {}
        for idx, (fi, ci, env, pn, is_init, c, recv) in enumerate(envs):
            sfx = str(idx + 1)
            if "self" in env:
                joint["self" + sfx] = env["self"]
            for p in pn:
                joint[p + sfx] = env[p]
        run.inputs = dict(joint)
        jf = X.Frame(dict(joint), None, None, module=None)
        # invariants + preconditions of each side, then the coupling
        for idx, (fi, ci, env, pn, is_init, c, recv) in enumerate(envs):
            fr = X.Frame(dict(env), fi, fi.cls, module=fi.module)
            k = reg.classes.get(recv)
            if k is not None and not is_init and "self" in env:
                for inv in k["invariant"]:
                    _t, txt = clause_parts(inv, dtags)
                    run.assume(zbool(reg.eval_clause(it, txt, fr, old=None)))
            for r in c.get("requires", []):
                _t, txt = clause_parts(r, dtags)
                run.assume(zbool(reg.eval_clause(it, txt, fr, old=None)))
        for r in rel.get("requires", []):
            run.assume(zbool(reg.eval_clause(it, r, jf, old=None)))
        run.n_assume = len(run.pc)
        run.old_state = S.snapshot(run, joint)
        outs = []
        shared_store = {}
        for idx, (fi, ci, env, pn, is_init, c, recv) in enumerate(envs):
            fr = X.Frame(dict(env), fi, fi.cls, module=fi.module)
            args = ([env["self"]] if "self" in env else []) + [env[p] for p in pn]
            if "vary" in rel and quals[0] == quals[1]:
                run.rel_share = {"side": idx, "store": shared_store, "vary_params": set(rel.get("vary_params", [])),
                                 "vary_fields": set(rel.get("vary", []))}
            try:
                callenv = it.bind(fi.node, list(args), {}, fr, None, fr)
                nf = X.Frame(callenv, fi, fi.cls, module=fi.module)
                it.declare_locals(fi.node, nf)
                try:
                    it.exec_block(fi.node.body, nf)
                    res = None
                except X.ReturnEx as r:
                    res = r.value
                outs.append(("normal", res))
            except X.PyRaise as e:
                outs.append(("raise", e.etype))
        post = dict(joint)
        for idx, o in enumerate(outs):
            sfx = str(idx + 1)
            post["result" + sfx] = o[1] if o[0] == "normal" else None
            post["raised" + sfx] = None if o[0] == "normal" else o[1]
        pf = X.Frame(post, None, None, module=None)
        for i, en in enumerate(rel.get("ensures", [])):
            tg, txt = clause_parts(en, dtags)
            g = reg.eval_clause(it, txt, pf, old=run.old_state)
            run.oblige("rel:%s/ensures%d" % (name, i), g, kind="relational", tags=tg, clause=txt)
        return ("normal", None)

    try:
        results = explore(ctx, body, max_paths=rel.get("max_paths", 3000))
    except Unsupported as u:
        rep.undecided = "unsupported: %s" % u
        rep.time = time.time() - t0
        reg.rel_loops = {}
        reg.rel_blocks = {}
        return rep
    reg.rel_loops = {}
    reg.rel_blocks = {}
    seen = set()
    for run, outcome in results:
        rep.paths += 1
        rep.notes.update(run.notes)
        rep.assumed.update(run.assumed)
        pid = "".join("T" if d else "F" for d in run.decisions) or "-"
        for ob in run.obligations:
            ob.path = pid
            if ob.kind == "safety":
                continue
            from .vcgen import fn_budget_s
            if time.time() - t0 > fn_budget_s():
                ob.verdict, ob.backend, ob.time, ob.model = "undecided", "none", 0.0, None
                ob.note = "function budget of %.0f s exhausted before this obligation was attempted" % fn_budget_s()
            else:
                smt.discharge(ob, ctx.facts, timeout_ms=timeout_ms)
            if ob.verdict == "refuted" and ob.model is not None:
                ob.cex = model_inputs(run, ob.model)
            rep.obligations.append(ob)
    if results:
        run0 = results[0][0]
        n = getattr(run0, "n_assume", None)
        if n is not None:
            rep.vacuity = str(smt.satisfiable(ctx.facts, run0.pc[:n]))
    rep.time = time.time() - t0
    return rep
