"""Symbolic values of pyvc and the operations of the Python subset on them.

Concrete Python values stay concrete (int, bool, str, None, tuple, Fraction for
float literals); symbolic leaves are bare z3 terms (Int / Real / Bool / Label)
or the small wrappers below.  Mutable containers and instances live on the
heap and are referred to by ``Ref``.

Encoding assumptions (stated in every evidence file):
  A-REAL  float == mathematical real; float literal == its decimal value
  int     unbounded mathematical integer (exact for Python)
  //, %   Python floor semantics
  bool    subtype of int
"""
from fractions import Fraction
import z3

Label = z3.DeclareSort("Label")
INT, REAL, BOOL = z3.IntSort(), z3.RealSort(), z3.BoolSort()


class Unsupported(Exception):
    """Construct outside the supported subset -> obligations of the function are *undecided*."""

    def __init__(self, msg, node=None):
        Exception.__init__(self, msg)
        self.node = node


class T(tuple):
    """tagged engine value ('range', 'enumerate', 'zip', 'zarray', 'ghostns', 'exc'); never a user tuple"""
    pass


def tag(v):
    return v[0] if isinstance(v, T) and len(v) else None


class SStr:
    """A string value: an Int code into the per-run intern table."""
    __slots__ = ("t",)

    def __init__(self, t):
        self.t = t

    def __repr__(self):
        return "SStr(%s)" % self.t


class SOpt:
    """Optional value: ``isnone`` (z3 Bool) and the value when present."""
    __slots__ = ("isnone", "val")

    def __init__(self, isnone, val):
        self.isnone = isnone
        self.val = val

    def __repr__(self):
        return "SOpt(%s,%s)" % (self.isnone, self.val)


class SExt:
    """Extended real: +inf flag and a real value (only float('inf') initialisers use it)."""
    __slots__ = ("inf", "val")

    def __init__(self, inf, val):
        self.inf = inf
        self.val = val

    def __repr__(self):
        return "SExt(%s,%s)" % (self.inf, self.val)


class Ref:
    __slots__ = ("oid",)

    def __init__(self, oid):
        self.oid = oid

    def __eq__(self, o):
        return isinstance(o, Ref) and o.oid == self.oid

    def __hash__(self):
        return hash(("Ref", self.oid))

    def __repr__(self):
        return "Ref(%s)" % self.oid


class SOpaque:
    """Value of an uninterpreted sort (DataFrame, fitted sklearn object, raw user input ...)."""
    __slots__ = ("sort", "t", "meta")

    def __init__(self, sort, t, meta=None):
        self.sort = sort
        self.t = t
        self.meta = meta or {}

    def __repr__(self):
        return "SOpaque(%s,%s)" % (self.sort, self.t)


class SArr1:
    """A one-element numpy array of dimension ``ndim`` holding scalar ``val`` (A-REAL: behaves as the scalar)."""
    __slots__ = ("val", "ndim")

    def __init__(self, val, ndim):
        self.val = val
        self.ndim = ndim

    def __repr__(self):
        return "SArr1(%s,%d)" % (self.val, self.ndim)


class SFunc:
    """Callable value: closure (FunctionDef/Lambda + captured env), bound method, or uninterpreted function."""

    def __init__(self, kind, **kw):
        self.kind = kind
        self.__dict__.update(kw)

    def __repr__(self):
        return "SFunc(%s)" % self.kind


# ---------------------------------------------------------------------------
# heap objects
class HObj:
    """Instance of a (repo or spec) class."""

    def __init__(self, cls, fields=None):
        self.cls = cls               # class name (str)
        self.fields = fields or {}


class HList:
    """List with concrete length."""

    def __init__(self, items):
        self.items = list(items)


class HSeq:
    """List with symbolic length: elements arr[lo..hi).  ``sort`` is the z3 element sort; ``wrap`` tells how to
    present an element (None, 'str', 'ref:<cls>' ...)."""

    def __init__(self, arr, lo, hi, elem="Real", nd=False):
        self.arr = arr
        self.lo = lo
        self.hi = hi
        self.elem = elem
        self.nd = nd          # True: a 1-D numpy array (element-wise arithmetic); False: a Python list


class HDict:
    """dict with concrete keys, insertion ordered."""

    def __init__(self, items=None):
        self.items = dict(items or {})


class HMap:
    """dict with symbolic integer keys: z3 Array Int -> value-sort plus a domain predicate array."""

    def __init__(self, arr, dom, elem="Real"):
        self.arr = arr
        self.dom = dom
        self.elem = elem


class HVec:
    """numpy vector / matrix with symbolic shape: z3 Array(Int[,Int]) -> Real."""

    def __init__(self, arr, shape, elem="Real"):
        self.arr = arr
        self.shape = tuple(shape)
        self.elem = elem


# ---------------------------------------------------------------------------
def is_z3(v):
    return isinstance(v, z3.ExprRef)


def is_sym(v):
    return isinstance(v, (z3.ExprRef, SStr, SOpt, SExt, SOpaque)) or (isinstance(v, SArr1) and is_sym(v.val))


def is_bool(v):
    return isinstance(v, bool) or (is_z3(v) and v.sort() == BOOL)


def is_num(v):
    if isinstance(v, (int, Fraction)):
        return True
    return is_z3(v) and v.sort() in (INT, REAL, BOOL)


def is_int(v):
    if isinstance(v, bool):
        return True
    if isinstance(v, int):
        return True
    return is_z3(v) and v.sort() in (INT, BOOL)


def py_float(x):
    """float literal -> exact decimal Fraction"""
    if x != x or x in (float("inf"), float("-inf")):
        raise Unsupported("non-finite float literal")
    return Fraction(repr(x))


def z(v):
    """python/z3 number or bool -> z3 term"""
    if is_z3(v):
        return v
    if isinstance(v, bool):
        return z3.BoolVal(v)
    if isinstance(v, int):
        return z3.IntVal(v)
    if isinstance(v, Fraction):
        return z3.RealVal(str(v))
    if isinstance(v, float):
        return z3.RealVal(str(py_float(v)))
    raise Unsupported("cannot convert %r to z3" % (v,))


def b2i(t):
    """z3 Bool -> Int (bool is a subtype of int)"""
    if is_z3(t) and t.sort() == BOOL:
        return z3.If(t, z3.IntVal(1), z3.IntVal(0))
    return t


def to_real(t):
    t = b2i(z(t))
    if t.sort() == INT:
        return z3.ToReal(t)
    return t


def zbool(v):
    if isinstance(v, bool):
        return z3.BoolVal(v)
    return v


def AND(*xs):
    ys = []
    for x in xs:
        if x is True:
            continue
        if x is False:
            return False
        ys.append(x)
    if not ys:
        return True
    if len(ys) == 1:
        return ys[0]
    return z3.And(*ys)


def OR(*xs):
    ys = []
    for x in xs:
        if x is False:
            continue
        if x is True:
            return True
        ys.append(x)
    if not ys:
        return False
    if len(ys) == 1:
        return ys[0]
    return z3.Or(*ys)


def NOT(x):
    if isinstance(x, bool):
        return not x
    return z3.Not(x)


def IMPLIES(a, b):
    return OR(NOT(a), b)


def arith(op, a, b):
    """a op b for numbers (python or z3), Python semantics."""
    if isinstance(a, SArr1) or isinstance(b, SArr1):
        nd = max(x.ndim for x in (a, b) if isinstance(x, SArr1))
        av = a.val if isinstance(a, SArr1) else a
        bv = b.val if isinstance(b, SArr1) else b
        return SArr1(arith(op, av, bv), nd)
    if isinstance(a, SExt) or isinstance(b, SExt):
        return ext_arith(op, a, b)
    if not (is_num(a) and is_num(b)):
        raise Unsupported("arithmetic %s on %r, %r" % (op, a, b))
    if not is_z3(a) and not is_z3(b):
        a_ = int(a) if isinstance(a, bool) else a
        b_ = int(b) if isinstance(b, bool) else b
        if op == "+":
            return a_ + b_
        if op == "-":
            return a_ - b_
        if op == "*":
            return a_ * b_
        if op == "/":
            if b_ == 0:
                raise Unsupported("concrete division by zero")
            return Fraction(a_) / Fraction(b_)
        if op == "//":
            if b_ == 0:
                raise Unsupported("concrete division by zero")
            return a_ // b_
        if op == "%":
            return a_ % b_
        if op == "**":
            if isinstance(b_, int) and b_ >= 0:
                return a_ ** b_
            raise Unsupported("power with non-natural exponent")
    za, zb = b2i(z(a)), b2i(z(b))
    if op in ("+", "-", "*"):
        if za.sort() != zb.sort():
            za, zb = to_real(za), to_real(zb)
        return {"+": za + zb, "-": za - zb, "*": za * zb}[op]
    if op == "/":
        return to_real(za) / to_real(zb)
    if op == "//":
        if za.sort() == INT and zb.sort() == INT:
            return z3.If(zb > 0, za / zb, (-za) / (-zb))
        q = to_real(za) / to_real(zb)
        return z3.ToReal(z3.ToInt(q))
    if op == "%":
        if za.sort() == INT and zb.sort() == INT:
            fd = z3.If(zb > 0, za / zb, (-za) / (-zb))
            return za - zb * fd
        raise Unsupported("real modulo")
    if op == "**":
        if isinstance(b, int) and 0 <= b <= 4:
            if b == 0:
                return z3.IntVal(1) if za.sort() == INT else z3.RealVal(1)
            r = za
            for _ in range(b - 1):
                r = r * za
            return r
        raise Unsupported("symbolic power")
    raise Unsupported("operator %s" % op)


def ext_arith(op, a, b):
    def parts(x):
        if isinstance(x, SExt):
            return x.inf, to_real(x.val)
        return False, to_real(x)
    ai, av = parts(a)
    bi, bv = parts(b)
    if op == "+":
        return SExt(OR(ai, bi), av + bv)
    raise Unsupported("extended-real operator %s" % op)


def cmp(op, a, b):
    """numeric comparison -> python bool or z3 Bool"""
    if isinstance(a, SArr1):
        a = a.val
    if isinstance(b, SArr1):
        b = b.val
    if isinstance(a, SExt) or isinstance(b, SExt):
        def parts(x):
            if isinstance(x, SExt):
                return zbool(x.inf), to_real(x.val)
            return z3.BoolVal(False), to_real(x)
        ai, av = parts(a)
        bi, bv = parts(b)
        # only +inf exists
        if op == "<=":
            return z3.If(bi, z3.BoolVal(True), z3.If(ai, z3.BoolVal(False), av <= bv))
        if op == "<":
            return z3.If(ai, z3.BoolVal(False), z3.If(bi, z3.BoolVal(True), av < bv))
        if op == ">=":
            return cmp("<=", b, a)
        if op == ">":
            return cmp("<", b, a)
        if op == "==":
            return z3.If(z3.And(ai, bi), z3.BoolVal(True), z3.And(z3.Not(ai), z3.Not(bi), av == bv))
        if op == "!=":
            return z3.Not(cmp("==", a, b))
    if not (is_num(a) and is_num(b)):
        raise Unsupported("comparison %s on %r, %r" % (op, a, b))
    if not is_z3(a) and not is_z3(b):
        return {"<": a < b, "<=": a <= b, ">": a > b, ">=": a >= b, "==": a == b, "!=": a != b}[op]
    za, zb = b2i(z(a)), b2i(z(b))
    if za.sort() != zb.sort():
        za, zb = to_real(za), to_real(zb)
    return {"<": za < zb, "<=": za <= zb, ">": za > zb, ">=": za >= zb, "==": za == zb, "!=": za != zb}[op]


def same_kind_terms(a, b):
    za, zb = b2i(z(a)), b2i(z(b))
    if za.sort() != zb.sort():
        if za.sort() in (INT, REAL) and zb.sort() in (INT, REAL):
            return to_real(za), to_real(zb)
        return None
    return za, zb
