"""dicts keyed by (symbolic) integers whose values are small records: LinearFourRates' per-sample tables.

IMap[f1:T1,...]   one z3 array Int -> T per record field + a domain array; m[k] is a write-through view of row k."""
import z3

from .sym import (T, tag, Unsupported, SStr, SOpt, Ref, SOpaque, SFunc, HObj, HList, HSeq, HDict, INT, REAL, BOOL,
                  is_z3, is_num, z, b2i, to_real, zbool, AND, OR, NOT)
from . import execu as X
from .models import HOOKS, Models
from .spec import split_args


class HRecMap:
    def __init__(self, arrays, kinds, dom):
        self.arrays = dict(arrays)
        self.kinds = dict(kinds)
        self.dom = dom

    def clone(self):
        return HRecMap(self.arrays, self.kinds, self.dom)

    def deep_eq(self, it, other, ha, hb):
        return AND(self.dom == other.dom, *[self.arrays[f] == other.arrays[f] for f in self.arrays])

    def to_json(self, run, m, depth):
        return "<int-keyed table>"


class RecView:
    def __init__(self, mref, key):
        self.mref = mref
        self.key = key


def _make_symbolic(models, it, reg, ty, name, fresh):
    if ty.startswith("IMap["):
        run = it.run
        arrays, kinds = {}, {}
        for part in split_args(ty[5:-1]):
            f, t = part.split(":")
            srt = {"Real": REAL, "Bool": BOOL, "Int": INT}[t.strip()]
            nm = "%s!%s" % (name, f.strip())
            arrays[f.strip()] = z3.Const(nm, z3.ArraySort(INT, srt)) if not fresh else run.fresh(z3.ArraySort(INT, srt), nm)
            kinds[f.strip()] = t.strip()
        dom = z3.Const(name + "!dom", z3.ArraySort(INT, BOOL)) if not fresh else run.fresh(z3.ArraySort(INT, BOOL), name + "!dom")
        return run.alloc(HRecMap(arrays, kinds, dom))
    return NotImplemented


HOOKS["make_symbolic"].append(_make_symbolic)


def _getitem(models, it, base, idx, node):
    if isinstance(base, Ref):
        o = it.run.obj(base)
        if isinstance(o, HRecMap):
            k = b2i(z(idx))
            it.run.oblige("key-present@%s" % getattr(node, "lineno", "?"), z3.Select(o.dom, k), kind="safety")
            return RecView(base, k)
    if isinstance(base, RecView):
        o = it.run.obj(base.mref)
        if not isinstance(idx, str) or idx not in o.arrays:
            raise X.PyRaise("KeyError", str(idx))
        return o.arrays[idx][base.key]
    return NotImplemented


HOOKS["getitem"].append(_getitem)


def _setitem(models, it, base, idx, val, node):
    if isinstance(base, RecView):
        o = it.run.obj(base.mref)
        if not isinstance(idx, str) or idx not in o.arrays:
            raise Unsupported("record field %r" % (idx,), node)
        kind = o.kinds[idx]
        t = zbool(val) if kind == "Bool" else (to_real(it.run.num(val)) if kind == "Real" else b2i(z(val)))
        o.arrays[idx] = z3.Store(o.arrays[idx], base.key, t)
        return True
    return NotImplemented


HOOKS["setitem"].append(_setitem)


def _method(models, it, target, obj, name, args, kwargs, fr, node):
    run = it.run
    if isinstance(target, RecView):
        o = run.obj(target.mref)
        if name == "copy":
            return run.alloc(HDict({f: o.arrays[f][target.key] for f in o.arrays}))
        if name == "values":
            return tuple(o.arrays[f][target.key] for f in o.arrays)
    if isinstance(obj, HRecMap):
        if name == "update":
            lit = args[0]
            if tag(lit) != "maplit":
                raise Unsupported("table.update(%r)" % (lit,), node)
            for k, v in lit[1]:
                kz = b2i(z(k))
                src = run.obj(v) if isinstance(v, Ref) else None
                if not isinstance(src, HDict):
                    raise Unsupported("table row must be a dict literal / copy", node)
                for f in obj.arrays:
                    if f not in src.items:
                        raise Unsupported("row lacks field %s" % f, node)
                    kind = obj.kinds[f]
                    val = src.items[f]
                    t = zbool(val) if kind == "Bool" else (to_real(val) if kind == "Real" else b2i(z(val)))
                    obj.arrays[f] = z3.Store(obj.arrays[f], kz, t)
                obj.dom = z3.Store(obj.dom, kz, z3.BoolVal(True))
            return None
        if name == "copy":
            return run.alloc(obj.clone())
    if isinstance(obj, HDict) and name == "update" and args and tag(args[0]) == "maplit":
        for k, v in args[0][1]:
            if is_z3(k):
                ks = z3.simplify(k)
                if not z3.is_int_value(ks):
                    raise Unsupported("concrete dict updated with a symbolic key", node)
                k = ks.as_long()
            obj.items[k] = v
        return None
    return NotImplemented


HOOKS["method"].insert(0, _method)


def _attr(models, it, base, obj, attr, node):
    if isinstance(base, RecView) and attr in ("copy", "values", "keys", "items"):
        return SFunc("objmethod", target=base, name=attr)
    return NotImplemented


HOOKS["attr"].append(_attr)


def _spec_has_key(self, e, fr):
    m = self.ev(e.args[0], fr)
    k = self.ev(e.args[1], fr)
    o = self.run.obj(m)
    if isinstance(o, HRecMap):
        return z3.Select(o.dom, b2i(z(k)))
    if isinstance(o, HDict):
        if is_z3(k):
            ks = z3.simplify(k)
            if z3.is_int_value(ks):
                return ks.as_long() in o.items
            return OR(*[k == kk for kk in o.items if isinstance(kk, int)])
        return k in o.items
    raise Unsupported("has_key on %r" % (o,))


X.Interp.spec_has_key = _spec_has_key
