"""Verification-condition generation: per function contract, per lemma, per relational contract."""
import ast
import time
import traceback
from fractions import Fraction
import z3

from .sym import (Unsupported, SStr, SOpt, SExt, Ref, SOpaque, SArr1, SFunc, HObj, HList, HSeq, HDict, HMap, HVec,
                  Label, INT, REAL, BOOL, is_z3, is_num, zbool, AND, OR, NOT, IMPLIES, b2i, z)
from . import execu as X
from . import spec as S
from . import smt


def clause_parts(c, default_tags):
    if isinstance(c, tuple):
        tags = tuple(t.strip().rstrip("!") for t in c[0].split(","))
        return tags, c[1]
    return tuple(default_tags), c


class FnReport:
    def __init__(self, qualname):
        self.qualname = qualname
        self.kind = "function"
        self.paths = 0
        self.obligations = []
        self.undecided = None
        self.time = 0.0
        self.notes = set()
        self.assumed = set()
        self.file = None
        self.sha = None
        self.lines = None
        self.reads = set()
        self.writes = set()
        self.exits = {"normal": 0, "raise": {}}
        self.vacuity = None


def fn_budget_s():
    """wall-clock budget for one function / relational target (exploration + discharge): a changed function can have
    many more paths and undecidable obligations than the unchanged one; past the budget everything left is *undecided*"""
    import os
    return float(os.environ.get("PYVC_FN_BUDGET_S", "480"))


def explore(ctx, body, max_paths=4000):
    work = [[]]
    results = []
    t_start = time.time()
    while work:
        if time.time() - t_start > fn_budget_s():
            raise Unsupported("exploration budget of %.0f s exhausted after %d paths" % (fn_budget_s(), len(results)))
        prefix = work.pop()
        run = X.Run(ctx, prefix)
        it = X.Interp(run)
        try:
            outcome = body(run, it)
        except X.PathEnd:
            outcome = ("end", None)
        work.extend(run.alternatives)
        results.append((run, outcome))
        if len(results) > max_paths:
            raise Unsupported("more than %d paths" % max_paths)
    return results


def resolve_function(repo, qualname):
    mod, rest = qualname.split(":")
    acc = None
    if "@" in rest:
        rest, acc = rest.split("@")
    if "." in rest:
        cname, fname = rest.split(".")
        ci = repo.modules[mod].classes[cname]
        if acc == "getter":
            fi = repo.find_getter(ci, fname)
        elif acc == "setter":
            fi = repo.find_setter(ci, fname)
        else:
            fi = repo.find_method(ci, fname)
        if fi is None:
            raise KeyError(qualname)
        return fi, ci
    return repo.modules[mod].functions[rest], None


def verify_function(make_ctx, reg, qualname, timeout_ms=10000, both=False):
    rep = FnReport(qualname)
    t0 = time.time()
    ctx = make_ctx()
    repo = ctx.repo
    c = reg.contracts[qualname]
    try:
        fi, ci = resolve_function(repo, qualname)
    except KeyError:
        rep.undecided = "contract anchor mismatch: %s not found in the current source" % qualname
        rep.time = time.time() - t0
        return rep
    rep.file, rep.sha, rep.lines = fi.path, fi.sha, list(fi.lines)
    if not hasattr(reg, "alias"):
        reg.alias = {}
    if fi.qualname != qualname:
        reg.alias[fi.qualname] = qualname
    ctx.policy.update(c.get("calls", {}))
    dtags = c["tags"]
    is_init = fi.name == "__init__"
    recv = c.get("on_self") or (ci.name if ci is not None else None)
    k = reg.classes.get(recv) if recv else None
    static = fi.kind in ("static", "function")

    def body(run, it):
        run.cur_tags = tuple(dtags)
        env = {}
        selfv = None
        if not static:
            if fi.kind == "class":
                selfv = X.SCls(ci)
            elif is_init:
                selfv = run.alloc(HObj(recv, {}))
                for f_, ty in c.get("pre_fields", {}).items():
                    run.obj(selfv).fields[f_] = reg.make_symbolic(it, ty, "self.%s" % f_, fresh=False)
            else:
                selfv = reg.make_object(it, recv, "self", fresh=False)
                for f_, ty in c.get("self_fields", {}).items():
                    run.obj(selfv).fields[f_] = reg.make_symbolic(it, ty, "self.%s" % f_, fresh=False)
        pnames = [a.arg for a in fi.node.args.args]
        if not static:
            env[pnames[0]] = selfv
            pnames = pnames[1:]
        for p in pnames + [a.arg for a in fi.node.args.kwonlyargs]:
            ty = c["params"].get(p)
            if ty is None:
                raise Unsupported("contract for %s gives no type for parameter %s" % (qualname, p))
            env[p] = reg.make_symbolic(it, ty, "arg.%s" % p, fresh=False)
        if fi.node.args.vararg is not None:
            va = fi.node.args.vararg.arg
            env[va] = reg.make_symbolic(it, c["params"].get(va, "Tuple[]"), "arg.%s" % va, fresh=False)
        run.inputs = dict(env)
        fr = X.Frame(dict(env), fi, fi.cls, module=fi.module)
        # assumptions: invariant + requires
        if k is not None and not is_init and not static and c["assume_invariant"]:
            for inv in k["invariant"]:
                _t, txt = clause_parts(inv, dtags)
                run.assume(zbool(reg.eval_clause(it, txt, fr, old=None)))
        for r in c["requires"]:
            _t, txt = clause_parts(r, dtags)
            run.assume(zbool(reg.eval_clause(it, txt, fr, old=None)))
        for a_ in c.get("assume", []):
            # heap-wide object invariants (every node of a linked structure satisfies its class invariant in the
            # pre-state): an ASSUMPTION of the proof, not a precondition callers must establish; listed in the report
            run.assume(zbool(reg.eval_clause(it, a_, fr, old=None)))
            run.assumed.append("assume:%s" % a_)
        for use in c.get("use", []):
            reg.use_lemma(it, use, fr)
        run.n_assume = len(run.pc)
        run.old_state = S.snapshot(run, env)
        run.track_params = {p: True for p in c.get("reads_not", [])}
        run.track_vals = {id(env[p]): p for p in c.get("reads_not", []) if env.get(p) is not None}
        args = [env[a.arg] for a in fi.node.args.args]
        kwargs = {a.arg: env[a.arg] for a in fi.node.args.kwonlyargs}
        if fi.node.args.vararg is not None:
            args = args + list(env[fi.node.args.vararg.arg])
        try:
            # bind + execute (inline, real text)
            callenv = it.bind(fi.node, list(args), dict(kwargs), fr, None, fr)
            nf = X.Frame(callenv, fi, fi.cls, module=fi.module)
            it.declare_locals(fi.node, nf)
            run.entry_frame = nf
            try:
                it.exec_block(fi.node.body, nf)
                result = None
            except X.ReturnEx as r:
                result = r.value
            outcome = ("normal", result)
        except X.PyRaise as e:
            outcome = ("raise", e.etype)
        # ---- post
        post_env = dict(env)
        pf = X.Frame(post_env, fi, fi.cls, module=fi.module)
        fname = qualname.split(":")[1]
        if outcome[0] == "normal":
            result = outcome[1]
            pf.env["result"] = result
            # ghost updates may name the function's final locals (they record intermediate values as ghost state)
            genv = dict(getattr(run, "entry_frame", pf).env)
            genv.update(pf.env)
            for gu in (k["ghost_init"] if (k is not None and is_init) else []) + c["ghost_update"]:
                exec_ghost(it, reg, gu, pf, result, run.old_state, genv)
            # lemma instances at the exit may mention the function's final locals (like loop invariants do)
            uf_ = X.Frame(dict(getattr(run, "entry_frame", pf).env), fi, fi.cls, module=fi.module)
            uf_.env.update(pf.env)
            for use in c.get("use_exit", []):
                reg.use_lemma(it, use, uf_)
            for etype, spec in c["raises"].items():
                if isinstance(spec, dict) and spec.get("iff") and spec.get("when"):
                    cond = reg.eval_clause(it, spec["when"], pf, old=run.old_state)
                    # evaluated in the pre-state
                    cond = eval_in_old(it, reg, spec["when"], pf, run.old_state)
                    tg = tuple(t.strip() for t in spec["tags"].split(",")) if spec.get("tags") else dtags
                    run.oblige("%s/must-raise-%s" % (fname, etype), NOT(zbool(cond)), kind="post", tags=tg,
                               clause="not (%s)" % spec["when"])
            for i, en in enumerate(c["ensures"]):
                tg, txt = clause_parts(en, dtags)
                g = reg.eval_clause(it, txt, pf, result=result, old=run.old_state)
                run.oblige("%s/ensures%d" % (fname, i), g, kind="post", tags=tg, clause=txt)
            if k is not None and not static and c["check_invariant"]:
                for i, inv in enumerate(k["invariant"]):
                    tg, txt = clause_parts(inv, k.get("tags") or dtags)
                    g = reg.eval_clause(it, txt, pf, result=result, old=run.old_state)
                    run.oblige("%s/invariant%d" % (fname, i), g, kind="invariant", tags=tg, clause=txt)
            if c["modifies"] is not None and not is_init:
                bad = sorted(f for (cl, f) in run.writes if f not in c["modifies"] and (cl == recv or True)
                             and cl in [x.name for x in (repo.classes[recv].mro if recv in repo.classes else [])])
                run.oblige("%s/frame" % fname, len(bad) == 0, kind="frame",
                           clause="writes only %s (wrote also %s)" % (c["modifies"], bad),
                           tags=tuple(c.get("frame_tags", dtags)))
            if c.get("reads_not"):
                bad = sorted(run.param_reads & set(c["reads_not"]))
                run.oblige("%s/unused-params" % fname, len(bad) == 0, kind="frame",
                           clause="parameters %s are never read (read: %s)" % (c["reads_not"], bad),
                           tags=tuple(c.get("reads_not_tags", dtags)))
        else:
            etype = outcome[1]
            spec = c["raises"].get(etype)
            if spec is None:
                tg = tuple(c.get("exception_tags", dtags))
                run.oblige("%s/unexpected-%s" % (fname, etype), False, kind="exception", tags=tg,
                           clause="no %s is raised" % etype)
            else:
                if not isinstance(spec, dict):
                    spec = {"when": spec}
                tg = tuple(t.strip() for t in spec["tags"].split(",")) if spec.get("tags") else dtags
                if spec.get("when"):
                    cond = eval_in_old(it, reg, spec["when"], pf, run.old_state)
                    run.oblige("%s/raises-%s-only-when" % (fname, etype), cond, kind="post", tags=tg,
                               clause=spec["when"])
                for i, en in enumerate(spec.get("ensures", [])):
                    tg2, txt = clause_parts(en, tg)
                    g = reg.eval_clause(it, txt, pf, result=None, old=run.old_state)
                    run.oblige("%s/raises-%s/ensures%d" % (fname, etype, i), g, kind="post", tags=tg2, clause=txt)
        return outcome

    try:
        results = explore(ctx, body)
    except Unsupported as u:
        rep.undecided = "unsupported: %s%s" % (u, (" at %s:%s" % (fi.path, getattr(u.node, "lineno", "?")))
                                               if getattr(u, "node", None) is not None else "")
        rep.time = time.time() - t0
        return rep
    except RecursionError:
        rep.undecided = "unsupported: recursion depth"
        rep.time = time.time() - t0
        return rep
    seen = {}
    known_regions = getattr(reg, "known_regions", [])
    for run, outcome in results:
        bad_goals = []
        rep.paths += 1
        pid = "".join("T" if d else "F" for d in run.decisions) or "-"
        if outcome[0] == "normal":
            rep.exits["normal"] += 1
        elif outcome[0] == "raise":
            rep.exits["raise"][outcome[1]] = rep.exits["raise"].get(outcome[1], 0) + 1
        rep.notes.update(run.notes)
        rep.assumed.update(run.assumed)
        rep.reads.update(run.reads)
        rep.writes.update(run.writes)
        for ob in run.obligations:
            ob.path = pid
            ob.run = run
            key = (ob.name, z3.simplify(ob.goal).sexpr() if is_z3(ob.goal) else str(ob.goal),
                   tuple(p.sexpr() for p in ob.pc))
            if key in seen:
                continue
            seen[key] = ob
            if bad_goals:
                # an obligation that failed earlier on this path is not assumed by the later ones: every clause is
                # judged on its own, so a failure tagged for one property cannot mask one tagged for another
                ob.pc = [p_ for p_ in ob.pc if not any(p_ is g for g in bad_goals)]
            if time.time() - t0 > fn_budget_s():
                ob.verdict, ob.backend, ob.time, ob.model = "undecided", "none", 0.0, None
                ob.note = "function budget of %.0f s exhausted before this obligation was attempted" % fn_budget_s()
            else:
                smt.discharge(ob, ctx.facts, timeout_ms=timeout_ms, both=both, small_terms=getattr(run, "size_terms", ()))
            if ob.verdict != "proved":
                bad_goals.append(ob.goal)
            if ob.verdict == "refuted":
                for kr in known_regions:
                    if kr["function"] == qualname and kr["clause_contains"] in (ob.clause or ""):
                        inside = region_only(run, reg, ctx, ob, kr, timeout_ms)
                        if inside:
                            ob.known = kr["id"]
                        break
            if ob.verdict == "refuted" and ob.model is not None:
                ob.cex = model_inputs(run, ob.model)
            rep.obligations.append(ob)
    # vacuity: requires + invariant satisfiable (first path's assumption prefix)
    if results:
        run0 = results[0][0]
        n = getattr(run0, "n_assume", None)
        if n is not None:
            r = smt.satisfiable(ctx.facts, run0.pc[:n])
            rep.vacuity = str(r)
    rep.time = time.time() - t0
    rep.ctx = ctx
    return rep


def region_only(run, reg, ctx, ob, kr, timeout_ms):
    """True iff every counterexample of the refuted obligation lies inside the known finding's region (a clause over
    the pre-state); otherwise the obligation's model is replaced by one outside the region"""
    it = X.Interp(run)
    fr = X.Frame(dict(run.old_state.env), None, None, module=None)
    saved_pc, saved_obl = list(run.pc), len(run.obligations)
    try:
        r = eval_in_old(it, reg, kr["region"], fr, run.old_state)
    except Unsupported:
        return False
    finally:
        run.pc[:] = saved_pc
        del run.obligations[saved_obl:]
    s, risky = smt.lifted_solver(list(ctx.facts) + list(ob.pc) + [z3.Not(ob.goal), z3.Not(zbool(r))], timeout_ms)
    res = s.check()
    if res == z3.unsat and not risky:
        return True
    if res == z3.sat:
        ob.model = s.model()
    return False


def eval_in_old(it, reg, text, fr, old):
    run = it.run
    cur_heap, cur_ghost = run.heap, run.ghost
    run.heap, run.ghost = old.heap, old.ghost
    try:
        env = dict(fr.env)
        env.update(old.env)
        return reg.eval_clause(it, text, fr, env=env, old=old)
    finally:
        run.heap, run.ghost = cur_heap, cur_ghost


def exec_ghost(it, reg, text, fr, result, old, genv=None):
    tree = ast.parse(text.strip())
    sf = X.Frame(genv if genv is not None else dict(fr.env), fr.fi, fr.cls, module=fr.module)
    sf.spec = X.SpecEnv()
    sf.spec.allow_write = True
    sf.spec.old = old
    sf.spec.result = result
    sf.env["result"] = result
    it.run.spec_depth += 1
    try:
        for st in tree.body:
            try:
                it.exec_stmt(st, sf)
            except X.PyRaise as e:
                # the update names a local the code did not compute on this path (changed code): the ghost field takes an
                # arbitrary value of its type, so whatever the contract says about it cannot be proved on this path
                tgt = st.targets[0] if isinstance(st, ast.Assign) and len(st.targets) == 1 else None
                ok = (e.etype in ("UnboundLocalError", "NameError") and isinstance(tgt, ast.Attribute) and
                      isinstance(tgt.value, ast.Attribute) and tgt.value.attr == "ghost" and isinstance(tgt.value.value, ast.Name))
                if not ok:
                    raise
                owner = sf.env.get(tgt.value.value.id)
                k = reg.classes.get(it.run.obj(owner).cls) if isinstance(owner, Ref) else None
                if k is None or tgt.attr not in k["ghost"]:
                    raise
                it.run.ghost[(owner.oid, tgt.attr)] = reg.make_symbolic(it, k["ghost"][tgt.attr], "ghost!unset!%s" % tgt.attr)
    finally:
        it.run.spec_depth -= 1


# ---------------------------------------------------------------------------
OPAQUE_JSON = {}     # sort name -> printer of a model value (installed by model modules)


def val_json(run, m, v, depth=0):
    def ev(t):
        try:
            r = m.eval(t, model_completion=True)
        except z3.Z3Exception:
            return str(t)
        if z3.is_int_value(r):
            return r.as_long()
        if z3.is_rational_value(r):
            fr = Fraction(r.numerator_as_long(), r.denominator_as_long())
            return {"frac": str(fr), "float": float(fr)}
        if z3.is_algebraic_value(r):
            return {"algebraic": str(r), "float": float(r.approx(20).as_fraction())}
        if z3.is_true(r):
            return True
        if z3.is_false(r):
            return False
        return str(r)
    if depth > 6:
        return "..."
    if v is None or isinstance(v, (bool, int, str)):
        return v
    if isinstance(v, Fraction):
        return {"frac": str(v), "float": float(v)}
    if is_z3(v):
        return ev(v)
    if isinstance(v, SStr):
        code = ev(v.t)
        sl = run.ctx.str_list
        if isinstance(code, int) and 1 <= code <= len(sl):
            return sl[code - 1]
        return "<other-string-%s>" % code
    if isinstance(v, SOpt):
        if ev(zbool(v.isnone)) is True:
            return None
        return val_json(run, m, v.val, depth + 1)
    if isinstance(v, SExt):
        if ev(zbool(v.inf)) is True:
            return {"float": "inf"}
        return val_json(run, m, v.val, depth + 1)
    if isinstance(v, SArr1):
        return {"array1": val_json(run, m, v.val, depth + 1), "ndim": v.ndim}
    if isinstance(v, SOpaque) and v.sort == "Det":
        f = run.ctx.ufs.get("drift_state_of")
        ds = None
        if f is not None:
            code = ev(f(v.t))
            sl = run.ctx.str_list
            ds = None if code == 0 else (sl[code - 1] if isinstance(code, int) and 1 <= code <= len(sl) else "other")
        return {"opaque": "Det", "id": ev(v.t), "meta": {"drift_state": ds}}
    if isinstance(v, SOpaque) and v.sort in OPAQUE_JSON:
        return OPAQUE_JSON[v.sort](run, m, v, ev)
    if isinstance(v, SOpaque):
        return {"opaque": v.sort, "id": ev(v.t), "meta": {k_: val_json(run, m, x, depth + 1) for k_, x in v.meta.items()}}
    if isinstance(v, tuple):
        return [val_json(run, m, x, depth + 1) for x in v]
    if isinstance(v, Ref):
        heap = run.old_state.heap if getattr(run, "old_state", None) is not None and v.oid in run.old_state.heap \
            else run.heap
        o = heap[v.oid]
        if isinstance(o, HObj):
            d = {"__class__": o.cls}
            for f, x in o.fields.items():
                d[f] = val_json(run, m, x, depth + 1)
            gh = {g: val_json(run, m, x, depth + 1) for (oid, g), x in
                  (run.old_state.ghost if getattr(run, "old_state", None) else run.ghost).items() if oid == v.oid}
            if gh:
                d["__ghost__"] = gh
            return d
        if isinstance(o, HList):
            return [val_json(run, m, x, depth + 1) for x in o.items]
        if isinstance(o, HDict):
            return {str(k_): val_json(run, m, x, depth + 1) for k_, x in o.items.items()}
        if isinstance(o, HSeq):
            n = ev(o.hi - o.lo)
            lo = ev(o.lo)
            if isinstance(n, int) and isinstance(lo, int) and 0 <= n <= 64:
                return [val_json(run, m, run.wrap_elem(o.arr[lo + i], o.elem), depth + 1) for i in range(n)]
            return {"seq_len": n}
        if isinstance(o, HMap):
            return {"map": str(m.eval(o.arr, model_completion=True))[:400]}
        j = getattr(o, "to_json", None)
        if j is not None:
            return j(run, m, depth)
        return "<%s>" % type(o).__name__
    if isinstance(v, (SFunc, X.SCls, X.SMod)):
        return "<callable>"
    return repr(v)


def model_inputs(run, m):
    out = {}
    for name, v in getattr(run, "inputs", {}).items():
        try:
            out[name] = val_json(run, m, v)
        except Exception as e:  # never let model printing break the verdict
            out[name] = "<unprintable: %s>" % e
    return out


# ---------------------------------------------------------------------------
def verify_lemma(make_ctx, reg, name, timeout_ms=10000):
    """Lemma over spec functions: direct, or by induction on an Int parameter (base + step)."""
    rep = FnReport("lemma:" + name)
    rep.kind = "lemma"
    t0 = time.time()
    ctx = make_ctx()
    lem = reg.lemmas[name]
    try:
        cases = ["direct"] if not lem["induct"] else ["base", "step"]
        for case in cases:
            run = X.Run(ctx, [])
            run.cur_tags = ("lemma",)
            it = X.Interp(run)
            env = {}
            for p, ty in lem["params"].items():
                env[p] = reg.make_symbolic(it, ty, "lem.%s" % p, fresh=False)
            run.inputs = dict(env)
            fr = X.Frame(env, None, None, module=None)
            for use in lem["use"]:
                reg.use_lemma(it, use, fr)
            for mtxt in lem.get("mention", []):
                mf = X.Frame(dict(env), None, None, module=None)
                mf.spec = X.SpecEnv()
                mf.spec.old = None
                run.spec_depth += 1
                try:
                    it.ev(reg.parse(mtxt), mf)
                finally:
                    run.spec_depth -= 1
            req = AND(*[zbool(reg.eval_clause(it, r, fr, old=None)) for r in lem["requires"]])
            if case == "direct":
                run.assume(zbool(req))
            else:
                var, base = lem["induct"]
                v = env[var]
                bf = X.Frame(dict(env), None, None, module=None)
                bf.spec = X.SpecEnv()
                bf.spec.old = None
                base = it.ev(reg.parse(str(base)), bf)
                base = b2i(z(base))
                if case == "base":
                    run.assume(zbool(req))
                    run.assume(v == base)
                else:
                    run.assume(zbool(req))
                    run.assume(v > base)
                    env2 = dict(env)
                    env2[var] = v - 1
                    fr2 = X.Frame(env2, None, None, module=None)
                    req2 = AND(*[zbool(reg.eval_clause(it, r, fr2, old=None)) for r in lem["requires"]])
                    ens2 = AND(*[zbool(reg.eval_clause(it, r, fr2, old=None)) for r in lem["ensures"]])
                    run.assume(zbool(IMPLIES(req2, ens2)))
                    for use in lem.get("use_step", []) if isinstance(lem, dict) else []:
                        reg.use_lemma(it, use, fr)
            for i, e in enumerate(lem["ensures"]):
                g = reg.eval_clause(it, e, fr, old=None)
                ob = run.oblige("lemma:%s/%s/ensures%d" % (name, case, i), g, kind="lemma", clause=e)
                del run.pc[-1]
            for ob in run.obligations:
                ob.path = case
                ob.run = run
                smt.discharge(ob, ctx.facts, timeout_ms=timeout_ms)
                if ob.verdict == "refuted" and ob.model is not None:
                    ob.cex = model_inputs(run, ob.model)
                rep.obligations.append(ob)
            rep.paths += 1
    except Unsupported as u:
        rep.undecided = "unsupported: %s" % u
    rep.time = time.time() - t0
    rep.ctx = ctx
    return rep


# ---------------------------------------------------------------------------
def verify_frame(make_ctx, reg, name, timeout_ms=10000):
    """Read-set frame obligation (C02): every field ``update`` reads on any path is a constructor parameter,
    a per-epoch field (re-initialised by reset: proved by the *_reset_fresh relational obligation), a documented
    carry-over, the input-shape memo or the running index.  A field outside these classes is a failed obligation:
    this is how a newly added, un-reset field is caught."""
    fr = reg.frames[name]
    rep = verify_function(make_ctx, reg, fr["function"], timeout_ms=timeout_ms)
    out = FnReport("frame:" + name)
    out.kind = "frame"
    out.file, out.sha, out.lines = rep.file, rep.sha, rep.lines
    out.paths = rep.paths
    out.time = rep.time
    out.notes, out.assumed = rep.notes, rep.assumed
    if rep.undecided:
        out.undecided = rep.undecided
        return out
    allowed = set(fr["params"]) | set(fr["epoch"]) | set(fr["carry"]) | set(fr["memo"]) | set(fr["index"])
    cls_names = set(c.name for c in make_ctx().repo.classes[fr["cls"]].mro)
    reads = sorted(f for (c, f) in rep.reads if c in cls_names)
    writes = sorted(f for (c, f) in rep.writes if c in cls_names)
    for f in reads:
        ob = X.Obligation("frame:%s/read-%s" % (name, f), "frame", tuple(fr["tags"]), z3.BoolVal(f in allowed), [], None,
                          "field %s read by update is a parameter, per-epoch, carry-over, memo or index field" % f)
        ob.verdict = "proved" if f in allowed else "refuted"
        ob.backend, ob.time, ob.path = "syntactic", 0.0, "-"
        ob.cex = None if f in allowed else {"unclassified_field": f}
        out.obligations.append(ob)
    for f in fr["params"]:
        ok = f not in writes
        ob = X.Obligation("frame:%s/param-%s-never-written" % (name, f), "frame", tuple(fr["tags"]), z3.BoolVal(ok), [],
                          None, "constructor parameter %s is never written by update" % f)
        ob.verdict = "proved" if ok else "refuted"
        ob.backend, ob.time, ob.path = "syntactic", 0.0, "-"
        out.obligations.append(ob)
    return out
