"""Opaque / shape-level models for pandas, sklearn and kd-tree plumbing used by the skeleton proofs.

NdRows   a 2-D data block of which only the number of rows matters (reference windows, stacked samples)
KTree    a built KDQTreePartitioner: fill() is a no-op on the abstraction, kl_distance() returns an arbitrary real
         (the proofs relate decisions to the value the detector *stores* in _test_dist, so no determinism is needed)
"""
import z3

from .sym import (T, tag, Unsupported, SStr, SOpt, Ref, SOpaque, SArr1, SFunc, HObj, HList, HSeq, HDict, INT, REAL, BOOL,
                  is_z3, is_num, z, b2i, to_real, zbool, AND, OR, NOT, cmp, arith)
from . import execu as X
from .models import HOOKS, OPAQUE_ATTRS, Models
from . import arrays as A


def rows_uf(ctx):
    return ctx.uf("ndrows_len", ctx.sort("NdRows"), INT)


def mk_rows(it, n, hint="rows"):
    """a fresh data block with n rows"""
    ctx = it.ctx
    t = it.run.fresh(ctx.sort("NdRows"), hint)
    it.run.assume(rows_uf(ctx)(t) == b2i(z(n)))
    return SOpaque("NdRows", t)


def nrows(it, v):
    if isinstance(v, SOpaque) and v.sort == "NdRows":
        t = rows_uf(it.ctx)(v.t)
        it.ctx.fact(t >= 0, key=("rows-nonneg", t.sexpr()))
        return t
    if isinstance(v, A.SNd):
        return v.shape[0]
    raise Unsupported("row count of %r" % (v,))


def _make_symbolic(models, it, reg, ty, name, fresh):
    ctx, run = it.ctx, it.run
    if ty == "NdRows":
        srt = ctx.sort("NdRows")
        t = z3.Const(name, srt) if not fresh else run.fresh(srt, name)
        run.assume(rows_uf(ctx)(t) >= 0)
        return SOpaque("NdRows", t)
    if ty == "KTree":
        srt = ctx.sort("KTree")
        return SOpaque("KTree", z3.Const(name, srt) if not fresh else run.fresh(srt, name))
    return NotImplemented


HOOKS["make_symbolic"].append(_make_symbolic)


def _len(models, it, v, o, node):
    if isinstance(v, SOpaque) and v.sort == "NdRows":
        return nrows(it, v)
    return NotImplemented


HOOKS["len"].append(_len)


def _rows_size(models, it, base, node):
    # ndarray.size: zero exactly when there are no rows (the analysed code only tests its truthiness)
    n = nrows(it, base)
    return n        # any positive multiple of the row count behaves the same under truth()


OPAQUE_ATTRS[("NdRows", "size")] = _rows_size


def _np_array_empty(models, it, v, kw, node):
    if isinstance(v, Ref):
        o = it.run.obj(v)
        if isinstance(o, HList) and not o.items:
            return mk_rows(it, 0, "empty")
    return NotImplemented


A.HOOKS_ARRAY.insert(0, _np_array_empty)


def _np_vstack(models, it, args, kw, fr, node):
    parts = args[0]
    items = it.iter_concrete(parts, node)
    total = 0
    for x in items:
        total = arith("+", total, nrows(it, x))
    models.note(it, "model:np.vstack (row count = sum of the parts' row counts; contents opaque)")
    return mk_rows(it, total, "vstack")


A.EXTRA_EXT["numpy.vstack"] = _np_vstack


def _ktree_new(it, args, kwargs, fr, node):
    it.ctx.models.note(it, "opaque:KDQTreePartitioner(...) (a fresh tree object; its own claims are C08)")
    return SOpaque("KTree", it.run.fresh(it.ctx.sort("KTree"), "ktree"))


X.CLASS_MODELS["menelaus.partitioners.KDQTreePartitioner:KDQTreePartitioner"] = _ktree_new


def _ktree_method(models, it, target, obj, name, args, kwargs, fr, node):
    if isinstance(target, SOpaque) and target.sort == "KTree" and name == "build":
        models.note(it, "opaque:KDQTreePartitioner.build")
        it.run.__dict__.setdefault("ktree_built", {})[target.t.sexpr()] = args[0]
        return None
    if isinstance(target, SOpaque) and target.sort == "KTree" and name == "leaf_counts":
        # C08 (conservation) is the assumed link: the leaf counts of the build add up to the rows built
        built = it.run.__dict__.get("ktree_built", {}).get(target.t.sexpr())
        arr = it.run.fresh(z3.ArraySort(INT, INT), "leafcounts")
        n = it.run.fresh("Int", "nleaves")
        it.run.assume(n >= 1)
        k = z3.Int("k!lc")
        it.run.assume(z3.ForAll([k], arr[k] >= 0))
        ref = it.run.alloc(HSeq(arr, z3.IntVal(0), n, "Int"))
        if built is not None:
            tot = models.vsum(it, it.run.obj(ref))
            it.run.assume(tot == b2i(z(nrows(it, built))))
            models.note(it, "assumed:C08 conservation (leaf counts of a build add up to the rows built)")
        return ref
    if isinstance(target, SOpaque) and target.sort == "KTree":
        if name == "fill":
            models.note(it, "opaque:KDQTreePartitioner.fill (counts live inside the tree; contract-level claims are in C08)")
            return target
        if name == "kl_distance":
            t = it.run.fresh("Real", "kl")
            models.note(it, "opaque:KDQTreePartitioner.kl_distance (an arbitrary real: decisions are related to the stored _test_dist)")
            return t
    return NotImplemented


HOOKS["method"].append(_ktree_method)


def _copy_hook(models, it, v, node):
    if isinstance(v, SOpaque) and v.sort in ("NdRows",):
        return mk_rows(it, nrows(it, v), "copy")
    return NotImplemented


A.HOOKS_COPY.append(_copy_hook)


# ---------------------------------------------------------------------------------------------------------------------
# pandas DataFrame / sklearn classifier as opaque values (MD3 skeleton, C19)
def _df(it, t):
    return SOpaque("DF", t)


def df_len(it, v):
    f = it.ctx.uf("df_len", it.ctx.sort("DF"), INT)
    t = f(v.t)
    it.ctx.fact(t >= 0, key=("dflen", t.sexpr()))
    return t


def df_last_fn(ctx):
    return ctx.uf("df_last", ctx.sort("DF"), ctx.sort("Row"))


def _make_symbolic2(models, it, reg, ty, name, fresh):
    ctx, run = it.ctx, it.run
    if ty in ("DF", "Clf"):
        srt = ctx.sort(ty)
        return SOpaque(ty, z3.Const(name, srt) if not fresh else run.fresh(srt, name))
    return NotImplemented


HOOKS["make_symbolic"].append(_make_symbolic2)


def _len2(models, it, v, o, node):
    if isinstance(v, SOpaque) and v.sort == "DF":
        return df_len(it, v)
    if isinstance(v, SOpaque) and v.sort == "ColList":
        t = it.ctx.uf("collist_len", it.ctx.sort("ColList"), INT)(v.t)
        return t
    return NotImplemented


HOOKS["len"].append(_len2)


def uf1(it, name, v, out):
    f = it.ctx.uf(name, it.ctx.sort(v.sort), it.ctx.sort(out))
    return SOpaque(out, f(v.t))


OPAQUE_ATTRS[("DF", "columns")] = lambda models, it, base, node: uf1(it, "df_columns", base, "Cols")
OPAQUE_ATTRS[("DF", "loc")] = lambda models, it, base, node: SOpaque("DFLoc", base.t)


def _df_method(models, it, target, obj, name, args, kwargs, fr, node):
    if isinstance(target, SOpaque):
        if target.sort == "DF" and name == "to_numpy":
            return uf1(it, "df_to_numpy", target, "NdO")
        if target.sort == "Clf" and name == "predict":
            f = it.ctx.uf("clf_predict", it.ctx.sort("Clf"), it.ctx.sort("DF"), it.ctx.sort("Pred"))
            models.note(it, "opaque:classifier.predict (deterministic uninterpreted function)")
            return SOpaque("Pred", f(target.t, args[0].t))
    return NotImplemented


HOOKS["method"].append(_df_method)


def _df_getitem(models, it, base, idx, node):
    if isinstance(base, SOpaque):
        if base.sort == "NdO" and idx == 0:
            return uf1(it, "ndo_row0", base, "Row")
        if base.sort == "DF" and isinstance(idx, SOpaque) and idx.sort == "ColList":
            f = it.ctx.uf("df_select", it.ctx.sort("DF"), it.ctx.sort("ColList"), it.ctx.sort("DF"))
            r = SOpaque("DF", f(base.t, idx.t))
            it.ctx.fact(df_len(it, r) == df_len(it, base), key=("df-select-len", r.t.sexpr()))
            return r
        if base.sort == "ColList" and isinstance(idx, int):
            f = it.ctx.uf("collist_item", it.ctx.sort("ColList"), INT, it.ctx.sort("ColName"))
            return SOpaque("ColName", f(base.t, z3.IntVal(idx)))
        if base.sort == "DFLoc":
            f = it.ctx.uf("df_loc_cols", it.ctx.sort("DF"), BOOL, it.ctx.sort("DF"))
            flag = z3.BoolVal(True)
            if isinstance(idx, tuple) and len(idx) == 2 and isinstance(idx[1], SOpaque) and idx[1].sort == "ColMask":
                g = it.ctx.uf("df_loc_mask", it.ctx.sort("DF"), it.ctx.sort("ColMask"), it.ctx.sort("DF"))
                r = SOpaque("DF", g(base.t, idx[1].t))
                it.ctx.fact(df_len(it, r) == df_len(it, SOpaque("DF", base.t)), key=("df-loc-len", r.t.sexpr()))
                return r
    return NotImplemented


HOOKS["getitem"].append(_df_getitem)


def _list_hook(models, it, v, node):
    if isinstance(v, SOpaque) and v.sort == "Cols":
        return uf1(it, "cols_to_list", v, "ColList")
    return NotImplemented


HOOKS["list"].append(_list_hook)


def _collist_binop(models, it, op, a, b, node):
    import ast as _ast
    if isinstance(op, _ast.Add) and isinstance(a, SOpaque) and isinstance(b, SOpaque) and a.sort == b.sort == "ColList":
        f = it.ctx.uf("collist_concat", it.ctx.sort("ColList"), it.ctx.sort("ColList"), it.ctx.sort("ColList"))
        return SOpaque("ColList", f(a.t, b.t))
    return NotImplemented


HOOKS["binop"].append(_collist_binop)


def _cmp_cols(models, it, sop, a, b, node):
    return NotImplemented


def _install_pandas():
    orig = Models.__init__

    def b_set(self, it, args, kw, fr, node):
        v = args[0]
        if isinstance(v, SOpaque) and v.sort == "ColList":
            return uf1(it, "collist_set", v, "ColSet")
        raise Unsupported("set(%r)" % (v,), node)

    def pd_concat(self, it, args, kw, fr, node):
        parts = [it.run.unopt(p, "pd.concat operand") if isinstance(p, SOpt) else p for p in it.iter_concrete(args[0], node)]
        if len(parts) != 2 or not all(isinstance(p, SOpaque) and p.sort == "DF" for p in parts):
            raise Unsupported("pd.concat of %r" % (parts,), node)
        f = it.ctx.uf("df_concat", it.ctx.sort("DF"), it.ctx.sort("DF"), it.ctx.sort("DF"))
        r = SOpaque("DF", f(parts[0].t, parts[1].t))
        it.ctx.fact(df_len(it, r) == df_len(it, parts[0]) + df_len(it, parts[1]), key=("concat-len", r.t.sexpr()))
        # the last row of a concatenation is the last row of its second part (when that has rows)
        dl = df_last_fn(it.ctx)
        it.ctx.fact(z3.Implies(df_len(it, parts[1]) >= 1, dl(r.t) == dl(parts[1].t)), key=("concat-last", r.t.sexpr()))
        self.note(it, "model:pd.concat (row count adds up, last row = last row of the second part; other contents opaque)")
        return r

    def accuracy(self, it, args, kw, fr, node):
        a, b = args
        f = it.ctx.uf("accuracy_score", it.ctx.sort(a.sort), it.ctx.sort(b.sort), REAL)
        t = f(a.t, b.t)
        it.ctx.fact(z3.And(t >= 0, t <= 1), key=("acc-range", t.sexpr()))
        self.note(it, "axiom:sklearn accuracy_score in [0, 1]")
        return t

    def new_init(self):
        orig(self)
        self.ext["builtins.set"] = b_set
        self.ext["pandas.concat"] = pd_concat
        self.ext["sklearn.metrics.accuracy_score"] = accuracy
    Models.__init__ = new_init


_install_pandas()


def _colmask_cmp(models, it, sop, a, b, node):
    return NotImplemented


# X.columns != target_name  /  == target_name  -> a column mask (used inside .loc[:, mask])
_orig_eq = X.Run.eq


def _eq_with_cols(self, a, b):
    if isinstance(a, SOpaque) and a.sort == "Cols" and (not isinstance(b, SOpaque) or b.sort == "ColName"):
        f = self.ctx.uf("cols_eq_mask", self.ctx.sort("Cols"), self.ctx.sort("ColName"), self.ctx.sort("ColMask"))
        nm = b.t if isinstance(b, SOpaque) else z3.Const("colname!%s" % (b,), self.ctx.sort("ColName"))
        return SOpaque("ColMask", f(a.t, nm))
    return _orig_eq(self, a, b)


X.Run.eq = _eq_with_cols


def _copy_df(models, it, v, node):
    if isinstance(v, SOpaque) and v.sort in ("DF", "Clf"):
        models.note(it, "model:copy of an opaque pandas / sklearn value (value semantics; aliasing not modelled)")
        return v
    return NotImplemented


from .arrays import HOOKS_COPY
HOOKS_COPY.append(_copy_df)
_orig_not = None


# spec vocabulary for MD3 (builds exactly the terms the code's calls produce)
def _spec_margin_signal(self, e, fr):
    selfv = self.ev(e.args[0], fr)
    Xv = self.ev(e.args[1], fr)
    fn = self.run.obj(selfv).fields["margin_calculation_function"]
    row = _df_getitem(self.ctx.models, self, uf1(self, "df_to_numpy", Xv, "NdO"), 0, e)
    clf = self.run.obj(selfv).fields["classifier"]
    return self.ctx.models.call_uf(self, fn, [selfv, row, clf], {}, e)


def _ref_cols(self, selfv):
    o = self.run.obj(selfv)
    fc = uf1(self, "cols_to_list", uf1(self, "df_columns", o.fields["reference_batch_features"], "Cols"), "ColList")
    tc = uf1(self, "cols_to_list", uf1(self, "df_columns", o.fields["reference_batch_target"], "Cols"), "ColList")
    return fc, tc


def _spec_cols_mismatch(self, e, fr):
    selfv = self.ev(e.args[0], fr)
    s = self.ev(e.args[1], fr)
    lab = uf1(self, "cols_to_list", uf1(self, "df_columns", s, "Cols"), "ColList")
    fc, tc = _ref_cols(self, selfv)
    ref = _collist_binop(self.ctx.models, self, __import__("ast").Add(), fc, tc, e)
    ln = lambda v: _len2(self.ctx.models, self, v, None, e)
    return OR(ln(lab) != ln(ref), NOT(uf1(self, "collist_set", lab, "ColSet").t == uf1(self, "collist_set", ref, "ColSet").t))


def _spec_oracle_accuracy(self, e, fr):
    """accuracy of the classifier on the completed oracle data (old oracle data + this sample)"""
    selfv = self.ev(e.args[0], fr)
    s = self.ev(e.args[1], fr)
    old = fr.spec.old
    oo = old.heap[selfv.oid] if old is not None else self.run.obj(selfv)
    od = oo.fields["oracle_data"]
    cur_heap = self.run.heap
    if isinstance(od, SOpt):
        f = self.ctx.uf("df_concat", self.ctx.sort("DF"), self.ctx.sort("DF"), self.ctx.sort("DF"))
        full = z3.If(zbool(od.isnone), s.t, f(od.val.t, s.t))
    elif od is None:
        full = s.t
    else:
        f = self.ctx.uf("df_concat", self.ctx.sort("DF"), self.ctx.sort("DF"), self.ctx.sort("DF"))
        full = f(od.t, s.t)
    fullv = SOpaque("DF", full)
    # column lists of the *old* reference
    self.run.heap = old.heap if old is not None else cur_heap
    try:
        fc, tc = _ref_cols(self, selfv)
        clf = self.run.obj(selfv).fields["classifier"]
    finally:
        self.run.heap = cur_heap
    sel = self.ctx.uf("df_select", self.ctx.sort("DF"), self.ctx.sort("ColList"), self.ctx.sort("DF"))
    xt, yt = sel(full, fc.t), sel(full, tc.t)
    pred = self.ctx.uf("clf_predict", self.ctx.sort("Clf"), self.ctx.sort("DF"), self.ctx.sort("Pred"))(clf.t, xt)
    acc = self.ctx.uf("accuracy_score", self.ctx.sort("DF"), self.ctx.sort("Pred"), REAL)(yt, pred)
    return acc


X.Interp.spec_margin_signal = _spec_margin_signal
X.Interp.spec_oracle_columns_mismatch = _spec_cols_mismatch
X.Interp.spec_oracle_accuracy = _spec_oracle_accuracy


# ---------------------------------------------------------------------------------------------------------------------
# NNSpacePartitioner as an opaque object inside NNDVI (C10 skeleton): build(ref, test) determines the NNPS matrix and
# the two membership vectors as deterministic uninterpreted functions of the two data blocks and k
def _blk(it, v):
    """(cells, rows, width) of a 2-D block as z3 terms"""
    if isinstance(v, SOpt):
        v = it.run.unopt(v, "data block")
    i, j = z3.Ints("i!blk j!blk")
    if isinstance(v, A.SNd) and v.shape is not None and len(v.shape) == 2:
        n, d = b2i(z(v.shape[0])), b2i(z(v.shape[1]))
        cell = to_real(v.elem((i, j)))
    elif isinstance(v, SOpaque) and v.sort == "RawX":
        # a raw input stands for its batch-coerced value (rows x width after validation)
        m = v.meta
        two = z3.Or(m["is_df"], m["ndim"] == 2)
        nc = it.ctx.uf("cols_len", it.ctx.sort("Cols"), INT)
        n = z3.If(two, m["d0"], z3.If(m["ndim"] == 1, m["d0"], 1))
        d = z3.If(m["is_df"], nc(m["cols"]), z3.If(m["ndim"] == 2, m["d1"], 1))
        cell = z3.If(two, m["vals"][i, j], m["vals"][z3.IntVal(0), i])
    else:
        raise Unsupported("not a 2-D data block: %r" % (v,))
    # canonical form: cells outside the block are 0, so that two blocks with the same cells are the same array
    return z3.Lambda([i, j], z3.If(z3.And(i >= 0, i < n, j >= 0, j < d), cell, z3.RealVal(0))), n, d
    if False:
        pass


def nnsp_parts(it, ref, test, k):
    ctx = it.ctx
    B = z3.ArraySort(INT, INT, REAL)
    ra, rn, rd = _blk(it, ref)
    ta, tn, td = _blk(it, test)
    kk = b2i(z(k))
    sig = [B, INT, INT, B, INT, INT, INT]
    args = [ra, rn, rd, ta, tn, td, kk]
    M = ctx.uf("nnsp_matrix", *(sig + [ctx.sort("Mat")]))(*args)
    L = ctx.uf("nnsp_len", *(sig + [INT]))(*args)
    v1 = ctx.uf("nnsp_v1", *(sig + [z3.ArraySort(INT, REAL)]))(*args)
    v2 = ctx.uf("nnsp_v2", *(sig + [z3.ArraySort(INT, REAL)]))(*args)
    ctx.fact(L >= 1, key=("nnsp-len", L.sexpr()))
    st = it.run.__dict__.setdefault("size_terms", [])
    if not any(L.eq(x) for x in st):
        st.append(L)
    return SOpaque("Mat", M), v1, v2, L


def _nnsp_new(it, args, kwargs, fr, node):
    it.ctx.models.note(it, "opaque:NNSpacePartitioner (matrix / membership vectors are uninterpreted functions of the two blocks and k)")
    ref = it.run.alloc(HObj("!NNSP", {"k": args[0], "built": None}))
    return ref


X.CLASS_MODELS["menelaus.partitioners.NNSpacePartitioner:NNSpacePartitioner"] = _nnsp_new


def _nnsp_method(models, it, target, obj, name, args, kwargs, fr, node):
    if isinstance(obj, HObj) and obj.cls == "!NNSP" and name == "build":
        obj.fields["built"] = (args[0], args[1])
        return None
    return NotImplemented


HOOKS["method"].insert(0, _nnsp_method)


def _nnsp_attr(models, it, base, obj, attr, node):
    if isinstance(obj, HObj) and obj.cls == "!NNSP":
        if attr == "build":
            return SFunc("objmethod", target=base, name=attr)
        if attr in ("nnps_matrix", "v1", "v2"):
            if obj.fields.get("built") is None:
                raise X.PyRaise("AttributeError", "partitioner not built")
            M, v1, v2, L = nnsp_parts(it, obj.fields["built"][0], obj.fields["built"][1], obj.fields["k"])
            if attr == "nnps_matrix":
                return M
            return it.run.alloc(HSeq(v1 if attr == "v1" else v2, z3.IntVal(0), L, "Real", nd=True))
    return NotImplemented


HOOKS["attr"].insert(0, _nnsp_attr)


def _spec_nnsp(which):
    def f(self, e, fr):
        M, v1, v2, L = nnsp_parts(self, self.ev(e.args[0], fr), self.ev(e.args[1], fr), self.ev(e.args[2], fr))
        if which == "M":
            return M
        return self.run.alloc(HSeq(v1 if which == "v1" else v2, z3.IntVal(0), L, "Real", nd=True))
    return f


X.Interp.spec_nnsp_matrix = _spec_nnsp("M")
X.Interp.spec_nnsp_v1 = _spec_nnsp("v1")
X.Interp.spec_nnsp_v2 = _spec_nnsp("v2")


# ---------------------------------------------------------------------------------------------------------------------
# DataFrames built from validated batches (HistogramDensityMethod, C07 skeleton): opaque values with a row count; the
# frame built from a block is a deterministic function of the block's cells
def df_of_block(it, v):
    cells, n, d = _blk(it, v)
    f = it.ctx.uf("df_of_block", z3.ArraySort(INT, INT, REAL), INT, INT, it.ctx.sort("DF"))
    r = SOpaque("DF", f(cells, n, d))
    it.ctx.fact(df_len(it, r) == n, key=("df-of-block-len", r.t.sexpr()))
    w = it.ctx.uf("df_width", it.ctx.sort("DF"), INT)
    it.ctx.fact(w(r.t) == d, key=("df-of-block-width", r.t.sexpr()))
    return r


_prev_pd_dataframe = A.EXTRA_EXT.get("pandas.DataFrame")


def _pd_dataframe_nd(models, it, args, kw, fr, node):
    if args and isinstance(args[0], A.SNd):
        models.note(it, "model:pd.DataFrame(validated array, columns=...) is an opaque frame determined by the array's cells")
        return df_of_block(it, args[0])
    if _prev_pd_dataframe is None:
        raise Unsupported("pd.DataFrame(%r)" % (args,), node)
    return _prev_pd_dataframe(models, it, args, kw, fr, node)


A.EXTRA_EXT["pandas.DataFrame"] = _pd_dataframe_nd
OPAQUE_ATTRS[("DF", "shape")] = lambda models, it, base, node: (df_len(it, base), it.ctx.uf("df_width", it.ctx.sort("DF"), INT)(base.t))
OPAQUE_ATTRS[("DF", "iloc")] = lambda models, it, base, node: SOpaque("DFILoc", base.t)
OPAQUE_ATTRS[("DF", "values")] = lambda models, it, base, node: SOpaque("NdO", it.ctx.uf("df_to_numpy", it.ctx.sort("DF"), it.ctx.sort("NdO"))(base.t))


def _iloc_getitem(models, it, base, idx, node):
    if isinstance(base, SOpaque) and base.sort == "DFILoc":
        if isinstance(idx, tuple) and len(idx) == 2 and tag(idx[0]) == "slice" and idx[0][1] is None and idx[0][2] is None and is_num(idx[1]):
            f = it.ctx.uf("df_column", it.ctx.sort("DF"), INT, it.ctx.sort("Ser"))
            return SOpaque("Ser", f(base.t, b2i(z(idx[1]))))
        raise Unsupported("iloc[%r]" % (idx,), node)
    if isinstance(base, SOpaque) and base.sort in ("Hists",):
        f = it.ctx.uf("hist_of", it.ctx.sort("Hists"), INT, it.ctx.sort("Hist"))
        return SOpaque("Hist", f(base.t, b2i(z(idx))))
    return NotImplemented


HOOKS["getitem"].insert(0, _iloc_getitem)


def _np_concatenate(models, it, args, kw, fr, node):
    parts = args[0] if args else ()
    if isinstance(parts, tuple) and parts and all(isinstance(p, SOpaque) and p.sort == "Ser" for p in parts):
        models.note(it, "opaque:np.concatenate of two columns (only its min / max are used, as arbitrary reals)")
        return SOpaque("Ser", it.run.fresh(it.ctx.sort("Ser"), "concat"))
    raise Unsupported("np.concatenate(%r)" % (args,), node)


A.EXTRA_EXT["numpy.concatenate"] = _np_concatenate


def _ser_method(models, it, target, obj, name, args, kwargs, fr, node):
    if isinstance(target, SOpaque) and target.sort == "Ser" and name in ("min", "max"):
        return it.ctx.uf("ser_" + name, it.ctx.sort("Ser"), REAL)(target.t)
    return NotImplemented


HOOKS["method"].insert(0, _ser_method)


def _make_symbolic3(models, it, reg, ty, name, fresh):
    if ty in ("Hists", "Hist", "Ser"):
        srt = it.ctx.sort(ty)
        return SOpaque(ty, z3.Const(name, srt) if not fresh else it.run.fresh(srt, name))
    return NotImplemented


HOOKS["make_symbolic"].append(_make_symbolic3)


def _spec_df_of(self, e, fr):
    return df_of_block(self, self.ev(e.args[0], fr))


def _spec_df_concat(self, e, fr):
    a, b = self.ev(e.args[0], fr), self.ev(e.args[1], fr)
    f = self.ctx.uf("df_concat", self.ctx.sort("DF"), self.ctx.sort("DF"), self.ctx.sort("DF"))
    r = SOpaque("DF", f(a.t, b.t))
    self.ctx.fact(df_len(self, r) == df_len(self, a) + df_len(self, b), key=("concat-len", r.t.sexpr()))
    dl = df_last_fn(self.ctx)
    self.ctx.fact(z3.Implies(df_len(self, b) >= 1, dl(r.t) == dl(b.t)), key=("concat-last", r.t.sexpr()))
    return r


def _spec_df_last(self, e, fr):
    v = self.ev(e.args[0], fr)
    return SOpaque("Row", df_last_fn(self.ctx)(v.t))


X.Interp.spec_df_last = _spec_df_last
X.Interp.spec_df_of = _spec_df_of
X.Interp.spec_df_concat = _spec_df_concat
