"""Opaque / shape-level models for pandas, sklearn and kd-tree plumbing used by the skeleton proofs.

NdRows   a 2-D data block of which only the number of rows matters (reference windows, stacked samples)
KTree    a built KDQTreePartitioner: fill() is a no-op on the abstraction, kl_distance() returns an arbitrary real
         (the proofs relate decisions to the value the detector *stores* in _test_dist, so no determinism is needed)
"""
import z3

from .sym import (T, tag, Unsupported, SStr, SOpt, Ref, SOpaque, SArr1, SFunc, HObj, HList, HSeq, HDict, INT, REAL, BOOL,
                  is_z3, is_num, z, b2i, to_real, zbool, AND, OR, NOT, cmp, arith)
from . import execu as X
from .models import HOOKS, OPAQUE_ATTRS, Models
from . import arrays as A


def rows_uf(ctx):
    return ctx.uf("ndrows_len", ctx.sort("NdRows"), INT)


def mk_rows(it, n, hint="rows"):
    """a fresh data block with n rows"""
    ctx = it.ctx
    t = it.run.fresh(ctx.sort("NdRows"), hint)
    it.run.assume(rows_uf(ctx)(t) == b2i(z(n)))
    return SOpaque("NdRows", t)


def nrows(it, v):
    if isinstance(v, SOpaque) and v.sort == "NdRows":
        t = rows_uf(it.ctx)(v.t)
        it.ctx.fact(t >= 0, key=("rows-nonneg", t.sexpr()))
        return t
    if isinstance(v, A.SNd):
        return v.shape[0]
    raise Unsupported("row count of %r" % (v,))


def _make_symbolic(models, it, reg, ty, name, fresh):
    ctx, run = it.ctx, it.run
    if ty == "NdRows":
        srt = ctx.sort("NdRows")
        t = z3.Const(name, srt) if not fresh else run.fresh(srt, name)
        run.assume(rows_uf(ctx)(t) >= 0)
        return SOpaque("NdRows", t)
    if ty == "KTree":
        srt = ctx.sort("KTree")
        return SOpaque("KTree", z3.Const(name, srt) if not fresh else run.fresh(srt, name))
    return NotImplemented


HOOKS["make_symbolic"].append(_make_symbolic)


def _len(models, it, v, o, node):
    if isinstance(v, SOpaque) and v.sort == "NdRows":
        return nrows(it, v)
    return NotImplemented


HOOKS["len"].append(_len)


def _rows_size(models, it, base, node):
    # ndarray.size: zero exactly when there are no rows (the analysed code only tests its truthiness)
    n = nrows(it, base)
    return n        # any positive multiple of the row count behaves the same under truth()


OPAQUE_ATTRS[("NdRows", "size")] = _rows_size


def _np_array_empty(models, it, v, kw, node):
    if isinstance(v, Ref):
        o = it.run.obj(v)
        if isinstance(o, HList) and not o.items:
            return mk_rows(it, 0, "empty")
    return NotImplemented


A.HOOKS_ARRAY.insert(0, _np_array_empty)


def _np_vstack(models, it, args, kw, fr, node):
    parts = args[0]
    items = it.iter_concrete(parts, node)
    total = 0
    for x in items:
        total = arith("+", total, nrows(it, x))
    models.note(it, "model:np.vstack (row count = sum of the parts' row counts; contents opaque)")
    return mk_rows(it, total, "vstack")


A.EXTRA_EXT["numpy.vstack"] = _np_vstack


def _ktree_method(models, it, target, obj, name, args, kwargs, fr, node):
    if isinstance(target, SOpaque) and target.sort == "KTree":
        if name == "fill":
            models.note(it, "opaque:KDQTreePartitioner.fill (counts live inside the tree; contract-level claims are in C08)")
            return target
        if name == "kl_distance":
            t = it.run.fresh("Real", "kl")
            models.note(it, "opaque:KDQTreePartitioner.kl_distance (an arbitrary real: decisions are related to the stored _test_dist)")
            return t
    return NotImplemented


HOOKS["method"].append(_ktree_method)


def _copy_hook(models, it, v, node):
    if isinstance(v, SOpaque) and v.sort in ("NdRows",):
        return mk_rows(it, nrows(it, v), "copy")
    return NotImplemented


A.HOOKS_COPY.append(_copy_hook)
