"""Model for menelaus.ensemble.ensemble (C12): members are values of an uninterpreted sort ``Det`` whose *state*
lives in a store  mstore : Det -> MState  (a z3 array kept as ghost state of the run).  A member's
update / reset / set_reference are uninterpreted state transformers

    upd(state, X, y_true, y_pred)   rst(state)   setref(state, X, y_true, y_pred)

so "each member is in exactly the state it would be in had it been updated on its own" is literally
``mstate(member) == upd(old mstate(member), selected X, y_true, y_pred)``.  Distinct members have independent
states by the array semantics (A-DISTINCT is a stated precondition: the members are pairwise distinct objects).

ODict[Det]    insertion-ordered dict: key sequence (sort Key) + value map Key -> Det
SelMap        column selectors: defaultdict(identity) updated with the user's dict: has(k), apply(k, X)
Election      callable object: elect(election, member sequence, store)  (the value its call returns)
"""
import ast
import z3

from .sym import (T, tag, Unsupported, SStr, SOpt, Ref, SOpaque, SFunc, HObj, HList, HSeq, HDict, INT, REAL, BOOL,
                  is_z3, z, b2i, zbool, AND, OR, NOT)
from . import execu as X
from .models import HOOKS, OPAQUE_ATTRS, Models

MKEY = (0, "mstore")


class HOrdDict:
    def __init__(self, keys, vals, elem="Det"):
        self.keys = keys        # HSeq of Key terms
        self.vals = vals        # z3 Array Key -> elem sort
        self.elem = elem

    def clone(self):
        return HOrdDict(HSeq(self.keys.arr, self.keys.lo, self.keys.hi, self.keys.elem), self.vals, self.elem)

    def deep_eq(self, it, other, ha, hb):
        return AND(it.run.seq_eq(self.keys, other.keys), self.vals == other.vals)

    def to_json(self, run, m, depth):
        return "<ordered dict>"


class HKeyMap:
    """a dict under construction whose keys are member identifiers: has : Key -> Bool, vals : Key -> elem"""
    def __init__(self, has, vals, elem="Recs"):
        self.has, self.vals, self.elem = has, vals, elem

    def clone(self):
        return HKeyMap(self.has, self.vals, self.elem)

    def deep_eq(self, it, other, ha, hb):
        return AND(self.has == other.has, self.vals == other.vals)

    def to_json(self, run, m, depth):
        return "<dict keyed by member identifiers>"


class HSelMap:
    def __init__(self, t):
        self.t = t

    def clone(self):
        return HSelMap(self.t)

    def deep_eq(self, it, other, ha, hb):
        return self.t == other.t


def sorts(ctx):
    return ctx.sort("Det"), ctx.sort("MState"), ctx.sort("Key"), ctx.sort("Arg")


def mstore(it):
    run = it.run
    if MKEY not in run.ghost:
        det, ms, key, arg = sorts(it.ctx)
        run.ghost[MKEY] = z3.Const("mstore0", z3.ArraySort(det, ms))
    return run.ghost[MKEY]


def arg_term(it, v):
    det, ms, key, arg = sorts(it.ctx)
    if v is None:
        return z3.Const("arg_none", arg)
    if isinstance(v, SOpaque) and v.sort == "Arg":
        return v.t
    raise Unsupported("ensemble model: argument %r" % (v,))


def _make_symbolic(models, it, reg, ty, name, fresh):
    run, ctx = it.run, it.ctx
    det, ms, key, arg = sorts(ctx)
    if ty == "ODict[Det]":
        karr = z3.Const(name + "!keys", z3.ArraySort(INT, key)) if not fresh else run.fresh(z3.ArraySort(INT, key), name + "!keys")
        n = z3.Int(name + "!n") if not fresh else run.fresh("Int", name + "!n")
        run.assume(n >= 0)
        vals = z3.Const(name + "!vals", z3.ArraySort(key, det)) if not fresh else run.fresh(z3.ArraySort(key, det), name + "!vals")
        # dict keys are pairwise distinct
        i, j = z3.Ints("i!dk j!dk")
        ctx.fact(z3.ForAll([i, j], z3.Implies(z3.And(0 <= i, i < j, j < n), karr[i] != karr[j])), key=("dkeys", karr.sexpr()))
        mstore(it)
        return run.alloc(HOrdDict(HSeq(karr, z3.IntVal(0), n, "Key"), vals))
    if ty.startswith("KeyMap["):
        elem = ty[7:-1]
        has = run.fresh(z3.ArraySort(key, BOOL), name + "!has")
        vals = run.fresh(z3.ArraySort(key, ctx.sort(elem)), name + "!vals")
        return run.alloc(HKeyMap(has, vals, elem))
    if ty == "SelMap":
        srt = ctx.sort("SelMapT")
        t = z3.Const(name, srt) if not fresh else run.fresh(srt, name)
        return run.alloc(HSelMap(t))
    if ty == "Election":
        srt = ctx.sort("Election")
        return SOpaque("Election", z3.Const(name, srt) if not fresh else run.fresh(srt, name))
    if ty == "Arg":
        return SOpaque("Arg", z3.Const(name, arg) if not fresh else run.fresh(arg, name))
    if ty == "OptArg":
        return SOpaque("Arg", z3.Const(name, arg) if not fresh else run.fresh(arg, name))
    return NotImplemented


HOOKS["make_symbolic"].append(_make_symbolic)


def _iter_symbolic(models, it, iterable, node):
    if isinstance(iterable, Ref):
        o = it.run.obj(iterable)
        if isinstance(o, HOrdDict):
            k = o.keys
            return k.hi - k.lo, (lambda i: SOpaque("Key", k.arr[k.lo + b2i(z(i))]))
    if tag(iterable) == "odict_items":
        o = iterable[1]
        k = o.keys
        return k.hi - k.lo, (lambda i: (SOpaque("Key", k.arr[k.lo + b2i(z(i))]),
                                        SOpaque(o.elem, o.vals[k.arr[k.lo + b2i(z(i))]])))
    return NotImplemented


HOOKS["iter_symbolic"].append(_iter_symbolic)


def _getitem(models, it, base, idx, node):
    if isinstance(base, Ref):
        o = it.run.obj(base)
        if isinstance(o, HOrdDict):
            if not (isinstance(idx, SOpaque) and idx.sort == "Key"):
                raise Unsupported("ordered dict subscript", node)
            return it.run.wrap_elem(o.vals[idx.t], o.elem)
        if isinstance(o, HSelMap):
            return SFunc("model", fn=lambda it2, args, kw, fr, nd, o=o, idx=idx: sel_apply(it2, o, idx, args[0]))
    return NotImplemented


HOOKS["getitem"].append(_getitem)


def sel_apply(it, selmap, keyv, Xv):
    ctx = it.ctx
    det, ms, key, arg = sorts(ctx)
    srt = ctx.sort("SelMapT")
    has = ctx.uf("sel_has", srt, key, BOOL)
    app = ctx.uf("sel_apply", srt, key, arg, arg)
    x = arg_term(it, Xv)
    return SOpaque("Arg", z3.If(has(selmap.t, keyv.t), app(selmap.t, keyv.t, x), x))


def _setitem(models, it, base, idx, val, node):
    if isinstance(base, Ref):
        o = it.run.obj(base)
        if isinstance(o, HKeyMap) and isinstance(idx, SOpaque) and idx.sort == "Key":
            if not (isinstance(val, SOpaque) and val.sort == o.elem):
                raise Unsupported("value stored under a member identifier is not a %s" % o.elem, node)
            o.has = z3.Store(o.has, idx.t, z3.BoolVal(True))
            o.vals = z3.Store(o.vals, idx.t, val.t)
            return True
        if isinstance(o, HOrdDict) and isinstance(idx, SOpaque) and idx.sort == "Key":
            # building a result dict key by key in iteration order (retraining_recs): only the value map is tracked
            o.vals = z3.Store(o.vals, idx.t, it.elem_term(val, o.elem) if not isinstance(val, SOpaque) else val.t)
            o.written = getattr(o, "written", [])
            return True
    return NotImplemented


HOOKS["setitem"].append(_setitem)


def _len(models, it, v, o, node):
    if isinstance(o, HOrdDict):
        return z3.simplify(o.keys.hi - o.keys.lo)
    return NotImplemented


HOOKS["len"].append(_len)


def _truth(run, v, o):
    if isinstance(o, HOrdDict):
        n = z3.simplify(o.keys.hi - o.keys.lo)
        return n != 0
    return NotImplemented


X.TRUTH_HOOKS.append(_truth)


def _method(models, it, target, obj, name, args, kwargs, fr, node):
    run, ctx = it.run, it.ctx
    if isinstance(obj, HOrdDict):
        if name == "copy":
            return run.alloc(obj.clone())
        if name == "values":
            k = obj.keys
            i = z3.Int("i!vals%d" % run.fresh_n)
            run.fresh_n += 1
            return run.alloc(HSeq(z3.Lambda([i], obj.vals[k.arr[k.lo + i]]), z3.IntVal(0), z3.simplify(k.hi - k.lo), obj.elem))
        if name == "items":
            return T(("odict_items", obj))
        if name == "keys":
            return run.alloc(HSeq(obj.keys.arr, obj.keys.lo, obj.keys.hi, "Key"))
    if isinstance(obj, HSelMap) and name == "update":
        other = args[0]
        oo = run.obj(other)
        if isinstance(oo, HSelMap):
            obj.t = oo.t            # defaultdict(identity) updated with the user's selectors
            return None
        if isinstance(oo, HDict) and not oo.items:
            return None
        raise Unsupported("column_selectors.update(%r)" % (other,), node)
    if isinstance(target, SOpaque) and target.sort == "Det" and name in ("update", "reset", "set_reference"):
        det, ms, key, arg = sorts(ctx)
        st = mstore(it)
        cur = st[target.t]
        if name == "reset":
            if args or kwargs:
                raise Unsupported("member.reset with arguments")
            new = ctx.uf("rst", ms, ms)(cur)
        else:
            names = ["X", "y_true", "y_pred"]
            vals = {}
            for i, a in enumerate(args):
                vals[names[i]] = a
            vals.update(kwargs)
            f = ctx.uf("upd" if name == "update" else "setref", ms, arg, arg, arg, ms)
            new = f(cur, arg_term(it, vals.get("X")), arg_term(it, vals.get("y_true")), arg_term(it, vals.get("y_pred")))
        run.ghost[MKEY] = z3.Store(st, target.t, new)
        models.note(it, "model:ensemble member (uninterpreted state transformers upd / rst / setref over a member store; "
                        "A-DISTINCT: members are pairwise distinct objects)")
        return None
    return NotImplemented


HOOKS["method"].append(_method)


def _det_drift_state(models, it, base, node):
    ctx = it.ctx
    if MKEY in it.run.ghost:
        det, ms, key, arg = sorts(ctx)
        t = ctx.uf("ds", ms, INT)(it.run.ghost[MKEY][base.t])
    else:
        t = ctx.uf("drift_state_of", ctx.sort("Det"), INT)(base.t)
    ctx.fact(t >= 0, key=("ds-dom", t.sexpr()))
    return SOpt(t == 0, SStr(t))


def _det_recs(models, it, base, node):
    ctx = it.ctx
    det, ms, key, arg = sorts(ctx)
    return SOpaque("Recs", ctx.uf("recs", ms, ctx.sort("Recs"))(mstore(it)[base.t]))


OPAQUE_ATTRS[("Det", "drift_state")] = _det_drift_state
OPAQUE_ATTRS[("Det", "retraining_recs")] = _det_recs


def _hasattr(models, it, v, o, nm, node):
    return NotImplemented


def _hasattr_opaque(self, it, args, kw, fr, node):
    v, nm = args
    if isinstance(v, SOpaque) and v.sort == "Det":
        return it.ctx.uf("has_attr_%s" % nm, it.ctx.sort("Det"), BOOL)(v.t)
    return _orig_hasattr(self, it, args, kw, fr, node)


_orig_init = Models.__init__
_orig_hasattr = None


def _new_init(self):
    global _orig_hasattr
    _orig_init(self)
    _orig_hasattr = self.ext["builtins.hasattr"]
    self.ext["builtins.hasattr"] = _hasattr_opaque
    self.ext["collections.defaultdict"] = lambda self_, it, args, kw, fr, node: it.run.alloc(
        HSelMap(z3.Const("selmap_default", it.ctx.sort("SelMapT"))))
    it_ = None


Models.__init__ = _new_init


def _call_opaque(self, it, fn, args, kwargs, fr, node):
    if fn.sort == "Election":
        ctx = it.ctx
        det, ms, key, arg = sorts(ctx)
        seq = it.run.obj(args[0])
        if not isinstance(seq, HSeq):
            raise Unsupported("election argument", node)
        f = ctx.uf("elect", ctx.sort("Election"), z3.ArraySort(INT, det), INT, z3.ArraySort(det, ms), INT)
        from .seqs import as_array
        arr, _el = as_array(it, args[0])
        t = f(fn.t, arr, seq.hi - seq.lo, mstore(it))
        # elections return None / 'warning' / 'drift' (proved for the four election classes under C13)
        ctx.fact(z3.Or(t == 0, t == ctx.intern("drift"), t == ctx.intern("warning")), key=("elect-dom", t.sexpr()))
        self.note(it, "model:election object (the value its call returns on the member list in the current member states)")
        return SOpt(t == 0, SStr(t))
    raise Unsupported("call of opaque value %s" % fn.sort, node)


Models.call_opaque = _call_opaque


def _dict_hook(models, it, v, node):
    return NotImplemented


# -- dict comprehension over items(): {k: f(v) for k, v in d.items()} ------------------------------------------
def _comp(models, it, e, iterable, fr, kind):
    if kind == "dict" and tag(iterable) == "odict_items":
        o = iterable[1]
        g = e.generators[0]
        if g.ifs or not (isinstance(g.target, ast.Tuple) and len(g.target.elts) == 2):
            raise Unsupported("dict comprehension shape", e)
        kname, vname = g.target.elts[0].id, g.target.elts[1].id
        if not (isinstance(e.key, ast.Name) and e.key.id == kname):
            raise Unsupported("dict comprehension key", e)
        det, ms, key, arg = sorts(it.ctx)
        kk = z3.Const("k!comp%d" % it.run.fresh_n, key)
        it.run.fresh_n += 1
        sub = X.Frame({kname: SOpaque("Key", kk), vname: SOpaque(o.elem, o.vals[kk])}, fr.fi, fr.cls, parent=fr, module=fr.module)
        sub.spec = X.SpecEnv()
        sub.spec.old = it.run.old_state
        it.run.spec_depth += 1
        try:
            v = it.ev(e.value, sub)
        finally:
            it.run.spec_depth -= 1
        from .seqs import kind_of_value
        k = kind_of_value(it, v)
        return it.run.alloc(HOrdDict(HSeq(o.keys.arr, o.keys.lo, o.keys.hi, "Key"), z3.Lambda([kk], it.elem_term(v, k)), k))
    return NotImplemented


HOOKS["comp"].append(_comp)


# -- spec vocabulary -------------------------------------------------------------------------------------------
def _od(self, e, fr, i=0):
    v = self.ev(e.args[i], fr)
    o = self.run.obj(v)
    if not isinstance(o, HOrdDict):
        raise Unsupported("expected an ordered dict")
    return o


def _spec_nmembers(self, e, fr):
    o = _od(self, e, fr)
    return z3.simplify(o.keys.hi - o.keys.lo)


def _spec_key(self, e, fr):
    o = _od(self, e, fr)
    i = b2i(z(self.ev(e.args[1], fr)))
    return SOpaque("Key", o.keys.arr[o.keys.lo + i])


def _spec_member(self, e, fr):
    o = _od(self, e, fr)
    i = b2i(z(self.ev(e.args[1], fr)))
    return self.run.wrap_elem(o.vals[o.keys.arr[o.keys.lo + i]], o.elem)


def _spec_value_at(self, e, fr):
    o = _od(self, e, fr)
    k = self.ev(e.args[1], fr)
    return self.run.wrap_elem(o.vals[k.t], o.elem)


def _spec_mstate(self, e, fr):
    d = self.ev(e.args[0], fr)
    return SOpaque("MState", mstore(self)[d.t])


def _uf_state(name, nargs):
    def f(self, e, fr):
        det, ms, key, arg = sorts(self.ctx)
        s = self.ev(e.args[0], fr)
        rest = [arg_term(self, self.ev(a, fr)) for a in e.args[1:]]
        fn = self.ctx.uf(name, *([ms] + [arg] * nargs + [ms]))
        return SOpaque("MState", fn(s.t, *rest))
    return f


def _spec_sel(self, e, fr):
    sm = self.run.obj(self.ev(e.args[0], fr))
    k = self.ev(e.args[1], fr)
    return sel_apply(self, sm, k, self.ev(e.args[2], fr))


def _spec_elect(self, e, fr):
    el = self.ev(e.args[0], fr)
    o = _od(self, e, fr, 1)
    det, ms, key, arg = sorts(self.ctx)
    i = z3.Int("i!el")
    arr = z3.Lambda([i], o.vals[o.keys.arr[o.keys.lo + i]])
    f = self.ctx.uf("elect", self.ctx.sort("Election"), z3.ArraySort(INT, det), INT, z3.ArraySort(det, ms), INT)
    t = f(el.t, arr, o.keys.hi - o.keys.lo, mstore(self))
    return SOpt(t == 0, SStr(t))


def _spec_recs_of(self, e, fr):
    d = self.ev(e.args[0], fr)
    return _det_recs(self.ctx.models, self, d, e)


def _spec_has_recs(self, e, fr):
    d = self.ev(e.args[0], fr)
    return self.ctx.uf("has_attr_retraining_recs", self.ctx.sort("Det"), BOOL)(d.t)


def _km(self, e, fr):
    v = self.ev(e.args[0], fr)
    o = self.run.obj(v) if isinstance(v, Ref) else None
    det, ms, key, arg = sorts(self.ctx)
    if isinstance(o, HDict) and not o.items:
        return HKeyMap(z3.K(key, z3.BoolVal(False)), z3.Const("kval_empty", z3.ArraySort(key, self.ctx.sort("Recs"))))
    if not isinstance(o, HKeyMap):
        raise Unsupported("expected a dict keyed by member identifiers")
    return o


def _spec_khas(self, e, fr):
    return _km(self, e, fr).has[self.ev(e.args[1], fr).t]


def _spec_kval(self, e, fr):
    o = _km(self, e, fr)
    return SOpaque(o.elem, o.vals[self.ev(e.args[1], fr).t])


def _kin(ctx):
    """kin(keys, vals, k, q): q is the identifier of one of the first k members and that member has retraining_recs"""
    f = getattr(ctx, "_kin_fn", None)
    if f is None:
        det, ms, key, arg = sorts(ctx)
        ka, va = z3.ArraySort(INT, key), z3.ArraySort(key, det)
        f = z3.RecFunction("kin", ka, va, INT, key, BOOL)
        a, v, k, q = z3.Const("kin!a", ka), z3.Const("kin!v", va), z3.Int("kin!k"), z3.Const("kin!q", key)
        has = ctx.uf("has_attr_retraining_recs", det, BOOL)
        z3.RecAddDefinition(f, [a, v, k, q], z3.If(k <= 0, z3.BoolVal(False),
                                                    z3.Or(f(a, v, k - 1, q), z3.And(a[k - 1] == q, has(v[a[k - 1]])))))
        ctx._kin_fn = f
    return f


def _spec_kexact(self, e, fr):
    """kexact(m, d, k): the keys of m are exactly the identifiers of those of the first k members of d that have
    retraining_recs (nothing else is in m)"""
    m = _km(self, e, fr)
    o = _od(self, e, fr, 1)
    k = b2i(z(self.ev(e.args[2], fr)))
    det, ms, key, arg = sorts(self.ctx)
    q = z3.Const("q!kexact", key)
    if not z3.is_true(z3.simplify(o.keys.lo == 0)):
        raise Unsupported("kexact on a dict view with an offset")
    return z3.ForAll([q], m.has[q] == _kin(self.ctx)(o.keys.arr, o.vals, k, q))


X.Interp.spec_khas = _spec_khas
X.Interp.spec_kval = _spec_kval
X.Interp.spec_kexact = _spec_kexact
X.Interp.spec_nmembers = _spec_nmembers
X.Interp.spec_key = _spec_key
X.Interp.spec_member = _spec_member
X.Interp.spec_value_at = _spec_value_at
X.Interp.spec_mstate = _spec_mstate
X.Interp.spec_upd = _uf_state("upd", 3)
X.Interp.spec_setref = _uf_state("setref", 3)
X.Interp.spec_rst = _uf_state("rst", 0)
X.Interp.spec_sel = _spec_sel
X.Interp.spec_elect = _spec_elect
X.Interp.spec_recs_of = _spec_recs_of
X.Interp.spec_has_recs = _spec_has_recs


# -- an argument handed to the ensemble (X, y_true, y_pred, or what a column selector returns) may be None ----------------
_orig_is = X.Interp.is_


def _is_with_args(self, a, b):
    a, b = self.force(a), self.force(b)
    for x, y in ((a, b), (b, a)):
        if isinstance(x, SOpaque) and x.sort == "Arg" and y is None:
            det, ms, key, arg = sorts(self.ctx)
            return x.t == z3.Const("arg_none", arg)
    return _orig_is(self, a, b)


X.Interp.is_ = _is_with_args
