"""Abstract user inputs (RawY / RawX) and the shape-level numpy array model used by input validation.

RawY   a label argument as the user passes it: any container; abstracted by the number of elements it holds
       after ``np.array(y).ravel()`` and by its first element (a Label, or a Bit for LinearFourRates).
RawX   a feature argument: DataFrame (columns object, row/column counts, values) or something array-like
       (0-, 1- or 2-dimensional after ``np.array`` -- assumption A-NDIM: at most two dimensions).
SNd    numpy array value: shape tuple (concrete length, possibly symbolic entries) + element function.
"""
import z3

from .sym import (T, tag, Unsupported, SStr, SOpt, SExt, Ref, SOpaque, SArr1, SFunc, HObj, HList, HSeq, HDict,
                  Label, INT, REAL, BOOL, is_z3, is_num, is_int, z, b2i, to_real, zbool, AND, OR, NOT, cmp, arith)
from . import execu as X
from .models import HOOKS, OPAQUE_ATTRS, Models


class SNd:
    """array with shape ``shape`` (tuple); element access through ``elem(idx tuple) -> value``; ``src`` identifies
    the underlying buffer (for aliasing / ownership analysis): ('view', raw) | ('fresh', n)"""

    def __init__(self, shape, elem, src=None, kind="Real", size=None):
        self.shape = tuple(shape) if shape is not None else None      # None: dimension unknown, only ``size``
        self.size = size
        self.elem = elem
        self.src = src
        self.kind = kind

    def __repr__(self):
        return "SNd(%s)" % (self.shape,)


def dims_all_one(run, shape):
    for d in shape:
        if isinstance(d, int):
            if d != 1:
                return False
        else:
            s = run.solver()
            s.set("timeout", 3000)
            s.add(d != 1)
            if s.check() != z3.unsat:
                return False
    return True


def _scalarize(run, v):
    if isinstance(v, SNd) and v.shape is not None and dims_all_one(run, v.shape):
        return SArr1(v.elem(tuple(0 for _ in v.shape)), len(v.shape))
    return None


X.SCALARIZE.append(_scalarize)


def nd_scalar(it, a):
    """SNd whose shape is provably all ones -> SArr1"""
    if dims_all_one(it.run, a.shape):
        return SArr1(a.elem(tuple(0 for _ in a.shape)), len(a.shape))
    return None


# -- symbolic raw inputs ------------------------------------------------------
def _make_symbolic(models, it, reg, ty, name, fresh):
    run = it.run
    ctx = it.ctx
    if ty in ("RawY", "RawYBit"):
        raw = ctx.sort("RawY")
        t = z3.Const(name, raw) if not fresh else run.fresh(raw, name)
        size = ctx.uf("rawy_size", raw, INT)(t)
        run.assume(size >= 0)
        if ty == "RawY":
            first = ctx.uf("rawy_first", raw, Label)(t)
        else:
            first = ctx.uf("rawy_first_bit", raw, INT)(t)
            run.assume(z3.Or(first == 0, first == 1))
        return SOpaque("RawY", t, {"size": size, "first": first})
    if ty == "RawX":
        raw = ctx.sort("RawX")
        t = z3.Const(name, raw) if not fresh else run.fresh(raw, name)
        return raw_x(it, t)
    return NotImplemented


def raw_x(it, t):
    ctx = it.ctx
    raw = ctx.sort("RawX")
    cols = ctx.sort("Cols")
    m = {
        "is_df": ctx.uf("rawx_is_df", raw, BOOL)(t),
        "ndim": ctx.uf("rawx_ndim", raw, INT)(t),       # of np.array(X) for non-DataFrames
        "d0": ctx.uf("rawx_d0", raw, INT)(t),
        "d1": ctx.uf("rawx_d1", raw, INT)(t),
        "cols": ctx.uf("rawx_cols", raw, cols)(t),
        "vals": ctx.uf("rawx_vals", raw, z3.ArraySort(INT, INT, REAL))(t),
    }
    it.run.assume(z3.And(m["ndim"] >= 0, m["ndim"] <= 2, m["d0"] >= 0, m["d1"] >= 0))
    # a DataFrame is two-dimensional with as many columns as its columns object has entries
    nc = ctx.uf("cols_len", cols, INT)
    it.run.assume(nc(m["cols"]) >= 0)
    it.run.assume(z3.Implies(m["is_df"], z3.And(m["ndim"] == 2, m["d1"] == nc(m["cols"]))))
    it.run.__dict__.setdefault("size_terms", []).extend([m["d0"], m["d1"]])
    return SOpaque("RawX", t, m)


HOOKS["make_symbolic"].append(_make_symbolic)


def _isinstance(models, it, v, c, node):
    if isinstance(v, SOpaque) and v.sort == "RawX" and isinstance(c, X.SMod):
        nm = c.dotted.split(".")[-1]
        if nm == "DataFrame":
            return v.meta["is_df"]
    if isinstance(v, (SNd,)) and isinstance(c, X.SMod):
        nm = c.dotted.split(".")[-1]
        return nm == "ndarray"
    if isinstance(c, X.SMod) and c.dotted.split(".")[-1] == "DataFrame":
        if v is None or is_num(v) or isinstance(v, (SArr1, SNd, str, SStr)):
            return False
    return NotImplemented


HOOKS["isinstance"].append(_isinstance)


def _cols_equals(models, it, target, obj, name, args, kwargs, fr, node):
    if isinstance(target, SOpaque) and target.sort == "Cols" and name == "equals":
        other = args[0]
        if isinstance(other, SOpt):
            other = it.run.unopt(other, "columns")
        cols = it.ctx.sort("Cols")
        f = it.ctx.uf("cols_equal", cols, cols, BOOL)
        nc = it.ctx.uf("cols_len", cols, INT)
        a, b = target.t, other.t
        it.ctx.fact(f(a, a), key=("cols-refl", a.sexpr()))
        it.ctx.fact(f(b, b), key=("cols-refl", b.sexpr()))
        it.ctx.fact(f(a, b) == f(b, a), key=("cols-sym", a.sexpr(), b.sexpr()))
        it.ctx.fact(z3.Implies(f(a, b), nc(a) == nc(b)), key=("cols-len", a.sexpr(), b.sexpr()))
        models.note(it, "axiom:pandas.Index.equals (reflexive, symmetric, equal indexes have equal length)")
        return f(a, b)
    return NotImplemented


HOOKS["method"].append(_cols_equals)


def _len(models, it, v, o, node):
    if isinstance(v, SOpaque) and v.sort == "Cols":
        return it.ctx.uf("cols_len", it.ctx.sort("Cols"), INT)(v.t)
    if isinstance(v, SNd):
        if not v.shape:
            raise X.PyRaise("TypeError", "len() of unsized object")
        return v.shape[0]
    return NotImplemented


HOOKS["len"].append(_len)


def _rawx_columns(models, it, base, node):
    return SOpaque("Cols", base.meta["cols"])


def _rawx_values(models, it, base, node):
    m = base.meta
    vals = m["vals"]
    models.note(it, "model:DataFrame.values (a view of the frame's block: shares memory with the caller's data)")
    return SNd((m["d0"], m["d1"]), lambda idx: vals[b2i(z(idx[0])), b2i(z(idx[1]))], src=("view", base.t))


OPAQUE_ATTRS[("RawX", "columns")] = _rawx_columns
OPAQUE_ATTRS[("RawX", "values")] = _rawx_values


def _rawx_shape(models, it, base, node):
    # X.shape on the raw argument (CDBD reads it before validation): a DataFrame / ndarray has one, a list has not
    m = base.meta
    has_shape = it.ctx.uf("rawx_has_shape", it.ctx.sort("RawX"), BOOL)(base.t)
    it.ctx.fact(z3.Implies(m["is_df"], has_shape), key=("has-shape", base.t.sexpr()))
    if not it.run.branch(has_shape, "raw-has-shape"):
        raise X.PyRaise("AttributeError", "shape")
    nd = m["ndim"]
    if it.run.branch(nd == 2, "raw-ndim2"):
        return (m["d0"], m["d1"])
    if it.run.branch(nd == 1, "raw-ndim1"):
        return (m["d0"],)
    return ()


OPAQUE_ATTRS[("RawX", "shape")] = _rawx_shape


def _np_shape(models, it, args, kw, fr, node):
    # np.shape(X) of the raw argument: works for every container (no attribute needed)
    v = args[0] if args else None
    if not (isinstance(v, SOpaque) and v.sort == "RawX"):
        raise Unsupported("np.shape(%r)" % (v,), node)
    m = v.meta
    nd = m["ndim"]
    if it.run.branch(z3.Or(m["is_df"], nd == 2), "raw-ndim2"):
        return (m["d0"], z3.If(m["is_df"], m["d1"], m["d1"]))
    if it.run.branch(nd == 1, "raw-ndim1"):
        return (m["d0"],)
    return ()


# -- numpy entry points used by validation ---------------------------------------
def np_array(models, it, args, kw, fr, node):
    v = args[0]
    run = it.run
    if isinstance(v, SOpaque) and v.sort == "RawY":
        size = v.meta["size"]
        first = v.meta["first"]
        # dimension unknown; only ravel()/reshape are applied to it
        return SNd(None, lambda idx: first, src=("fresh", None), kind="Label", size=size)
    if isinstance(v, SOpaque) and v.sort == "RawX":
        m = v.meta
        vals = m["vals"]
        nd = m["ndim"]
        models.note(it, "model:np.array(x) (fresh copy; A-NDIM: at most two dimensions)")
        if run.branch(nd == 2, "ndim2"):
            return SNd((m["d0"], m["d1"]), lambda idx: vals[b2i(z(idx[0])), b2i(z(idx[1]))], src=("fresh", None))
        if run.branch(nd == 1, "ndim1"):
            return SNd((m["d0"],), lambda idx: vals[z3.IntVal(0), b2i(z(idx[0]))], src=("fresh", None))
        run.assume(nd == 0)
        return SNd((), lambda idx: vals[z3.IntVal(0), z3.IntVal(0)], src=("fresh", None))
    if isinstance(v, SNd):
        return SNd(v.shape, v.elem, src=("fresh", None), kind=v.kind)
    if isinstance(v, SArr1):
        return SArr1(v.val, v.ndim)
    if is_num(v):
        return SArr1(v, 0)
    if isinstance(v, Ref) and isinstance(run.obj(v), HList) and run.obj(v).items and all(
            x is None or isinstance(x, SOpt) for x in run.obj(v).items):
        # np.array([None, None]): an object array used as a mutable pair
        return run.alloc(HList(run.obj(v).items))
    for h in HOOKS_ARRAY:
        r = h(models, it, v, kw, node)
        if r is not NotImplemented:
            return r
    raise Unsupported("np.array(%r)" % (v,), node)


HOOKS_ARRAY = []
Models.np_array = np_array


def _nd_attr(models, it, base, obj, attr, node):
    if isinstance(base, SNd):
        if attr == "shape":
            if base.shape is None:
                raise Unsupported("shape of an array of unknown dimension", node)
            return tuple(base.shape)
        if attr == "size":
            n = 1
            for d in base.shape:
                n = arith("*", n, d)
            return n
        if attr in ("ravel", "reshape", "flatten", "copy", "min", "max", "astype", "tolist"):
            return SFunc("objmethod", target=base, name=attr)
    return NotImplemented


HOOKS["attr"].append(_nd_attr)


def _nd_method(models, it, target, obj, name, args, kwargs, fr, node):
    if not isinstance(target, SNd):
        return NotImplemented
    a = target
    if name in ("ravel", "flatten"):
        if a.shape is None:
            n = a.size
            return SNd((n,), a.elem, src=a.src if name == "ravel" else ("fresh", None), kind=a.kind)
        n = 1
        for d in a.shape:
            n = arith("*", n, d)
        shp = a.shape

        def el(idx, shp=shp, a=a):
            if len(shp) == 1:
                return a.elem(idx)
            if len(shp) == 0:
                return a.elem(())
            k = b2i(z(idx[0]))
            d1 = b2i(z(shp[1]))
            return a.elem((k / d1, k % d1)) if is_z3(d1) or True else None
        return SNd((n,), el, src=a.src, kind=a.kind)
    if name == "reshape":
        shape = args[0] if len(args) == 1 and isinstance(args[0], tuple) else tuple(args)
        n = 1
        for d in a.shape:
            n = arith("*", n, d)
        if shape == (1, -1):
            src_shape = a.shape

            def el(idx, a=a, src_shape=src_shape):
                if len(src_shape) == 0:
                    return a.elem(())
                if len(src_shape) == 1:
                    return a.elem((idx[1],))
                raise Unsupported("reshape(1,-1) of a 2-D array")
            return SNd((1, n), el, src=a.src, kind=a.kind)
        if shape == (-1, 1):
            src_shape = a.shape

            def el(idx, a=a, src_shape=src_shape):
                if len(src_shape) == 0:
                    return a.elem(())
                if len(src_shape) == 1:
                    return a.elem((idx[0],))
                raise Unsupported("reshape(-1,1) of a 2-D array")
            return SNd((n, 1), el, src=a.src, kind=a.kind)
        raise Unsupported("reshape%r" % (shape,), node)
    if name == "copy":
        return SNd(a.shape, a.elem, src=("fresh", None), kind=a.kind)
    return NotImplemented


HOOKS["method"].append(_nd_method)


def _nd_getitem(models, it, base, idx, node):
    if isinstance(base, SNd):
        shp = base.shape
        if shp is None:
            raise Unsupported("index into array of unknown dimension", node)
        if isinstance(idx, tuple):
            if len(idx) == len(shp):
                for i, d in zip(idx, shp):
                    it.norm_index(i, d, node)
                return base.elem(tuple(idx))
            raise Unsupported("partial tuple index", node)
        j = it.norm_index(idx, shp[0], node) if shp else None
        if len(shp) == 1:
            return base.elem((j,))
        if len(shp) == 2:
            return SNd((shp[1],), lambda ix, base=base, j=j: base.elem((j, ix[0])), src=base.src, kind=base.kind)
        raise X.PyRaise("IndexError")
    return NotImplemented


HOOKS["getitem"].append(_nd_getitem)


def _nd_binop(models, it, op, a, b, node):
    if isinstance(a, SNd) or isinstance(b, SNd):
        a2 = nd_scalar(it, a) if isinstance(a, SNd) else a
        b2 = nd_scalar(it, b) if isinstance(b, SNd) else b
        if a2 is None or b2 is None:
            raise Unsupported("arithmetic on an array that is not provably 1x1", node)
        return it.binop(op, a2, b2, node)
    return NotImplemented


HOOKS["binop"].append(_nd_binop)


def _nd_cmp(models, it, sop, a, b, node):
    if isinstance(a, SNd) or isinstance(b, SNd):
        a2 = nd_scalar(it, a) if isinstance(a, SNd) else a
        b2 = nd_scalar(it, b) if isinstance(b, SNd) else b
        if a2 is None or b2 is None:
            raise Unsupported("comparison of an array that is not provably 1x1", node)
        return cmp(sop, it.run.num(a2), it.run.num(b2))
    return NotImplemented


HOOKS["cmp"].append(_nd_cmp)


def register(models_cls):
    pass


def _install_ext():
    def f_array(self, it, args, kw, fr, node):
        return np_array(self, it, args, kw, fr, node)

    def f_copy(self, it, args, kw, fr, node):
        v = args[0]
        if isinstance(v, SOpaque) and v.sort in ("RawX", "RawY"):
            self.note(it, "model:copy.copy(x) of a user input (shallow copy; np.array of it is a fresh array)")
            return v
        if isinstance(v, SNd):
            return SNd(v.shape, v.elem, src=("fresh", None), kind=v.kind)
        if isinstance(v, Ref):
            o = it.run.obj(v)
            if isinstance(o, HList):
                return it.run.alloc(HList(o.items))
            if isinstance(o, HSeq):
                return it.run.alloc(HSeq(o.arr, o.lo, o.hi, o.elem))
            if isinstance(o, HDict):
                return it.run.alloc(HDict(o.items))
        if v is None or is_num(v) or isinstance(v, (str, SStr, SArr1, tuple)):
            return v
        for h in HOOKS_COPY:
            r = h(self, it, v, node)
            if r is not NotImplemented:
                return r
        raise Unsupported("copy.copy(%r)" % (v,), node)
    orig_init = Models.__init__

    def new_init(self):
        orig_init(self)
        self.ext["numpy.array"] = f_array
        self.ext["copy.copy"] = f_copy
        self.ext["copy.deepcopy"] = f_copy
        for k, v in EXTRA_EXT.items():
            self.ext[k] = v
    Models.__init__ = new_init


HOOKS_COPY = []
EXTRA_EXT = {}
EXTRA_EXT["numpy.shape"] = lambda models, it, args, kw, fr, node: _np_shape(models, it, args, kw, fr, node)
_install_ext()


# -- spec vocabulary over raw inputs ---------------------------------------------
def _rx(self, e, fr):
    v = self.ev(e.args[0], fr)
    if is_num(v):
        # a plain number passed where a feature input is expected (ADWINAccuracy forwards its indicator): a 0-d input
        cols = self.ctx.sort("Cols")
        return SOpaque("RawX", None, {"is_df": z3.BoolVal(False), "ndim": z3.IntVal(0), "d0": z3.IntVal(0), "d1": z3.IntVal(0),
                                      "cols": z3.Const("cols!none", cols),
                                      "vals": z3.K(INT, z3.K(INT, to_real(v))) if False else _const2(to_real(v))})
    if isinstance(v, SNd) and v.shape is not None and len(v.shape) == 2:
        # an internal 2-D array handed back to a validating method (e.g. the remembered batch of KdqTreeBatch)
        i, j = z3.Ints("i!k2 j!k2")
        return SOpaque("RawX", None, {"is_df": z3.BoolVal(False), "ndim": z3.IntVal(2), "d0": b2i(z(v.shape[0])),
                                      "d1": b2i(z(v.shape[1])), "cols": z3.Const("cols!none", self.ctx.sort("Cols")),
                                      "vals": z3.Lambda([i, j], to_real(v.elem((i, j))))})
    if not (isinstance(v, SOpaque) and v.sort == "RawX"):
        raise Unsupported("expected a raw X input, got %r" % (v,))
    return v


def _const2(t):
    return z3.K(z3.TupleSort("idx2", [INT, INT])[0], t) if False else _K2(t)


def _K2(t):
    i, j = z3.Ints("i!k2 j!k2")
    return z3.Lambda([i, j], t)


def _spec_is_df(self, e, fr):
    return _rx(self, e, fr).meta["is_df"]


def _spec_width(self, e, fr):
    m = _rx(self, e, fr).meta
    nc = self.ctx.uf("cols_len", self.ctx.sort("Cols"), INT)
    return z3.If(m["is_df"], nc(m["cols"]), z3.If(m["ndim"] == 2, m["d1"], z3.If(m["ndim"] == 1, m["d0"], 1)))


def _spec_rows(self, e, fr):
    """rows after the streaming coercion (vectors become one row)"""
    m = _rx(self, e, fr).meta
    return z3.If(z3.Or(m["is_df"], m["ndim"] == 2), m["d0"], 1)


def _spec_brows(self, e, fr):
    """rows after the batch coercion (vectors become one column)"""
    m = _rx(self, e, fr).meta
    return z3.If(z3.Or(m["is_df"], m["ndim"] == 2), m["d0"], z3.If(m["ndim"] == 1, m["d0"], 1))


def _spec_bwidth(self, e, fr):
    m = _rx(self, e, fr).meta
    nc = self.ctx.uf("cols_len", self.ctx.sort("Cols"), INT)
    return z3.If(m["is_df"], nc(m["cols"]), z3.If(m["ndim"] == 2, m["d1"], 1))


def _spec_cols(self, e, fr):
    return SOpaque("Cols", _rx(self, e, fr).meta["cols"])


def _spec_cols_equal(self, e, fr):
    a = self.ev(e.args[0], fr)
    b = self.ev(e.args[1], fr)
    if isinstance(a, SOpt):
        a = a.val
    if isinstance(b, SOpt):
        b = b.val
    return _cols_equals(self.ctx.models, self, a, None, "equals", [b], {}, fr, e)


def _spec_xval(self, e, fr):
    """value of the (single-row) input at column j, independent of the container"""
    m = _rx(self, e, fr).meta
    j = b2i(z(self.ev(e.args[1], fr)))
    return m["vals"][z3.IntVal(0), j]


def _spec_bval(self, e, fr):
    """value of a batch input at (i, j) after the batch coercion"""
    m = _rx(self, e, fr).meta
    i = b2i(z(self.ev(e.args[1], fr)))
    j = b2i(z(self.ev(e.args[2], fr)))
    return z3.If(z3.Or(m["is_df"], m["ndim"] == 2), m["vals"][i, j], m["vals"][z3.IntVal(0), i])


X.Interp.spec_is_df = _spec_is_df
X.Interp.spec_width = _spec_width
X.Interp.spec_rows = _spec_rows
X.Interp.spec_brows = _spec_brows
X.Interp.spec_bwidth = _spec_bwidth
X.Interp.spec_cols = _spec_cols
X.Interp.spec_cols_equal = _spec_cols_equal
X.Interp.spec_xval = _spec_xval
X.Interp.spec_bval = _spec_bval


def _make_nd(models, it, reg, ty, name, fresh):
    if ty == "Nd2":
        run = it.run
        d0 = run.fresh("Int", name + "!d0") if fresh else z3.Int(name + "!d0")
        d1 = run.fresh("Int", name + "!d1") if fresh else z3.Int(name + "!d1")
        run.assume(z3.And(d0 >= 0, d1 >= 0))
        run.__dict__.setdefault("size_terms", []).extend([d0, d1])
        srt = z3.ArraySort(INT, INT, REAL)
        arr = run.fresh(srt, name + "!data") if fresh else z3.Const(name + "!data", srt)
        return SNd((d0, d1), lambda idx, arr=arr: arr[b2i(z(idx[0])), b2i(z(idx[1]))], src=("fresh", None))
    return NotImplemented


HOOKS["make_symbolic"].append(_make_nd)


def _spec_ncols(self, e, fr):
    v = self.ev(e.args[0], fr)
    if isinstance(v, SOpt):
        v = v.val
    return self.ctx.uf("cols_len", self.ctx.sort("Cols"), INT)(v.t)


X.Interp.spec_ncols = _spec_ncols


# -- ownership (C15): does a value share memory with caller data? ---------------------------------------------------
def _spec_fresh(self, e, fr):
    """fresh(v): v is a newly allocated array that shares no memory with any argument (under the aliasing model:
    np.array / copy -> fresh; DataFrame.values, np.asarray, np.atleast_2d, ravel / reshape of a view -> view)"""
    v = self.ev(e.args[0], fr)
    if isinstance(v, SNd):
        return v.src is not None and v.src[0] == "fresh"
    if isinstance(v, SArr1) or is_num(v) or v is None:
        return True
    raise Unsupported("fresh(%r)" % (v,))


X.Interp.spec_fresh = _spec_fresh


def _np_asarray(models, it, args, kw, fr, node):
    v = args[0]
    if isinstance(v, SOpaque) and v.sort == "RawX":
        a = np_array(models, it, args, kw, fr, node)
        models.note(it, "model:np.asarray / np.atleast_2d (no copy for ndarray input: the result may alias the caller's data)")
        return SNd(a.shape, a.elem, src=("view", v.t), kind=a.kind)
    return np_array(models, it, args, kw, fr, node)


def _np_atleast_2d(models, it, args, kw, fr, node):
    a = _np_asarray(models, it, args, kw, fr, node)
    if isinstance(a, SNd) and a.shape is not None:
        if len(a.shape) == 0:
            return SNd((1, 1), lambda idx, a=a: a.elem(()), src=a.src, kind=a.kind)
        if len(a.shape) == 1:
            return SNd((1, a.shape[0]), lambda idx, a=a: a.elem((idx[1],)), src=a.src, kind=a.kind)
    return a


EXTRA_EXT["numpy.asarray"] = _np_asarray
EXTRA_EXT["numpy.atleast_2d"] = _np_atleast_2d
