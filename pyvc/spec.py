"""Contract registry, clause evaluation (symbolic), modular call-by-contract, lemma use.

Sidecar contract files (``/verif/contracts/*.py``) only build data by calling
``klass / contract / specfn / lemma / relational`` on the registry passed to
their ``register(R)`` function.  Clauses are Python *expressions* (strings) in
the vocabulary: ``old(e) result implies(a,b) forall(i,lo,hi,body)
exists(i,lo,hi,body) unchanged(self[.f]) self.ghost.<g>`` plus spec functions.
The same clause text is evaluated symbolically here and concretely (z3-free)
by ``pyvc/concrete.py`` for replay and for the bounded monitors.
"""
import ast
import re
from fractions import Fraction
import z3

from .sym import (T, tag, Unsupported, SStr, SOpt, SExt, Ref, SOpaque, SArr1, SFunc, HObj, HList, HSeq, HDict, HMap, HVec,
                  Label, INT, REAL, BOOL, is_z3, is_num, is_int, is_bool, z, b2i, to_real, zbool, AND, OR, NOT,
                  IMPLIES, cmp, arith)
from . import execu as X


def split_type(t):
    t = t.strip()
    m = re.match(r"^(\w+)\[(.*)\]$", t)
    if m:
        return m.group(1), m.group(2)
    return t, None


def split_args(s):
    out, depth, cur = [], 0, ""
    for ch in s:
        if ch in "[{(":
            depth += 1
        elif ch in "]})":
            depth -= 1
        if ch == "," and depth == 0:
            out.append(cur.strip())
            cur = ""
        else:
            cur += ch
    if cur.strip():
        out.append(cur.strip())
    return out


GLOBAL_SPEC_REC = {}


class Registry:
    def __init__(self):
        self.classes = {}       # class simple name -> klass dict
        self.contracts = {}     # qualname -> contract dict
        self.specfns = {}       # name -> dict(node, recursive, sig)
        self.lemmas = {}
        self.relationals = []
        self.clause_cache = {}
        self.spec_sources = []

    # -- declaration API -------------------------------------------------------
    def klass(self, qualname, fields=None, ghost=None, invariant=None, public=None, ghost_init=None, params=None,
              tags=None):
        name = qualname.split(":")[1]
        self.classes[name] = dict(qualname=qualname, name=name, fields=fields or {}, ghost=ghost or {},
                                  invariant=invariant or [], public=public or [], ghost_init=ghost_init or [],
                                  params=params or [], tags=tags)

    def contract(self, qualname, **kw):
        c = dict(qualname=qualname, params={}, requires=[], ensures=[], raises={}, modifies=None, loops={},
                 ghost_update=[], result=None, tags=("all",), reads_not=[], modular=False, check_invariant=True,
                 assume_invariant=True, calls={}, use=[], on_self=None, use_exit=[])
        c.update(kw)
        self.contracts[qualname] = c

    def specfn(self, source):
        """source: Python source of one or more pure functions (executed concretely as is)."""
        self.spec_sources.append(source)
        tree = ast.parse(source)
        for node in tree.body:
            if isinstance(node, ast.FunctionDef):
                rec = None
                for d in node.decorator_list:
                    if isinstance(d, ast.Call) and isinstance(d.func, ast.Name) and d.func.id == "recursive":
                        rec = [ast.literal_eval(a) for a in d.args]
                self.specfns[node.name] = dict(node=node, recursive=rec)

    def lemma(self, name, params, requires=None, ensures=None, induct=None, use=None, mention=None):
        # mention: terms evaluated before the proof so that the per-term axiom instances of sqrt / log ... exist for them
        self.lemmas[name] = dict(name=name, params=params, requires=requires or [], ensures=ensures or [],
                                 induct=induct, use=use or [], mention=mention or [])

    def relational(self, name, **kw):
        kw["name"] = name
        self.relationals.append(kw)

    def frame(self, name, **kw):
        kw.setdefault("carry", [])
        kw.setdefault("memo", ["_input_cols", "_input_col_dim"])
        kw.setdefault("index", [])
        kw.setdefault("tags", ("C02",))
        if not hasattr(self, "frames"):
            self.frames = {}
        self.frames[name] = kw

    # -- queries ------------------------------------------------------------------
    def has_contract(self, q):
        return q in self.contracts

    def loop_spec(self, fi, ordinal):
        if fi is None or ordinal is None:
            return None
        rl = getattr(self, "rel_loops", None)
        if rl and fi.qualname in rl:
            return rl[fi.qualname].get(ordinal)
        c = self.contracts.get(fi.qualname)
        if c is None or not c["loops"]:
            # inherited method verified through a subclass: the subclass contract carries the loop specifications
            alias = getattr(self, "alias", {}).get(fi.qualname)
            if alias is not None:
                c = self.contracts.get(alias)
        if c is None:
            return None
        return c["loops"].get(ordinal)

    def spec_lookup(self, name):
        if name in self.specfns:
            return SFunc("spec", name=name)
        if name in self.lemmas:
            return SFunc("spec", name=name)
        return None

    def parse(self, text):
        t = self.clause_cache.get(text)
        if t is None:
            t = ast.parse(text.strip(), mode="eval").body
            self.clause_cache[text] = t
        return t

    # -- symbolic values from types --------------------------------------------------
    def make_symbolic(self, it, ty, name, fresh=True):
        run = it.run
        head, arg = split_type(ty)

        def const(sort):
            if fresh:
                return run.fresh(sort, name)
            if isinstance(sort, z3.SortRef):
                return z3.Const(name, sort)
            if sort == "Int":
                return z3.Int(name)
            if sort == "Real":
                return z3.Real(name)
            if sort == "Bool":
                return z3.Bool(name)
            if isinstance(sort, z3.SortRef):
                return z3.Const(name, sort)
            return z3.Const(name, run.ctx.sort(sort))
        if head == "Int":
            return const("Int")
        if head == "Nat":
            v = const("Int")
            run.assume(v >= 0)
            return v
        if head == "Pos":
            v = const("Int")
            run.assume(v >= 1)
            return v
        if head == "Real":
            return const("Real")
        if head == "Real01":
            v = const("Real")
            run.assume(z3.And(v >= 0, v <= 1))
            return v
        if head == "NNReal":
            v = const("Real")
            run.assume(v >= 0)
            return v
        if head == "Bool":
            return const("Bool")
        if head == "Bit":
            v = const("Int")
            run.assume(z3.Or(v == 0, v == 1))
            return v
        if head == "Label":
            return const(Label)
        if head == "Str":
            v = const("Int")
            run.assume(v >= 1)
            return SStr(v)
        if head == "OptStr":
            v = const("Int")
            run.assume(v >= 0)
            return SOpt(v == 0, SStr(v))
        if head == "Opt":
            inner = self.make_symbolic(it, arg, name + "?", fresh)
            b = run.fresh("Bool", name + "!isnone") if fresh else z3.Bool(name + "!isnone")
            return SOpt(b, inner)
        if head == "ExtReal":
            b = run.fresh("Bool", name + "!inf") if fresh else z3.Bool(name + "!inf")
            return SExt(b, const("Real"))
        if head == "None":
            return None
        if head == "Const":
            return ast.literal_eval(arg)
        if head == "Arr1":
            parts = split_args(arg)
            return SArr1(self.make_symbolic(it, parts[0], name, fresh), int(parts[1]))
        if head == "List":
            elem = arg
            es = self.elem_sort(run, elem)
            arr = z3.Const(name + "!arr", z3.ArraySort(INT, es)) if not fresh else run.fresh(z3.ArraySort(INT, es),
                                                                                            name + "!arr")
            n = z3.Int(name + "!len") if not fresh else run.fresh("Int", name + "!len")
            run.assume(n >= 0)
            run.__dict__.setdefault("size_terms", []).append(n)
            if elem == "OptStr":
                i = z3.Int("i!dom")
                run.ctx.fact(z3.ForAll([i], arr[i] >= 0), key=("dom", arr.sexpr()))
            if elem == "Bit":
                i = z3.Int("i!dom")
                run.ctx.fact(z3.ForAll([i], z3.Or(arr[i] == 0, arr[i] == 1)), key=("dom", arr.sexpr()))
                elem = "Int"
            if elem == "Nat":
                i = z3.Int("i!dom")
                run.ctx.fact(z3.ForAll([i], arr[i] >= 0), key=("dom", arr.sexpr()))
                elem = "Int"
            return run.alloc(HSeq(arr, z3.IntVal(0), n, elem))
        if head == "Tuple" or head == "ListN":
            parts = split_args(arg)
            items = [self.make_symbolic(it, p, "%s.%d" % (name, i), fresh) for i, p in enumerate(parts)]
            if head == "Tuple":
                return tuple(items)
            return run.alloc(HList(items))
        if head == "Pair":
            items = [self.make_symbolic(it, arg, "%s.%d" % (name, i), fresh) for i in range(2)]
            return run.alloc(HList(items))
        if head == "Dict":
            d = {}
            for part in split_args(arg):
                k, t = part.split(":", 1)
                k = k.strip()
                try:
                    k = ast.literal_eval(k)
                except Exception:
                    pass
                d[k] = self.make_symbolic(it, t.strip(), "%s[%s]" % (name, k), fresh)
            return run.alloc(HDict(d))
        if head == "Obj":
            return self.make_object(it, arg, name, fresh)
        if head == "Lazy":
            return X.SLazy(arg, name, nullable=True)
        if head == "LazyNN":
            return X.SLazy(arg, name, nullable=False)
        if head == "Opaque":
            srt = run.ctx.sort(arg)
            return SOpaque(arg, const(srt))
        if head == "Func":
            return SFunc("uf", name=arg or name, ret="Real")
        if head == "Map":
            # Map[elem] : dict keyed by integers
            es = self.elem_sort(run, arg)
            arr = run.fresh(z3.ArraySort(INT, es), name + "!map") if fresh else z3.Const(name + "!map",
                                                                                       z3.ArraySort(INT, es))
            dom = run.fresh(z3.ArraySort(INT, BOOL), name + "!dom") if fresh else z3.Const(name + "!dom",
                                                                                           z3.ArraySort(INT, BOOL))
            return run.alloc(HMap(arr, dom, arg))
        m = run.ctx.models.make_symbolic_hook(it, self, ty, name, fresh)
        if m is not NotImplemented:
            return m
        raise Unsupported("unknown type %s" % ty)

    def elem_sort(self, run, elem):
        if elem in ("Int", "Nat", "Bit", "Str", "OptStr"):
            return INT
        if elem in ("Real", "NNReal", "Real01"):
            return REAL
        if elem == "Bool":
            return BOOL
        if elem == "Label":
            return Label
        return run.ctx.sort(elem)

    def make_object(self, it, cname, name, fresh=True):
        run = it.run
        k = self.classes.get(cname)
        if k is None:
            raise Unsupported("no klass declaration for %s" % cname)
        ref = run.alloc(HObj(cname, {}))
        o = run.obj(ref)
        o.declared = True       # fields come from the klass declaration, not from an executed __init__
        for f, ty in k["fields"].items():
            o.fields[f] = self.make_symbolic(it, ty, "%s.%s" % (name, f), fresh)
        for g, ty in k["ghost"].items():
            run.ghost[(ref.oid, g)] = self.make_symbolic(it, ty, "%s.ghost.%s" % (name, g), fresh)
        return ref

    def havoc_expr(self, it, text, fr):
        raise Unsupported("havoc_exprs not implemented")

    # -- clause evaluation --------------------------------------------------------------
    def eval_clause(self, it, text, fr, result=None, env=None, old=None):
        """evaluate a clause to a z3 Bool / python bool in the current state of ``it.run``"""
        run = it.run
        node = self.parse(text)
        e = dict(env if env is not None else fr.env)
        sf = X.Frame(e, fr.fi, fr.cls, parent=fr.parent, module=fr.module)
        sf.spec = X.SpecEnv()
        sf.spec.result = result
        sf.spec.old = old if old is not None else getattr(run, "old_state", None)
        if result is not None or "result" not in e:
            e["result"] = result
        run.spec_depth += 1
        try:
            v = it.ev(node, sf)
            t = run.truth(v)
        finally:
            run.spec_depth -= 1
        return t

    # spec-only call forms are implemented as methods on Interp (installed below)

    # -- spec functions -------------------------------------------------------------------
    def call_spec(self, it, fn, args, kwargs, fr, node):
        name = fn.name
        if name in self.lemmas:
            raise Unsupported("lemma %s used as a function" % name)
        sf = self.specfns[name]
        fnode = sf["node"]
        if sf["recursive"] is not None:
            return self.call_recursive(it, name, sf, args, fr)
        env = it.bind(fnode, list(args), dict(kwargs), fr, node, fr)
        nf = X.Frame(env, None, None, module=None)
        nf.spec = X.SpecEnv()
        nf.spec.allow_write = True
        nf.spec.old = fr.spec.old if fr.spec is not None else None
        nf.spec.result = None
        try:
            it.exec_block(fnode.body, nf)
        except X.ReturnEx as r:
            return r.value
        return None

    def call_recursive(self, it, name, sf, args, fr):
        """recursive spec function -> z3 RecFunction (defined once per Ctx)"""
        ctx = it.ctx
        sig = sf["recursive"]      # [param sorts..., result sort] as strings, e.g. ["Array[OptStr]","Int","Int"]
        key = "rec!" + name
        if key in GLOBAL_SPEC_REC and key not in ctx.ufs:
            # defined by an earlier task of this process: the z3 definition is process-global, the facts its body
            # emitted (axiom instances of log / sqrt ...) belong to every context that uses the function
            ctx.ufs[key], def_facts = GLOBAL_SPEC_REC[key]
            for df in def_facts:
                ctx.fact(df)
        if key not in ctx.ufs:
            sorts = [self.sig_sort(ctx, s) for s in sig]
            f = z3.RecFunction(name, *sorts)
            ctx.ufs[key] = f
            n_facts0 = len(ctx.facts)
            # definition
            pnames = [a.arg for a in sf["node"].args.args]
            zargs = [z3.Const("%s!%s" % (name, p), s) for p, s in zip(pnames, sorts[:-1])]
            env = {}
            for p, za, s in zip(pnames, zargs, sig[:-1]):
                env[p] = self.unsig(it, za, s)
            nf = X.Frame(env, None, None, module=None)
            nf.spec = X.SpecEnv()
            nf.spec.allow_write = True
            nf.spec.old = None
            saved_pc = list(it.run.pc)
            saved_obl = len(it.run.obligations)
            try:
                try:
                    it.exec_block(sf["node"].body, nf)
                    body = None
                except X.ReturnEx as r:
                    body = r.value
            finally:
                it.run.pc[:] = saved_pc
                del it.run.obligations[saved_obl:]
            body = self.to_sig(it, body, sig[-1])
            z3.RecAddDefinition(f, zargs, body)
            GLOBAL_SPEC_REC[key] = (f, list(ctx.facts[n_facts0:]))
        f = ctx.ufs[key]
        zs = [self.to_sig(it, a, s) for a, s in zip(args, sig[:-1])]
        return self.unsig(it, f(*zs), sig[-1])

    def sig_sort(self, ctx, s):
        head, arg = split_type(s)
        if head == "Array":
            return z3.ArraySort(INT, self.sig_sort(ctx, arg))
        if head in ("Int", "OptStr", "Str", "Nat", "Bit"):
            return INT
        if head == "Real":
            return REAL
        if head == "Bool":
            return BOOL
        return ctx.sort(head)

    def unsig(self, it, t, s):
        head, arg = split_type(s)
        if head == "Array":
            return T(("zarray", t, arg))
        if head == "OptStr":
            return SOpt(t == 0, SStr(t))
        if head == "Str":
            return SStr(t)
        return t

    def to_sig(self, it, v, s):
        head, arg = split_type(s)
        if head == "Array":
            if tag(v) == "zarray":
                return v[1]
            if isinstance(v, Ref):
                o = it.run.obj(v)
                if isinstance(o, HSeq):
                    if not (z3.is_int_value(z3.simplify(o.lo)) and z3.simplify(o.lo).as_long() == 0):
                        raise Unsupported("recursive spec function on a shifted sequence")
                    return o.arr
                if isinstance(o, HList):
                    return it.list_to_seq(o).arr
            raise Unsupported("array argument %r" % (v,))
        if head in ("Int", "Nat", "Bit"):
            return b2i(z(v))
        if head == "Real":
            return to_real(v)
        if head == "Bool":
            return zbool(v)
        if head in ("OptStr", "Str"):
            return it.elem_term(v, head)
        if isinstance(v, SOpaque):
            return v.t
        return v

    # -- lemma use -------------------------------------------------------------------------------
    def use_lemma(self, it, text, fr):
        node = self.parse(text)
        if not isinstance(node, ast.Call) or not isinstance(node.func, ast.Name):
            raise Unsupported("use: expected lemma(args)")
        lem = self.lemmas[node.func.id]
        sf = X.Frame(dict(fr.env), fr.fi, fr.cls, parent=fr.parent, module=fr.module)
        sf.spec = X.SpecEnv()
        sf.spec.old = getattr(it.run, "old_state", None)
        it.run.spec_depth += 1
        try:
            args = [it.ev(a, sf) for a in node.args]
        finally:
            it.run.spec_depth -= 1
        env = dict(zip(lem["params"], args))
        req = AND(*[zbool(self.eval_clause(it, r, fr, env=dict(env))) for r in lem["requires"]])
        ens = AND(*[zbool(self.eval_clause(it, r, fr, env=dict(env))) for r in lem["ensures"]])
        it.run.assume(zbool(IMPLIES(req, ens)))
        it.run.assumed.append("lemma:%s" % lem["name"])

    # -- modular call ----------------------------------------------------------------------------
    def apply_contract(self, it, fi, args, kwargs, fr, node):
        run = it.run
        c = self.contracts[fi.qualname]
        modfr = X.Frame({}, fi, fi.cls, module=fi.module)
        env = it.bind(fi.node, list(args), dict(kwargs), fr, node, modfr)
        cf = X.Frame(env, fi, fi.cls, module=fi.module)
        if c.get("for_class") and isinstance(env.get("self"), Ref):
            # an inherited method whose effect is stated per receiver class (field names differ between subclasses)
            rc = getattr(run.obj(env["self"]), "cls", None)
            rc = rc.split(":")[-1] if isinstance(rc, str) else getattr(rc, "name", None)
            if rc in c["for_class"]:
                c = dict(c)
                c.update(c["for_class"][rc])
        tags = c["tags"]
        cname = fi.qualname.split(":")[1]
        for i, r in enumerate(c["requires"]):
            g = self.eval_clause(it, r, cf, old=None)
            run.oblige("call-pre:%s/%d@%s" % (cname, i, getattr(node, "lineno", "?")), g, kind="call-pre",
                       where=getattr(node, "lineno", None), clause=r)
        old = snapshot(run, env)
        run.assumed.append("contract:%s" % fi.qualname)
        # exceptional behaviours
        for etype, spec in c["raises"].items():
            when = spec["when"] if isinstance(spec, dict) else spec
            cond = self.eval_clause(it, when, cf, old=old)
            if run.branch(zbool(cond) if not isinstance(cond, bool) else cond, "callee-raises"):
                if isinstance(spec, dict):
                    self.havoc_modifies(it, spec.get("modifies", []), env, cname)
                    for en in spec.get("ensures", []):
                        if isinstance(en, tuple) and en[0].endswith("!"):
                            continue
                        en_text = en[1] if isinstance(en, tuple) else en
                        run.assume(zbool(self.eval_clause(it, en_text, cf, old=old)))
                raise X.PyRaise(etype)
        self.havoc_modifies(it, c["modifies"] or [], env, cname)
        result = None
        if c["result"] is not None:
            result = self.make_symbolic(it, c["result"], "ret!%s" % fi.name)
        # the callee's ghost updates happen with the call
        if c.get("ghost_update"):
            import ast as _ast
            genv = dict(env)
            gf = X.Frame(genv, fi, fi.cls, module=fi.module)
            gf.spec = X.SpecEnv()
            gf.spec.allow_write = True
            gf.spec.old = old
            gf.spec.result = result
            genv["result"] = result
            run.spec_depth += 1
            try:
                for gu in c["ghost_update"]:
                    for st in _ast.parse(gu.strip()).body:
                        it.exec_stmt(st, gf)
            finally:
                run.spec_depth -= 1
        n_choose0 = getattr(run, "n_choose", 0)
        ens_list = list(c["ensures"])
        view = it.ctx.policy.get(fi.qualname, "")
        if isinstance(view, str) and view.startswith("contract:"):
            # the caller asked for a named abstraction of the callee's contract: fewer postconditions are *assumed*
            # (sound: every clause of the view is a clause of the verified contract)
            idxs = c.get("views", {}).get(view.split(":", 1)[1])
            if idxs is None:
                raise Unsupported("contract of %s has no view %s" % (fi.qualname, view))
            ens_list = [ens_list[i] for i in idxs]
            run.assumed.append("view:%s of %s" % (view.split(":", 1)[1], fi.qualname))
        for en in ens_list:
            if isinstance(en, tuple) and en[0].endswith("!"):
                continue        # property-derived clause: checked against the code, never assumed by callers
            en_text = en[1] if isinstance(en, tuple) else en
            ev_ = self.eval_clause(it, en_text, cf, result=result, old=old)
            if (ev_ is False or (is_z3(ev_) and z3.is_false(ev_))) and getattr(run, "n_choose", 0) == n_choose0:
                raise Unsupported("the contract of %s cannot hold at this call site: postcondition '%s' is false here"
                                  % (fi.qualname, en_text[:120]), node)
            run.assume(zbool(ev_))
        if getattr(run, "n_choose", 0) > n_choose0 and not run.feasible(z3.BoolVal(True)):
            # the postconditions materialised lazily represented results (None or an object): this combination of
            # choices is excluded by the contract itself -- the path ends, the other choices are explored separately
            raise X.PathEnd()
        # a public method re-establishes the class invariant of its receiver
        selfv = env.get("self")
        if c.get("check_invariant", True) and isinstance(selfv, Ref) and isinstance(run.obj(selfv), HObj):
            k = self.classes.get(run.obj(selfv).cls)
            if k is not None:
                for inv in k["invariant"]:
                    txt = inv[1] if isinstance(inv, tuple) else inv
                    run.assume(zbool(self.eval_clause(it, txt, cf, old=old)))
        if not run.feasible(z3.BoolVal(True)):
            raise Unsupported("the contract of %s is contradictory at this call site (assumed postconditions are "
                              "unsatisfiable)" % fi.qualname)
        return result

    def havoc_modifies(self, it, modifies, env, cname):
        run = it.run
        selfv = env.get("self")
        for m in modifies:
            if m.startswith("subtree:"):
                _, pname, fld = m.split(":")
                self._havoc_subtree(it, env.get(pname), fld, cname, 0)
                continue
            if m.startswith("ghost."):
                g = m[6:]
                k = self.classes[run.obj(selfv).cls]
                run.ghost[(selfv.oid, g)] = self.make_symbolic(it, k["ghost"][g], "hv!ghost.%s" % g)
                continue
            o = run.obj(selfv)
            k = self.classes.get(o.cls)
            ty = None
            if k is not None:
                ty = k["fields"].get(m)
            if ty is None:
                # search along the mro declarations
                ci = it.repo.classes.get(o.cls)
                for c in (ci.mro if ci else []):
                    kk = self.classes.get(c.name)
                    if kk and m in kk["fields"]:
                        ty = kk["fields"][m]
                        break
            if ty is None:
                raise Unsupported("modifies: no declared type for %s.%s" % (o.cls, m))
            o.fields[m] = self.make_symbolic(it, ty, "hv!%s.%s" % (cname, m))


    def _havoc_subtree(self, it, v, fld, cname, depth):
        """the callee may have changed field ``fld`` of the node and of every node below it: the node and its
        materialised children get a fresh value, links below that are forgotten (fresh unmaterialised nodes; A-LIST)"""
        run = it.run
        v = v.value if isinstance(v, X.SLazy) else v
        if isinstance(v, SOpt):
            v = v.val
        if not isinstance(v, Ref):
            return
        o = run.obj(v)
        k = self.classes.get(o.cls)
        o.fields[fld] = self.make_symbolic(it, k["fields"][fld], "hv!%s.%s" % (cname, fld))
        for f, ty in k["fields"].items():
            if ty.startswith("Lazy[") or ty.startswith("LazyNN["):
                cur = o.fields.get(f)
                if isinstance(cur, X.SLazy) and cur.forced and cur.value is not None and depth < 1:
                    self._havoc_subtree(it, cur, fld, cname, depth + 1)
                elif isinstance(cur, X.SLazy) and cur.forced and cur.value is not None:
                    run.fresh_n += 1
                    nl = X.SLazy(cur.cls, "%s!hv%d" % (cur.name, run.fresh_n), nullable=False)
                    o.fields[f] = nl


class OldState:
    def __init__(self, heap, ghost, env):
        self.heap = heap
        self.ghost = ghost
        self.env = env


def clone_heap(heap):
    out = {}
    for oid, o in heap.items():
        if isinstance(o, HObj):
            out[oid] = HObj(o.cls, dict(o.fields))
            out[oid].declared = getattr(o, "declared", False)
        elif isinstance(o, HList):
            out[oid] = HList(list(o.items))
        elif isinstance(o, HSeq):
            out[oid] = HSeq(o.arr, o.lo, o.hi, o.elem)
        elif isinstance(o, HDict):
            out[oid] = HDict(dict(o.items))
        elif isinstance(o, HMap):
            out[oid] = HMap(o.arr, o.dom, o.elem)
        elif isinstance(o, HVec):
            out[oid] = HVec(o.arr, o.shape, o.elem)
        else:
            c = getattr(o, "clone", None)
            out[oid] = c() if c else o
    return out


def snapshot(run, env):
    return OldState(clone_heap(run.heap), dict(run.ghost), dict(env))


# ---------------------------------------------------------------------------
# spec-only call forms, installed on Interp
def _spec_old(self, e, fr):
    run = self.run
    old = fr.spec.old
    if old is None:
        raise Unsupported("old() without a pre-state")
    cur_heap, cur_ghost = run.heap, run.ghost
    run.heap, run.ghost = old.heap, old.ghost
    env = dict(fr.env)
    env.update(old.env)
    sf = X.Frame(env, fr.fi, fr.cls, parent=fr.parent, module=fr.module)
    sf.spec = fr.spec
    try:
        v = self.ev(e.args[0], sf)
    finally:
        run.heap, run.ghost = cur_heap, cur_ghost
    return import_value(run, v, old.heap, {})


def import_value(run, v, heap, memo):
    """a value computed in the pre-state heap -> the same value as a fresh object of the current heap"""
    if isinstance(v, Ref):
        if v.oid in memo:
            return memo[v.oid]
        o = heap[v.oid]
        if isinstance(o, HSeq):
            r = run.alloc(HSeq(o.arr, o.lo, o.hi, o.elem))
        elif isinstance(o, HList):
            r = run.alloc(HList([]))
            memo[v.oid] = r
            run.obj(r).items = [import_value(run, x, heap, memo) for x in o.items]
        elif isinstance(o, HDict):
            r = run.alloc(HDict({}))
            memo[v.oid] = r
            run.obj(r).items = {k: import_value(run, x, heap, memo) for k, x in o.items.items()}
        elif isinstance(o, HMap):
            r = run.alloc(HMap(o.arr, o.dom, o.elem))
        elif isinstance(o, HVec):
            r = run.alloc(HVec(o.arr, o.shape, o.elem))
        elif isinstance(o, HObj):
            r = run.alloc(HObj(o.cls, {}))
            run.obj(r).declared = getattr(o, "declared", False)
            memo[v.oid] = r
            run.obj(r).fields = {k: import_value(run, x, heap, memo) for k, x in o.fields.items()}
            for (oid, g), gv in list(run.ghost.items()):
                pass
        else:
            c = getattr(o, "clone", None)
            r = run.alloc(c() if c else o)
        memo[v.oid] = r
        return r
    if isinstance(v, SOpt):
        return SOpt(v.isnone, import_value(run, v.val, heap, memo))
    if isinstance(v, tuple) and not isinstance(v, X.T if hasattr(X, "T") else ()):
        return tuple(import_value(run, x, heap, memo) for x in v)
    return v


def _spec_implies(self, e, fr):
    a = self.run.truth(self.ev(e.args[0], fr))
    if is_z3(a) and z3.is_false(z3.simplify(a)):
        a = False
    if a is False:
        return True
    try:
        b = self.run.truth(self.ev_guarded(e.args[1], fr, a))
    except X.PyRaise:
        b = False       # the consequent is not even defined here (e.g. None compared): the clause then demands "not a"
    return IMPLIES(a, b)


def _quant(self, e, fr, is_forall):
    name = e.args[0].id
    lo = self.ev(e.args[1], fr)
    hi = self.ev(e.args[2], fr)
    if isinstance(lo, int) and isinstance(hi, int) and hi - lo <= 8:
        parts = []
        for i in range(lo, hi):
            sf = X.Frame(dict(fr.env), fr.fi, fr.cls, parent=fr.parent, module=fr.module)
            sf.spec = fr.spec
            sf.env[name] = i
            parts.append(self.run.truth(self.ev(e.args[3], sf)))
        return AND(*parts) if is_forall else OR(*parts)
    self.run.fresh_n += 1
    v = z3.Int("%s!q%d" % (name, self.run.fresh_n))
    sf = X.Frame(dict(fr.env), fr.fi, fr.cls, parent=fr.parent, module=fr.module)
    sf.spec = fr.spec
    sf.env[name] = v
    rng = AND(cmp("<=", lo, v), cmp("<", v, hi))
    body = zbool(self.run.truth(self.ev_guarded(e.args[3], sf, rng)))
    if is_forall:
        return z3.ForAll([v], z3.Implies(zbool(rng), body))
    return z3.Exists([v], z3.And(zbool(rng), body))


def _spec_forall(self, e, fr):
    return _quant(self, e, fr, True)


def _spec_exists(self, e, fr):
    return _quant(self, e, fr, False)


def _spec_unchanged(self, e, fr):
    run = self.run
    old = fr.spec.old
    parts = []
    for a in e.args:
        if isinstance(a, ast.Name):
            ref = self.ev(a, fr)
            o = run.obj(ref)
            oo = old.heap[ref.oid]
            for f in sorted(set(o.fields) | set(oo.fields)):
                if f not in o.fields or f not in oo.fields:
                    parts.append(False)
                    continue
                parts.append(self.deep_eq(o.fields[f], oo.fields[f], run.heap, old.heap))
            for (oid, g), v in run.ghost.items():
                pass
        else:
            cur = self.ev(a, fr)
            fake = ast.Call(func=ast.Name(id="old", ctx=ast.Load()), args=[a], keywords=[])
            ov = _spec_old(self, fake, fr)       # imported into the current heap
            parts.append(self.deep_eq(cur, ov, run.heap, run.heap))
    return AND(*parts)


def _deep_eq(self, a, b, heap_a, heap_b):
    """structural equality of value a in heap_a and value b in heap_b"""
    run = self.run
    if isinstance(a, Ref) and isinstance(b, Ref):
        oa, ob = heap_a[a.oid], heap_b[b.oid]
        if isinstance(oa, HList) and isinstance(ob, HList):
            if len(oa.items) != len(ob.items):
                return False
            return AND(*[_deep_eq(self, x, y, heap_a, heap_b) for x, y in zip(oa.items, ob.items)])
        if isinstance(oa, HDict) and isinstance(ob, HDict):
            if list(oa.items) != list(ob.items):
                return False
            return AND(*[_deep_eq(self, oa.items[k], ob.items[k], heap_a, heap_b) for k in oa.items])
        if isinstance(oa, HSeq) and isinstance(ob, HSeq):
            return run.seq_eq(oa, ob)
        if isinstance(oa, HObj) and isinstance(ob, HObj):
            if oa.cls != ob.cls or set(oa.fields) != set(ob.fields):
                return False
            return AND(*[_deep_eq(self, oa.fields[f], ob.fields[f], heap_a, heap_b) for f in oa.fields])
        if isinstance(oa, HMap) and isinstance(ob, HMap):
            return AND(oa.arr == ob.arr, oa.dom == ob.dom)
        if isinstance(oa, HVec) and isinstance(ob, HVec):
            return AND(oa.arr == ob.arr, *[cmp("==", x, y) for x, y in zip(oa.shape, ob.shape)])
        h = getattr(oa, "deep_eq", None)
        if h is not None:
            return h(self, ob, heap_a, heap_b)
        return a.oid == b.oid
    if isinstance(a, X.SLazy) or isinstance(b, X.SLazy):
        if a is b:
            if a.forced and isinstance(a.value, Ref) and a.value.oid in heap_a and a.value.oid in heap_b:
                return _deep_eq(self, a.value, a.value, heap_a, heap_b)
            return True
        return False
    if isinstance(a, (X.SFunc, X.SCls, X.SMod)) or isinstance(b, (X.SFunc, X.SCls, X.SMod)):
        return a is b or (type(a) == type(b) and getattr(a, "kind", None) == getattr(b, "kind", None))
    return run.eq(a, b)


def _spec_isinf(self, e, fr):
    v = self.ev(e.args[0], fr)
    if isinstance(v, SExt):
        return v.inf
    return False


def _spec_label_eq(self, e, fr):
    a = self.ev(e.args[0], fr)
    b = self.ev(e.args[1], fr)
    return self.run.eq(a, b)


def _spec_forall_int(self, e, fr):
    """forall_int(k, body): body holds for every integer k (dictionary keys: strings are integer codes)"""
    name = e.args[0].id
    self.run.fresh_n += 1
    v = z3.Int("%s!q%d" % (name, self.run.fresh_n))
    sf = X.Frame(dict(fr.env), fr.fi, fr.cls, parent=fr.parent, module=fr.module)
    sf.spec = fr.spec
    sf.env[name] = v
    body = zbool(self.run.truth(self.ev_guarded(e.args[1], sf, True)))
    return z3.ForAll([v], body)


def _spec_invariant_of(self, e, fr):
    """the declared class invariant of the object (all clauses), evaluated with self := that object"""
    x = self.force(self.ev(e.args[0], fr))
    if isinstance(x, SOpt):
        x = self.run.unopt(x, "invariant_of")
    if not isinstance(x, Ref):
        raise X.PyRaise("TypeError", "invariant_of(None)")
    o = self.run.obj(x)
    k = self.ctx.reg.classes.get(o.cls)
    if k is None:
        raise Unsupported("invariant_of: no klass declaration for %s" % o.cls)
    parts = []
    for inv in k["invariant"]:
        txt = inv[1] if isinstance(inv, tuple) else inv
        sf = X.Frame({"self": x}, fr.fi, fr.cls, parent=fr.parent, module=fr.module)
        sf.spec = fr.spec
        parts.append(self.run.truth(self.ev(self.ctx.reg.parse(txt), sf)))
    return AND(*parts)


def _spec_keyof(self, e, fr):
    return self.mapkey(self.ev(e.args[0], fr))


def _spec_floor(self, e, fr):
    v = self.run.num(self.ev(e.args[0], fr))
    if not is_z3(v):
        import math
        return int(math.floor(v))
    return v if v.sort() == INT else z3.ToInt(v)


X.Interp.spec_floor = _spec_floor
X.Interp.spec_forall_int = _spec_forall_int
X.Interp.spec_invariant_of = _spec_invariant_of
X.Interp.spec_keyof = _spec_keyof
X.Interp.spec_old = _spec_old
X.Interp.spec_implies = _spec_implies
X.Interp.spec_forall = _spec_forall
X.Interp.spec_exists = _spec_exists
X.Interp.spec_unchanged = _spec_unchanged
X.Interp.spec_isinf = _spec_isinf
X.Interp.deep_eq = _deep_eq


def _spec_first(self, e, fr):
    v = self.ev(e.args[0], fr)
    if isinstance(v, SOpaque) and "first" in v.meta:
        return v.meta["first"]
    raise Unsupported("first() of %r" % (v,))


def _spec_size(self, e, fr):
    v = self.ev(e.args[0], fr)
    if isinstance(v, SOpaque) and "size" in v.meta:
        return v.meta["size"]
    raise Unsupported("size() of %r" % (v,))


def _spec_inf(self, e, fr):
    return SExt(True, z3.RealVal(0))


def _spec_sqrt(self, e, fr):
    return self.ctx.models.ext["numpy.sqrt"](self.ctx.models, self, [self.ev(e.args[0], fr)], {}, fr, e)


def _spec_log(self, e, fr):
    return self.ctx.models.ext["numpy.log"](self.ctx.models, self, [self.ev(e.args[0], fr)], {}, fr, e)


def _spec_close(self, e, fr):
    # approximate equality for the concrete (float) interpreter; exact equality over the reals
    a = self.ev(e.args[0], fr)
    b = self.ev(e.args[1], fr)
    return self.run.eq(a, b)


def _spec_meta(self, e, fr):
    v = self.ev(e.args[0], fr)
    k = e.args[1].value
    return v.meta[k]


def _spec_pow2(self, e, fr):
    return self.ctx.models.pow2(self, self.ev(e.args[0], fr))


X.Interp.spec_pow2 = _spec_pow2
X.Interp.spec_first = _spec_first
X.Interp.spec_size = _spec_size
X.Interp.spec_inf = _spec_inf
X.Interp.spec_sqrt = _spec_sqrt
X.Interp.spec_log = _spec_log
X.Interp.spec_close = _spec_close
X.Interp.spec_meta = _spec_meta


def _spec_norm_cdf(self, e, fr):
    return self.ctx.models.ext["scipy.stats.norm.cdf"](self.ctx.models, self, [self.ev(e.args[0], fr)], {}, fr, e)


def _spec_vsum(self, e, fr):
    v = self.ev(e.args[0], fr)
    if isinstance(v, SOpt):
        v = v.val
    o = self.run.obj(v)
    if isinstance(o, HList):
        o = self.list_to_seq(o)
    return self.ctx.models.vsum(self, o)


X.Interp.spec_norm_cdf = _spec_norm_cdf
X.Interp.spec_vsum = _spec_vsum


def _spec_t_ppf(self, e, fr):
    return self.ctx.models.ext["scipy.stats.t.ppf"](self.ctx.models, self, [self.ev(a, fr) for a in e.args], {}, fr, e)


X.Interp.spec_t_ppf = _spec_t_ppf
