"""Discharge of obligations: z3 first, cvc5 takes z3's unknowns.  ``unknown`` is never a violation."""
import os
import subprocess
import tempfile
import time
import z3

CVC5 = "/usr/bin/cvc5"


def _mk_solver(facts, pc, goal, timeout_ms):
    s = z3.Solver()
    s.set("timeout", timeout_ms)
    for f in facts:
        s.add(f)
    for p in pc:
        s.add(p)
    s.add(z3.Not(goal))
    return s


def model_validates(m, facts, pc, goal):
    """a 'sat' answer is believed only if the model really falsifies the goal and satisfies the path condition
    (z3 can answer sat on problems with recursive functions / lambdas / quantifiers without a checked model)"""
    try:
        if not z3.is_false(m.eval(goal, model_completion=True)):
            return False
        for p in pc:
            if isinstance(p, bool):
                if not p:
                    return False
                continue
            if z3.is_quantifier(p):
                continue
            v = m.eval(p, model_completion=True)
            if z3.is_false(v):
                return False
        return True
    except z3.Z3Exception:
        return False


# ---------------------------------------------------------------------------------------------------------------------
# Lambda lifting.  z3 5.1 (the solver behind the Python binding) is UNSOUND when two different lambda terms are passed
# as arguments to a recursive function: after the first unfolding it conflates them (minimal reproduction in
# pyvc/selftest.py: vsum(lambda i. x[i]+y[i], 0, 3) != vsum(lambda i. x[i]-y[i], 0, 3) with y = 1 is reported unsat).
# Every query is therefore rewritten before it reaches a solver: each closed lambda that occurs as an argument of an
# uninterpreted or recursive function is replaced by a fresh array constant c together with the defining axiom
# forall i. c[i] == (lambda)[i]; syntactically equal lambdas share their constant.  Lambdas that cannot be lifted
# (they mention a variable bound outside) make the query 'risky': an unsat answer for it is not accepted.
_LIFT_CACHE = {}        # ast id -> (term kept alive, set of closed lambda args, has_open)
_LIFT_CONST = {}        # lambda sexpr -> (const, axiom)


def _fn_like(d):
    k = d.kind()
    return k == z3.Z3_OP_UNINTERPRETED or k == getattr(z3, "Z3_OP_RECURSIVE", -1)


def _has_free_var(t, depth=0, memo=None):
    memo = {} if memo is None else memo
    key = (t.get_id(), depth)
    if key in memo:
        return memo[key]
    if z3.is_var(t):
        r = z3.get_var_index(t) >= depth
    elif z3.is_quantifier(t):
        r = _has_free_var(t.body(), depth + t.num_vars(), memo)
    else:
        r = any(_has_free_var(c, depth, memo) for c in t.children())
    memo[key] = r
    return r


def _collect_lambda_args(t, out, flags, seen, under_fn=False):
    """closed lambdas that occur inside an argument of an uninterpreted / recursive function application (at any depth,
    except as the array operand of a select, where the solver's rewriter beta-reduces them).  Probed on z3 5.1
    (tools/z3_lambda_probe.py): wrong 'unsat' answers arise only in that class; lambdas under ite / store / = outside
    function arguments give at worst spurious 'sat', which model validation turns into 'undecided'."""
    key = (t.get_id(), under_fn)
    if key in seen:
        return
    seen.add(key)
    if z3.is_var(t):
        return
    if z3.is_quantifier(t):
        _collect_lambda_args(t.body(), out, flags, seen, under_fn)
        return
    if z3.is_app(t):
        is_select = t.decl().kind() == z3.Z3_OP_SELECT
        is_fn = _fn_like(t.decl()) and t.num_args() > 0
        for pos, c in enumerate(t.children()):
            sub_under = under_fn or is_fn
            if sub_under and z3.is_quantifier(c) and c.is_lambda() and not (is_select and pos == 0):
                if _has_free_var(c):
                    flags["open"] = True
                else:
                    out[c.get_id()] = c
            _collect_lambda_args(c, out, flags, seen, sub_under)


def _replace_fn_args(f, ids, pairs):
    """replace the lambdas (by ast id) with their constants, but only where they occur inside function arguments:
    occurrences in select position elsewhere stay beta-redexes, which are cheap for the solver"""
    memo = {}

    def rw(t, under):
        key = (t.get_id(), under)
        if key in memo:
            return memo[key]
        if z3.is_var(t):
            r = t
        elif z3.is_quantifier(t):
            # below a binder: fall back to plain substitution (sound: it replaces more occurrences, never fewer)
            _t, fd, _o = _scan(t)
            r = z3.substitute(t, *pairs) if (under or any(i in ids for i in fd)) else t
        elif z3.is_app(t) and t.num_args() > 0:
            is_select = t.decl().kind() == z3.Z3_OP_SELECT
            is_fn = _fn_like(t.decl())
            ch, changed = [], False
            for pos, c in enumerate(t.children()):
                su = under or is_fn
                if su and c.get_id() in ids and not (is_select and pos == 0):
                    nc = ids[c.get_id()]
                else:
                    nc = rw(c, su)
                changed = changed or (nc is not c)
                ch.append(nc)
            if changed:
                try:
                    r = t.decl()(*ch)
                except Exception:
                    r = z3.substitute(t, *pairs)
            else:
                r = t
        else:
            r = t
        memo[key] = r
        return r
    return rw(f, False)


_SCAN = {}      # ast id -> (term, {lambda id: lambda}, open?)   (the term is stored so that the id stays valid)
_SUBST = {}     # (ast id, lambda ids) -> rewritten term


def _scan(f):
    r = _SCAN.get(f.get_id())
    if r is None:
        found, flags = {}, {"open": False}
        _collect_lambda_args(f, found, flags, set())
        r = (f, found, flags["open"])
        _SCAN[f.get_id()] = r
    return r


def lift_lambdas(formulas):
    """-> (rewritten formulas, definitional axioms, risky)"""
    formulas = list(formulas)
    if os.environ.get("PYVC_DIAG_NOLIFT") == "1":      # diagnosis only (timing comparison); never set by the checks
        return formulas, [], False
    used = {}           # lambda sexpr -> (const, axiom, lambda)
    risky = False
    for _round in range(8):
        found = {}
        for f in formulas + [u[1] for u in used.values()]:
            if isinstance(f, bool):
                continue
            _t, fd, op = _scan(f)
            found.update(fd)
            risky = risky or op
        if not found:
            break
        subs = []
        for lam in found.values():
            key = lam.sexpr()
            if key not in _LIFT_CONST:
                n = len(_LIFT_CONST)
                c = z3.Const("lam!%d" % n, lam.sort())
                idx = [z3.Const("lam!i%d_%d" % (n, k), lam.var_sort(k)) for k in range(lam.num_vars())]
                ax = z3.ForAll(idx, z3.Select(c, *idx) == z3.Select(lam, *idx))
                _LIFT_CONST[key] = (c, ax, lam)
            used[key] = _LIFT_CONST[key]
            subs.append((lam, _LIFT_CONST[key][0]))
        skey = tuple(sorted(l.get_id() for l, _c in subs))

        def sub(f, extra_skip=None):
            if isinstance(f, bool):
                return f
            k = (f.get_id(), skey, extra_skip)
            r = _SUBST.get(k)
            if r is None:
                ss = {l.get_id(): c for l, c in subs if extra_skip is None or l.get_id() != extra_skip}
                r = (f, _replace_fn_args(f, ss, [(l, c) for l, c in subs if l.get_id() in ss]) if ss else f)
                _SUBST[k] = r
            return r[1]
        formulas = [sub(f) for f in formulas]
        # an axiom keeps its own lambda on its right-hand side (select position only); other lifted lambdas in it go
        for key in list(used):
            c, ax, lam = used[key]
            used[key] = (c, sub(ax, lam.get_id()), lam)
    else:
        risky = True
    return formulas, [u[1] for u in used.values()], risky


def lifted_solver(formulas, timeout_ms):
    """a z3 solver loaded with the (lambda-lifted) formulas; second component: the rewriting was incomplete"""
    fs, axioms, risky = lift_lambdas([f for f in formulas if not isinstance(f, bool) or f is False])
    s = z3.Solver()
    s.set("timeout", timeout_ms)
    for f in fs:
        s.add(f if not isinstance(f, bool) else z3.BoolVal(f))
    for a_ in axioms:
        s.add(a_)
    return s, risky


_SK = [0]


def skolemize(goal):
    """universal quantifiers in positive position of a goal -> fresh constants (validity preserving: a goal F[forall x. P]
    with the quantifier in positive position is valid iff F[P(c)] is for a fresh c).  The solver then reports the
    witness as a model value and the model can be checked by evaluation."""
    def pos(t):
        if z3.is_quantifier(t):
            if t.is_forall():
                cs = []
                for k in range(t.num_vars()):
                    _SK[0] += 1
                    cs.append(z3.Const("%s!sk%d" % (t.var_name(k), _SK[0]), t.var_sort(k)))
                return pos(z3.substitute_vars(t.body(), *reversed(cs)))
            return t
        if z3.is_and(t):
            return z3.And(*[pos(c) for c in t.children()])
        if z3.is_or(t):
            return z3.Or(*[pos(c) for c in t.children()])
        if z3.is_implies(t):
            return z3.Implies(neg(t.arg(0)), pos(t.arg(1)))
        if z3.is_not(t):
            return z3.Not(neg(t.arg(0)))
        if z3.is_app_of(t, z3.Z3_OP_ITE) and t.sort() == z3.BoolSort():
            return z3.If(t.arg(0), pos(t.arg(1)), pos(t.arg(2)))
        return t

    def neg(t):
        # negative position: existential quantifiers become constants, universal ones stay
        if z3.is_quantifier(t):
            if t.is_exists():
                cs = []
                for k in range(t.num_vars()):
                    _SK[0] += 1
                    cs.append(z3.Const("%s!sk%d" % (t.var_name(k), _SK[0]), t.var_sort(k)))
                return neg(z3.substitute_vars(t.body(), *reversed(cs)))
            return t
        if z3.is_and(t):
            return z3.And(*[neg(c) for c in t.children()])
        if z3.is_or(t):
            return z3.Or(*[neg(c) for c in t.children()])
        if z3.is_implies(t):
            return z3.Implies(pos(t.arg(0)), neg(t.arg(1)))
        if z3.is_not(t):
            return z3.Not(pos(t.arg(0)))
        return t
    try:
        return pos(goal)
    except z3.Z3Exception:
        return goal


def discharge(ob, facts, timeout_ms=10000, use_cvc5=True, both=False, small_terms=()):
    """sets ob.verdict in {'proved','refuted','undecided'}, ob.backend, ob.time, ob.model (z3 model or None)"""
    t0 = time.time()
    goal = ob.goal
    if z3.is_bool(goal) and not isinstance(goal, bool):
        goal = skolemize(goal)
    # lambda lifting (soundness of the back end, see above): facts, path condition and goal are rewritten together
    nf, npc = len(facts), len(ob.pc)
    try:
        lifted, lift_axioms, risky = lift_lambdas(list(facts) + list(ob.pc) + [goal])
    except z3.Z3Exception as e:
        lifted, lift_axioms, risky = list(facts) + list(ob.pc) + [goal], [], True
    facts = list(lifted[:nf]) + list(lift_axioms)
    orig_pc = ob.pc
    ob.pc = list(lifted[nf:nf + npc])
    goal = lifted[-1]
    try:
        return _discharge(ob, facts, goal, t0, timeout_ms, use_cvc5, both, small_terms, risky)
    finally:
        ob.pc = orig_pc


def _discharge(ob, facts, goal, t0, timeout_ms, use_cvc5, both, small_terms, risky):
    if z3.is_true(z3.simplify(goal)):
        ob.verdict, ob.backend, ob.time = "proved", "simplify", time.time() - t0
        return ob
    if z3.is_false(z3.simplify(goal)):
        # the goal is false on this path: a violation iff the path is feasible.  (Paths are pruned with a short solver
        # budget, so a path that reaches this point may still be infeasible: 'unknown' is never a refutation.)
        ob.backend = "z3"
        r = z3.unknown
        s = None
        # portfolio (every strategy is sound for 'unsat'; 'sat' is validated below): default core, the older simplex
        # arithmetic cores, the z3 4.8.12 binary, the arithmetic-purifying tactic, then a long run of the default core
        for kind, budget in (("default", min(timeout_ms, 3000)), ("arith2", min(timeout_ms, 5000)), ("arith1", min(timeout_ms, 5000)),
                             ("cli", timeout_ms), ("tactic", timeout_ms), ("arith2", 3 * timeout_ms), ("default", 3 * timeout_ms)):
            try:
                if kind == "cli":
                    s_c = _mk_solver(facts, ob.pc, goal, budget)
                    if z3_cli_check(s_c.to_smt2(), budget) == "unsat":
                        r, ob.backend = z3.unsat, "z3-4.8.12"
                        break
                    continue
                if kind == "tactic":
                    s = z3.Then("simplify", "solve-eqs", "purify-arith", "smt").solver()
                    s.set("timeout", budget)
                    for f in list(facts) + list(ob.pc):
                        s.add(f)
                else:
                    s = _mk_solver(facts, ob.pc, goal, budget)
                    if kind == "arith2":
                        s.set("smt.arith.solver", 2)
                    elif kind == "arith1":
                        s.set("smt.arith.solver", 1)
                r = s.check()
            except z3.Z3Exception:
                continue
            if r != z3.unknown:
                break
        if r == z3.unsat:
            ob.verdict = "proved" if not risky else "undecided"      # infeasible path
        elif r == z3.sat and model_validates(s.model(), facts, ob.pc, z3.BoolVal(False)):
            ob.verdict = "refuted"
            ob.model = s.model()
        else:
            ob.verdict = "undecided"
            ob.note = "the goal is false on this path, but the solver could not decide whether the path is feasible (%s)" % r
        ob.time = time.time() - t0
        return ob
    quick = min(timeout_ms, 1500)
    s = _mk_solver(facts, ob.pc, goal, quick)
    r = s.check()
    ob.backend = "z3"
    if r == z3.unsat:
        ob.verdict = "proved"
    elif r == z3.sat:
        ob.verdict = "refuted"
        ob.model = s.model()
    else:
        ob.verdict = "undecided"
        ob.note = "z3: %s" % s.reason_unknown()
        # same solver with the older simplex arithmetic core (smt.arith.solver=2): goals that mention products / sqrt
        # terms irrelevant to them are often decided at once this way while the default core wanders
        for a_core, a_seed in ((2, 0), (1, 0), (2, 5)):
            if ob.verdict != "undecided":
                break
            try:
                s_a = _mk_solver(facts, ob.pc, goal, min(timeout_ms, 3000))
                s_a.set("smt.arith.solver", a_core)
                s_a.set("smt.random_seed", a_seed)
                r_a = s_a.check()
                if r_a == z3.unsat:
                    ob.verdict, ob.backend = "proved", "z3(arith.solver=%d)" % a_core
                elif r_a == z3.sat:
                    ob.verdict, ob.backend, ob.model = "refuted", "z3(arith.solver=%d)" % a_core, s_a.model()
            except z3.Z3Exception:
                pass
        # the Debian z3 4.8.12 binary: it decides many lambda / array goals in milliseconds on which 5.1 times out
        if ob.verdict == "undecided" and z3_cli_check(s.to_smt2(), min(timeout_ms, 4000)) == "unsat":
            ob.verdict, ob.backend = "proved", "z3-4.8.12"
        # second attempt: arithmetic-purifying tactic (decides the nonlinear real goals quickly)
        try:
            if ob.verdict != "undecided":
                raise z3.Z3Exception("decided")
            t = z3.Then("simplify", "solve-eqs", "purify-arith", "smt").solver()
            t.set("timeout", timeout_ms)
            for f in facts:
                t.add(f)
            for p in ob.pc:
                t.add(p)
            t.add(z3.Not(goal))
            r2 = t.check()
            if r2 == z3.unsat:
                ob.verdict, ob.backend = "proved", "z3(tactic)"
            elif r2 == z3.sat:
                ob.verdict, ob.backend, ob.model = "refuted", "z3(tactic)", t.model()
        except z3.Z3Exception:
            pass
        if ob.verdict == "undecided" and timeout_ms > quick:
            s = _mk_solver(facts, ob.pc, goal, timeout_ms)
            r = s.check()
            if r == z3.unsat:
                ob.verdict, ob.backend = "proved", "z3"
            elif r == z3.sat:
                ob.verdict, ob.backend, ob.model = "refuted", "z3", s.model()
        if ob.verdict == "undecided":
            # second z3 (the Debian 4.8.12 binary): a different code base for lambdas / arrays; only its 'unsat' is used
            # (no model comes back through this route, so 'sat' stays undecided)
            v = z3_cli_check(s.to_smt2(), timeout_ms)
            if v == "unsat":
                ob.verdict, ob.backend = "proved", "z3-4.8.12"
        if ob.verdict == "undecided" and use_cvc5:
            v = cvc5_check(s.to_smt2(), timeout_ms)
            if v == "unsat":
                ob.verdict, ob.backend = "proved", "cvc5"
            elif v == "sat":
                ob.verdict, ob.backend = "refuted", "cvc5"
    if ob.verdict == "undecided" and small_terms:
        # bounded model search: with the declared sizes (rows, widths, lengths) bounded, recursive functions unfold
        # finitely and the quantified axioms are decidable by model-based instantiation; a model found this way is a
        # genuine counterexample of the *unbounded* obligation (it satisfies every assertion) and is validated below
        for bound in (2, 4):
            try:
                s2 = _mk_solver(facts, ob.pc, goal, 4000)
                for t_ in small_terms:
                    s2.add(t_ <= bound)
                if s2.check() == z3.sat:
                    ob.verdict, ob.backend, ob.model = "refuted", "z3(bounded sizes <= %d)" % bound, s2.model()
                    break
            except z3.Z3Exception:
                break
    if ob.verdict == "refuted" and ob.model is not None and not model_validates(ob.model, facts, ob.pc, goal):
        ob.verdict = "undecided"
        ob.note = "solver answered sat but its model does not falsify the goal when evaluated (unchecked model)"
        ob.model = None
    if ob.verdict == "refuted" and ob.model is not None and small_terms:
        # prefer a small counter-model (replayable): bound the declared size terms and ask again
        for bound in (3, 6, 12):
            s2 = _mk_solver(facts, ob.pc, goal, 3000)
            for t in small_terms:
                s2.add(t <= bound)
            try:
                if s2.check() == z3.sat and model_validates(s2.model(), facts, ob.pc, goal):
                    ob.model = s2.model()
                    break
            except z3.Z3Exception:
                break
    if risky and ob.verdict == "proved" and ob.backend != "simplify":
        ob.verdict = "undecided"
        ob.note = ("the query passes a lambda that depends on a bound variable to a function: not lifted, and the "
                   "solver's unsat answers for such queries are not trusted")
    if both and ob.verdict == "proved" and ob.backend.startswith("z3"):
        v = cvc5_check(s.to_smt2(), timeout_ms)
        ob.cross = v
    ob.time = time.time() - t0
    return ob


Z3_OLD = "/usr/bin/z3"


def z3_cli_check(smt2, timeout_ms):
    if not os.path.exists(Z3_OLD):
        return "unknown"
    with tempfile.NamedTemporaryFile("w", suffix=".smt2", delete=False) as fh:
        fh.write(smt2)
        path = fh.name
    try:
        p = subprocess.run([Z3_OLD, "-T:%d" % max(1, timeout_ms // 1000), path], capture_output=True, text=True,
                           timeout=timeout_ms / 1000.0 + 5)
        out = p.stdout.strip().splitlines()
        if out and out[0] in ("sat", "unsat"):
            return out[0]
        return "unknown"
    except Exception:
        return "unknown"
    finally:
        try:
            os.unlink(path)
        except OSError:
            pass


def cvc5_check(smt2, timeout_ms):
    if not os.path.exists(CVC5):
        return "unknown"
    with tempfile.NamedTemporaryFile("w", suffix=".smt2", delete=False) as fh:
        txt = smt2
        if "(set-logic" not in txt:
            txt = "(set-logic ALL)\n" + txt
        fh.write(txt)
        path = fh.name
    try:
        p = subprocess.run([CVC5, "--lang=smt2", "--tlimit=%d" % timeout_ms, "--nl-ext-tplanes", path],
                           capture_output=True, text=True, timeout=timeout_ms / 1000.0 + 5)
        out = p.stdout.strip().splitlines()
        if out and out[0] in ("sat", "unsat"):
            return out[0]
        return "unknown"
    except Exception:
        return "unknown"
    finally:
        try:
            os.unlink(path)
        except OSError:
            pass


def satisfiable(facts, pc, timeout_ms=5000):
    s, risky = lifted_solver(list(facts) + list(pc), timeout_ms)
    r = s.check()
    if risky and r == z3.unsat:
        return z3.unknown
    return r
