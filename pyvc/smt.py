"""Discharge of obligations: z3 first, cvc5 takes z3's unknowns.  ``unknown`` is never a violation."""
import os
import subprocess
import tempfile
import time
import z3

CVC5 = "/usr/bin/cvc5"


def _mk_solver(facts, pc, goal, timeout_ms):
    s = z3.Solver()
    s.set("timeout", timeout_ms)
    for f in facts:
        s.add(f)
    for p in pc:
        s.add(p)
    s.add(z3.Not(goal))
    return s


def model_validates(m, facts, pc, goal):
    """a 'sat' answer is believed only if the model really falsifies the goal and satisfies the path condition
    (z3 can answer sat on problems with recursive functions / lambdas / quantifiers without a checked model)"""
    try:
        if not z3.is_false(m.eval(goal, model_completion=True)):
            return False
        for p in pc:
            if isinstance(p, bool):
                if not p:
                    return False
                continue
            if z3.is_quantifier(p):
                continue
            v = m.eval(p, model_completion=True)
            if z3.is_false(v):
                return False
        return True
    except z3.Z3Exception:
        return False


_SK = [0]


def skolemize(goal):
    """universal quantifiers in positive position of a goal -> fresh constants (validity preserving: a goal F[forall x. P]
    with the quantifier in positive position is valid iff F[P(c)] is for a fresh c).  The solver then reports the
    witness as a model value and the model can be checked by evaluation."""
    def pos(t):
        if z3.is_quantifier(t):
            if t.is_forall():
                cs = []
                for k in range(t.num_vars()):
                    _SK[0] += 1
                    cs.append(z3.Const("%s!sk%d" % (t.var_name(k), _SK[0]), t.var_sort(k)))
                return pos(z3.substitute_vars(t.body(), *reversed(cs)))
            return t
        if z3.is_and(t):
            return z3.And(*[pos(c) for c in t.children()])
        if z3.is_or(t):
            return z3.Or(*[pos(c) for c in t.children()])
        if z3.is_implies(t):
            return z3.Implies(neg(t.arg(0)), pos(t.arg(1)))
        if z3.is_not(t):
            return z3.Not(neg(t.arg(0)))
        if z3.is_app_of(t, z3.Z3_OP_ITE) and t.sort() == z3.BoolSort():
            return z3.If(t.arg(0), pos(t.arg(1)), pos(t.arg(2)))
        return t

    def neg(t):
        # negative position: existential quantifiers become constants, universal ones stay
        if z3.is_quantifier(t):
            if t.is_exists():
                cs = []
                for k in range(t.num_vars()):
                    _SK[0] += 1
                    cs.append(z3.Const("%s!sk%d" % (t.var_name(k), _SK[0]), t.var_sort(k)))
                return neg(z3.substitute_vars(t.body(), *reversed(cs)))
            return t
        if z3.is_and(t):
            return z3.And(*[neg(c) for c in t.children()])
        if z3.is_or(t):
            return z3.Or(*[neg(c) for c in t.children()])
        if z3.is_implies(t):
            return z3.Implies(pos(t.arg(0)), neg(t.arg(1)))
        if z3.is_not(t):
            return z3.Not(pos(t.arg(0)))
        return t
    try:
        return pos(goal)
    except z3.Z3Exception:
        return goal


def discharge(ob, facts, timeout_ms=10000, use_cvc5=True, both=False, small_terms=()):
    """sets ob.verdict in {'proved','refuted','undecided'}, ob.backend, ob.time, ob.model (z3 model or None)"""
    t0 = time.time()
    goal = ob.goal
    if z3.is_bool(goal) and not isinstance(goal, bool):
        goal = skolemize(goal)
    if z3.is_true(z3.simplify(goal)):
        ob.verdict, ob.backend, ob.time = "proved", "simplify", time.time() - t0
        return ob
    if z3.is_false(z3.simplify(goal)):
        # the path itself is the counterexample: it was found feasible when it was taken
        s = _mk_solver(facts, ob.pc, goal, min(timeout_ms, 3000))
        r = s.check()
        ob.backend = "z3"
        if r == z3.unsat:
            ob.verdict = "proved"       # infeasible path
        else:
            ob.verdict = "refuted"
            ob.model = s.model() if r == z3.sat else None
        ob.time = time.time() - t0
        return ob
    quick = min(timeout_ms, 1500)
    s = _mk_solver(facts, ob.pc, goal, quick)
    r = s.check()
    ob.backend = "z3"
    if r == z3.unsat:
        ob.verdict = "proved"
    elif r == z3.sat:
        ob.verdict = "refuted"
        ob.model = s.model()
    else:
        ob.verdict = "undecided"
        ob.note = "z3: %s" % s.reason_unknown()
        # second attempt: arithmetic-purifying tactic (decides the nonlinear real goals quickly)
        try:
            t = z3.Then("simplify", "solve-eqs", "purify-arith", "smt").solver()
            t.set("timeout", timeout_ms)
            for f in facts:
                t.add(f)
            for p in ob.pc:
                t.add(p)
            t.add(z3.Not(goal))
            r2 = t.check()
            if r2 == z3.unsat:
                ob.verdict, ob.backend = "proved", "z3(tactic)"
            elif r2 == z3.sat:
                ob.verdict, ob.backend, ob.model = "refuted", "z3(tactic)", t.model()
        except z3.Z3Exception:
            pass
        if ob.verdict == "undecided" and timeout_ms > quick:
            s = _mk_solver(facts, ob.pc, goal, timeout_ms)
            r = s.check()
            if r == z3.unsat:
                ob.verdict, ob.backend = "proved", "z3"
            elif r == z3.sat:
                ob.verdict, ob.backend, ob.model = "refuted", "z3", s.model()
        if ob.verdict == "undecided" and use_cvc5:
            v = cvc5_check(s.to_smt2(), timeout_ms)
            if v == "unsat":
                ob.verdict, ob.backend = "proved", "cvc5"
            elif v == "sat":
                ob.verdict, ob.backend = "refuted", "cvc5"
    if ob.verdict == "refuted" and ob.model is not None and not model_validates(ob.model, facts, ob.pc, goal):
        ob.verdict = "undecided"
        ob.note = "solver answered sat but its model does not falsify the goal when evaluated (unchecked model)"
        ob.model = None
    if ob.verdict == "refuted" and ob.model is not None and small_terms:
        # prefer a small counter-model (replayable): bound the declared size terms and ask again
        for bound in (3, 6, 12):
            s2 = _mk_solver(facts, ob.pc, goal, 3000)
            for t in small_terms:
                s2.add(t <= bound)
            try:
                if s2.check() == z3.sat and model_validates(s2.model(), facts, ob.pc, goal):
                    ob.model = s2.model()
                    break
            except z3.Z3Exception:
                break
    if both and ob.verdict == "proved" and ob.backend.startswith("z3"):
        v = cvc5_check(s.to_smt2(), timeout_ms)
        ob.cross = v
    ob.time = time.time() - t0
    return ob


def cvc5_check(smt2, timeout_ms):
    if not os.path.exists(CVC5):
        return "unknown"
    with tempfile.NamedTemporaryFile("w", suffix=".smt2", delete=False) as fh:
        txt = smt2
        if "(set-logic" not in txt:
            txt = "(set-logic ALL)\n" + txt
        fh.write(txt)
        path = fh.name
    try:
        p = subprocess.run([CVC5, "--lang=smt2", "--tlimit=%d" % timeout_ms, "--nl-ext-tplanes", path],
                           capture_output=True, text=True, timeout=timeout_ms / 1000.0 + 5)
        out = p.stdout.strip().splitlines()
        if out and out[0] in ("sat", "unsat"):
            return out[0]
        return "unknown"
    except Exception:
        return "unknown"
    finally:
        try:
            os.unlink(path)
        except OSError:
            pass


def satisfiable(facts, pc, timeout_ms=5000):
    s = z3.Solver()
    s.set("timeout", timeout_ms)
    for f in facts:
        s.add(f)
    for p in pc:
        s.add(p)
    return s.check()
