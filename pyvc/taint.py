"""Syntactic dependency analysis used by the two-run (relational) mode: does a loop of a function read a varied parameter
or field, directly or through anything computed from it?

It is a flow-insensitive over-approximation on the function's AST: a name is *tainted* when some assignment to it (plain,
augmented, loop target, with-target, subscript / attribute store into it, a mutating method call on it) has a tainted
right-hand side or argument, or sits under a branch / loop whose condition is tainted; an expression is tainted when it
mentions a tainted name, a varied field ``self.<f>``, or (when fields are varied) calls a method on ``self`` / passes
``self`` on.  A loop is *independent* of the varied data when neither its iterable / condition nor any expression in its
body is tainted and it does not sit under a tainted condition.  Two runs that agree on everything except the varied data
then execute the loop on equal values, so (library functions being deterministic under one random seed schedule - the
stated assumption of property C17) they leave it in equal states.
"""
import ast


def _names_stored(node):
    out = set()
    for n in ast.walk(node):
        if isinstance(n, ast.Name) and isinstance(n.ctx, ast.Store):
            out.add(n.id)
    return out


def _base_name(t):
    while isinstance(t, (ast.Subscript, ast.Attribute, ast.Starred)):
        t = t.value
    return t.id if isinstance(t, ast.Name) else None


class Taint:
    def __init__(self, fn_node, vary_params, vary_fields):
        self.fn = fn_node
        self.tainted = set(vary_params)
        self.fields = set(vary_fields)
        self.tainted_ctrl = []          # compound statements whose condition / iterable is tainted
        self._fixpoint()

    def expr_tainted(self, e):
        if e is None:
            return False
        for n in ast.walk(e):
            if isinstance(n, ast.Name) and isinstance(n.ctx, ast.Load):
                if n.id in self.tainted:
                    return True
                if n.id == "self" and self.fields:
                    # bare 'self' handed on (argument, closure): the callee may read the varied field
                    par = getattr(n, "_parent", None)
                    if not isinstance(par, ast.Attribute):
                        return True
            if isinstance(n, ast.Attribute) and isinstance(n.value, ast.Name) and n.value.id == "self":
                if n.attr in self.fields:
                    return True
            if isinstance(n, ast.Call) and isinstance(n.func, ast.Attribute) and isinstance(n.func.value, ast.Name) \
                    and n.func.value.id == "self" and self.fields:
                return True
            if isinstance(n, (ast.Lambda, ast.FunctionDef)):
                continue
        return False

    def _fixpoint(self):
        for parent in ast.walk(self.fn):
            for ch in ast.iter_child_nodes(parent):
                ch._parent = parent
        changed = True
        while changed:
            changed = False
            before = (len(self.tainted), len(self.tainted_ctrl))
            for st in ast.walk(self.fn):
                if isinstance(st, ast.Assign):
                    if self.expr_tainted(st.value):
                        for t in st.targets:
                            self.tainted |= _names_stored(t)
                            b = _base_name(t)
                            if b:
                                self.tainted.add(b)
                elif isinstance(st, ast.AugAssign):
                    if self.expr_tainted(st.value) or self.expr_tainted(st.target):
                        b = _base_name(st.target)
                        if b:
                            self.tainted.add(b)
                elif isinstance(st, ast.AnnAssign):
                    if self.expr_tainted(st.value):
                        b = _base_name(st.target)
                        if b:
                            self.tainted.add(b)
                elif isinstance(st, (ast.For, ast.AsyncFor)):
                    if self.expr_tainted(st.iter):
                        self.tainted |= _names_stored(st.target)
                        self._ctrl(st)
                elif isinstance(st, (ast.If, ast.While)):
                    if self.expr_tainted(st.test):
                        self._ctrl(st)
                elif isinstance(st, ast.With):
                    for item in st.items:
                        if self.expr_tainted(item.context_expr) and item.optional_vars is not None:
                            self.tainted |= _names_stored(item.optional_vars)
                elif isinstance(st, ast.Expr) and isinstance(st.value, ast.Call):
                    c = st.value
                    if isinstance(c.func, ast.Attribute) and (any(self.expr_tainted(a) for a in c.args) or
                                                              any(self.expr_tainted(k.value) for k in c.keywords)):
                        b = _base_name(c.func.value)
                        if b:
                            self.tainted.add(b)
                elif isinstance(st, ast.NamedExpr):
                    if self.expr_tainted(st.value):
                        self.tainted.add(st.target.id)
                elif isinstance(st, (ast.ListComp, ast.SetComp, ast.DictComp, ast.GeneratorExp)):
                    for g in st.generators:
                        if self.expr_tainted(g.iter):
                            self.tainted |= _names_stored(g.target)
            changed = (len(self.tainted), len(self.tainted_ctrl)) != before

    def _ctrl(self, st):
        if st not in self.tainted_ctrl:
            self.tainted_ctrl.append(st)
            for sub in st.body + getattr(st, "orelse", []):
                self.tainted |= _names_stored(sub)

    def loop_independent(self, loop):
        """None if the loop is independent of the varied data, else the reason"""
        for c in self.tainted_ctrl:
            for sub in ast.walk(c):
                if sub is loop:
                    return "the loop sits under (or is) a statement whose condition / iterable depends on the varied data (line %d)" % c.lineno
        head = loop.iter if isinstance(loop, (ast.For, ast.AsyncFor)) else loop.test
        if self.expr_tainted(head):
            return "the loop's iterable / condition depends on the varied data"
        for st in loop.body + loop.orelse:
            for n in ast.walk(st):
                if isinstance(n, ast.expr) and self.expr_tainted(n):
                    return "line %d of the loop body reads the varied data" % getattr(n, "lineno", loop.lineno)
        return None
