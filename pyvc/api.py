"""Loading: repo source + sidecar contracts -> registry; helpers to verify a list of targets in a process pool."""
import importlib
import os
import sys
import time
import traceback

from . import extract, execu, spec, models, vcgen, seqs  # noqa: F401  (seqs installs hooks)

VERIF = os.path.dirname(os.path.dirname(os.path.abspath(__file__)))
sys.path.insert(0, VERIF)
from pyvc_modules import CONTRACT_MODULES  # noqa: E402


def load_registry():
    if VERIF not in sys.path:
        sys.path.insert(0, VERIF)
    R = spec.Registry()
    loaded = []
    for m in CONTRACT_MODULES:
        path = os.path.join(VERIF, "contracts", m + ".py")
        if not os.path.exists(path):
            continue
        mod = importlib.import_module("contracts." + m)
        mod.register(R)
        loaded.append(m)
    R.loaded = loaded
    return R


_STATE = {}


def init(repo_root):
    _STATE["repo_root"] = repo_root
    _STATE["repo"] = extract.Repo(repo_root)
    _STATE["reg"] = load_registry()
    kf = os.path.join(VERIF, "known_findings.json")
    _STATE["reg"].known_regions = []
    if os.path.exists(kf):
        import json
        for k in json.load(open(kf))["findings"]:
            if k.get("status") == "known" and k.get("region") and k.get("function"):
                _STATE["reg"].known_regions.append(k)
    for name in list(sys.modules):
        pass
    try:
        from . import arrays  # noqa: F401  numpy vector fragment (installs hooks)
    except ImportError:
        pass
    try:
        from . import libmodels  # noqa: F401  pandas / sklearn / scipy models
    except ImportError:
        pass
    from . import ensemble_model  # noqa: F401
    from . import maps  # noqa: F401
    from . import mat2  # noqa: F401  content-level 2-D arrays / frames (injectors)
    from . import opaque_coll  # noqa: F401  opaque dict / list / set values, index bags
    from . import nnsp_model  # noqa: F401  content-level vstack / unique / split / fancy store (NNSpacePartitioner.build)
    from . import pcacd_model  # noqa: F401  opaque sklearn / pandas / monitor models for the PCACD.update skeleton
    return _STATE["repo"], _STATE["reg"]


def make_ctx():
    return execu.Ctx(_STATE["repo"], _STATE["reg"], models.Models())


def verify_target(target, timeout_ms=10000, both=False):
    """target: ('fn', qualname) | ('lemma', name) | ('rel', name).  Returns a plain-dict report (picklable)."""
    kind, name = target
    reg = _STATE["reg"]
    try:
        if kind == "fn":
            rep = vcgen.verify_function(make_ctx, reg, name, timeout_ms=timeout_ms, both=both)
        elif kind == "lemma":
            rep = vcgen.verify_lemma(make_ctx, reg, name, timeout_ms=timeout_ms)
        elif kind == "frame":
            rep = vcgen.verify_frame(make_ctx, reg, name, timeout_ms=timeout_ms)
        elif kind == "rel":
            from . import relational
            rep = relational.verify_relational(make_ctx, reg, name, timeout_ms=timeout_ms)
        else:
            raise ValueError(kind)
        return report_dict(rep)
    except Exception:
        return {"target": list(target), "qualname": name, "kind": kind, "crash": traceback.format_exc(),
                "obligations": [], "undecided": None, "paths": 0, "time": 0.0, "notes": [], "assumed": [],
                "file": None, "sha": None, "lines": None, "vacuity": None, "exits": {}}


def report_dict(rep):
    obs = []
    for ob in rep.obligations:
        obs.append({
            "name": ob.name, "kind": ob.kind, "tags": list(ob.tags), "verdict": ob.verdict, "backend": ob.backend,
            "time": round(ob.time, 4), "path": getattr(ob, "path", None), "where": ob.where, "clause": ob.clause,
            "note": ob.note, "cex": getattr(ob, "cex", None), "known": getattr(ob, "known", None),
            "goal": (ob.goal.sexpr()[:600] if hasattr(ob.goal, "sexpr") else str(ob.goal)),
            "cross": getattr(ob, "cross", None),
        })
    return {"target": [rep.kind if rep.kind != "function" else "fn", rep.qualname.split(":", 1)[-1] if rep.kind != "function" else rep.qualname],
            "qualname": rep.qualname, "kind": rep.kind, "paths": rep.paths, "obligations": obs,
            "undecided": rep.undecided, "time": round(rep.time, 3), "notes": sorted(rep.notes),
            "assumed": sorted(rep.assumed), "file": rep.file, "sha": rep.sha, "lines": rep.lines,
            "vacuity": rep.vacuity, "exits": rep.exits, "crash": None,
            "reads": sorted("%s.%s" % x for x in rep.reads), "writes": sorted("%s.%s" % x for x in rep.writes)}


def _pool_init(repo_root):
    init(repo_root)


def verify_many(repo_root, targets, jobs=16, timeout_ms=10000, both=False):
    import multiprocessing as mp
    if jobs <= 1 or len(targets) <= 1:
        init(repo_root)
        return [verify_target(t, timeout_ms, both) for t in targets]
    ctxm = mp.get_context("fork")
    # one fresh process per target (maxtasksperchild=1): z3's context and the engine's definition caches are process-global,
    # so a verdict must never depend on which targets happened to run earlier in the same worker
    with ctxm.Pool(min(jobs, len(targets)), initializer=_pool_init, initargs=(repo_root,), maxtasksperchild=1) as pool:
        res = [pool.apply_async(verify_target, (t, timeout_ms, both)) for t in targets]
        return [r.get() for r in res]
