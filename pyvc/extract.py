"""Mechanical extraction of the real menelaus source.

Every run re-reads the files under <repo>/menelaus with ``ast``.  Nothing is
cached between runs.  What the extraction drops (and nothing else): docstrings,
comments, type annotations; decorators are *interpreted* (property / setter /
staticmethod / classmethod / abstractmethod decide dispatch), not executed.
"""
import ast
import hashlib
import os


class FunctionInfo:
    def __init__(self, qualname, node, cls, module, path, kind, sha):
        self.qualname = qualname      # module:Class.func  or module:func
        self.node = node              # ast.FunctionDef
        self.cls = cls                # ClassInfo or None
        self.module = module          # ModuleInfo
        self.path = path
        self.kind = kind              # 'method' | 'static' | 'class' | 'getter' | 'setter' | 'function'
        self.sha = sha
        self.name = node.name

    @property
    def lines(self):
        return (self.node.lineno, self.node.end_lineno)

    def __repr__(self):
        return "<fn %s>" % self.qualname


class ClassInfo:
    def __init__(self, name, node, module):
        self.name = name
        self.node = node
        self.module = module
        self.base_names = []
        self.methods = {}       # name -> FunctionInfo  (plain, static, class)
        self.getters = {}       # property name -> FunctionInfo
        self.setters = {}
        self.mro = None

    @property
    def qualname(self):
        return "%s:%s" % (self.module.name, self.name)

    def __repr__(self):
        return "<class %s>" % self.qualname


class ModuleInfo:
    def __init__(self, name, path, tree, src):
        self.name = name
        self.path = path
        self.tree = tree
        self.src = src
        self.sha = hashlib.sha256(src.encode()).hexdigest()
        self.classes = {}
        self.functions = {}
        self.imports = {}       # local alias -> dotted name ('np' -> 'numpy', 'sqrt' -> 'numpy.sqrt')


def _strip_doc(fn):
    body = fn.body
    if body and isinstance(body[0], ast.Expr) and isinstance(getattr(body[0], "value", None), ast.Constant) \
            and isinstance(body[0].value.value, str):
        fn.body = body[1:] or [ast.Pass(lineno=fn.lineno, col_offset=0)]


def _deco_kind(fn):
    kind = "method"
    for d in fn.decorator_list:
        if isinstance(d, ast.Name):
            if d.id == "property":
                kind = "getter"
            elif d.id == "staticmethod":
                kind = "static"
            elif d.id in ("classmethod", "abstractclassmethod"):
                kind = "class"
        elif isinstance(d, ast.Attribute) and d.attr == "setter":
            kind = "setter"
    return kind


class Repo:
    """All parsed modules of one menelaus working tree."""

    def __init__(self, root):
        self.root = root
        self.modules = {}
        self.classes = {}       # simple class name -> ClassInfo (names are unique in menelaus)
        self.files_read = {}
        pkg = os.path.join(root, "menelaus")
        for dirpath, _dirs, files in os.walk(pkg):
            for f in sorted(files):
                if not f.endswith(".py"):
                    continue
                path = os.path.join(dirpath, f)
                rel = os.path.relpath(path, root)
                modname = rel[:-3].replace(os.sep, ".")
                if modname.endswith(".__init__"):
                    modname = modname[: -len(".__init__")]
                with open(path) as fh:
                    src = fh.read()
                try:
                    tree = ast.parse(src)
                except SyntaxError:
                    continue
                mi = ModuleInfo(modname, rel, tree, src)
                self.modules[modname] = mi
                self.files_read[rel] = mi.sha
                self._index(mi)
        for ci in list(self.classes.values()):
            self._mro(ci)

    def _index(self, mi):
        for node in mi.tree.body:
            if isinstance(node, ast.Import):
                for a in node.names:
                    mi.imports[a.asname or a.name.split(".")[0]] = a.name if a.asname else a.name.split(".")[0]
            elif isinstance(node, ast.ImportFrom):
                for a in node.names:
                    mi.imports[a.asname or a.name] = "%s.%s" % (node.module, a.name)
            elif isinstance(node, ast.ClassDef):
                ci = ClassInfo(node.name, node, mi)
                for b in node.bases:
                    if isinstance(b, ast.Name):
                        ci.base_names.append(b.id)
                    elif isinstance(b, ast.Attribute):
                        ci.base_names.append(b.attr)
                for item in node.body:
                    if isinstance(item, ast.FunctionDef):
                        _strip_doc(item)
                        kind = _deco_kind(item)
                        q = "%s:%s.%s" % (mi.name, node.name, item.name)
                        fi = FunctionInfo(q, item, ci, mi, mi.path, kind, mi.sha)
                        if kind == "getter":
                            ci.getters[item.name] = fi
                        elif kind == "setter":
                            ci.setters[item.name] = fi
                        else:
                            ci.methods[item.name] = fi
                mi.classes[node.name] = ci
                self.classes[node.name] = ci
            elif isinstance(node, ast.FunctionDef):
                _strip_doc(node)
                q = "%s:%s" % (mi.name, node.name)
                mi.functions[node.name] = FunctionInfo(q, node, None, mi, mi.path, "function", mi.sha)

    def _mro(self, ci):
        if ci.mro is not None:
            return ci.mro
        seqs = []
        bases = []
        for b in ci.base_names:
            bc = self.classes.get(b)
            if bc is not None:
                bases.append(bc)
                seqs.append(list(self._mro(bc)))
        seqs.append(list(bases))
        res = [ci]
        while True:
            seqs = [s for s in seqs if s]
            if not seqs:
                break
            cand = None
            for s in seqs:
                c = s[0]
                if not any(c in t[1:] for t in seqs):
                    cand = c
                    break
            if cand is None:
                raise RuntimeError("inconsistent MRO for %s" % ci.name)
            res.append(cand)
            for s in seqs:
                if s[0] is cand:
                    del s[0]
        ci.mro = res
        return res

    # -- lookups ---------------------------------------------------------
    def cls(self, name):
        if ":" in name:
            name = name.split(":")[1]
        return self.classes[name]

    def find_method(self, ci, name, after=None):
        """Resolve ``name`` on class ``ci`` along its MRO; ``after`` = start after that class (super())."""
        mro = ci.mro
        start = 0
        if after is not None:
            start = mro.index(after) + 1
        for c in mro[start:]:
            if name in c.methods:
                return c.methods[name]
        return None

    def find_getter(self, ci, name):
        for c in ci.mro:
            if name in c.getters:
                return c.getters[name]
        return None

    def find_setter(self, ci, name):
        for c in ci.mro:
            if name in c.setters:
                return c.setters[name]
            if name in c.getters:
                return None
        return None

    def function(self, qualname):
        mod, rest = qualname.split(":")
        mi = self.modules[mod]
        if "." in rest:
            cname, fname = rest.split(".")
            ci = mi.classes[cname]
            if fname.endswith("@setter"):
                return ci.setters[fname[:-7]]
            if fname.endswith("@getter"):
                return ci.getters[fname[:-7]]
            fi = ci.methods.get(fname)
            if fi is None:
                raise KeyError(qualname)
            return fi
        return mi.functions[rest]
