"""Trusted models of builtins and external libraries (numpy / scipy / pandas / sklearn).

Three strengths (recorded per use in ``Run.notes`` -> evidence.trusted_base):
  exact    semantics defined (len, abs, max/min, int(), list/dict methods, pow2 ...)
  axiom    uninterpreted function + per-term axiom instances (sqrt, log, norm.cdf, t.ppf, quantile ...)
  opaque   fresh deterministic value of an uninterpreted sort (PCA, KDE, DataFrame plumbing ...)
"""
import ast
from fractions import Fraction
import z3

from .sym import (T, tag, Unsupported, SStr, SOpt, SExt, Ref, SOpaque, SArr1, SFunc, HObj, HList, HSeq, HDict, HMap, HVec,
                  Label, INT, REAL, BOOL, is_z3, is_num, is_int, is_bool, z, b2i, to_real, zbool, AND, OR, NOT,
                  IMPLIES, cmp, arith, py_float)
from . import execu as X


class Models:
    def __init__(self):
        self.ext = {}
        self.methods = {}
        self.used = set()
        self.register_builtins()
        self.register_numpy()

    # ------------------------------------------------------------------ hooks (default: not handled)
    def binop_hook(self, it, op, a, b, node):
        for h in HOOKS["binop"]:
            r = h(self, it, op, a, b, node)
            if r is not NotImplemented:
                return r
        return NotImplemented

    def cmp_hook(self, it, sop, a, b, node):
        for h in HOOKS["cmp"]:
            r = h(self, it, sop, a, b, node)
            if r is not NotImplemented:
                return r
        return NotImplemented

    def contains_hook(self, it, container, item, node):
        return NotImplemented

    def attr_hook(self, it, base, obj, attr, node):
        for h in HOOKS["attr"]:
            r = h(self, it, base, obj, attr, node)
            if r is not NotImplemented:
                return r
        if isinstance(base, SArr1):
            if attr == "shape":
                return tuple([1] * base.ndim)
            if attr in ("ravel", "flatten", "copy", "reshape", "item", "astype", "tolist"):
                return SFunc("objmethod", target=base, name=attr)
        if isinstance(base, tuple) and attr in ("index", "count"):
            return SFunc("objmethod", target=base, name=attr)
        if isinstance(base, SOpaque):
            f = OPAQUE_ATTRS.get((base.sort, attr))
            if f is not None:
                return f(self, it, base, node)
            return SFunc("objmethod", target=base, name=attr)
        return NotImplemented

    def getitem_hook(self, it, base, idx, node):
        for h in HOOKS["getitem"]:
            r = h(self, it, base, idx, node)
            if r is not NotImplemented:
                return r
        return NotImplemented

    def getslice_hook(self, it, base, lo, hi, node):
        for h in HOOKS["getslice"]:
            r = h(self, it, base, lo, hi, node)
            if r is not NotImplemented:
                return r
        return NotImplemented

    def setitem_hook(self, it, base, idx, val, node):
        for h in HOOKS["setitem"]:
            r = h(self, it, base, idx, val, node)
            if r is not NotImplemented:
                return r
        return NotImplemented

    def setslice_hook(self, it, base, lo, hi, val, node):
        for h in HOOKS["setslice"]:
            r = h(self, it, base, lo, hi, val, node)
            if r is not NotImplemented:
                return r
        return NotImplemented

    def comp_hook(self, it, e, iterable, fr, kind):
        for h in HOOKS["comp"]:
            r = h(self, it, e, iterable, fr, kind)
            if r is not NotImplemented:
                return r
        return NotImplemented

    def iter_hook(self, it, iterable, node):
        return NotImplemented

    def iter_symbolic_hook(self, it, iterable, node):
        for h in HOOKS["iter_symbolic"]:
            r = h(self, it, iterable, node)
            if r is not NotImplemented:
                return r
        return NotImplemented

    def make_symbolic_hook(self, it, reg, ty, name, fresh):
        for h in HOOKS["make_symbolic"]:
            r = h(self, it, reg, ty, name, fresh)
            if r is not NotImplemented:
                return r
        return NotImplemented

    def call_object(self, it, ref, obj, args, kwargs, fr, node):
        return NotImplemented

    def call_opaque(self, it, fn, args, kwargs, fr, node):
        raise Unsupported("call of opaque value %s" % fn.sort, node)

    # ------------------------------------------------------------------ helpers
    def note(self, it, what):
        it.run.notes.append(what)

    def pow2(self, it, k):
        ctx = it.ctx
        if isinstance(k, int):
            return 2 ** k if k >= 0 else Fraction(1, 2 ** (-k))
        f = ctx.uf("pow2", INT, INT)
        kz = b2i(z(k))
        t = f(kz)
        # per-term axiom instances: pow2(0)=1, pow2(k)=2*pow2(k-1) for k>=1, positivity
        ctx.fact(f(z3.IntVal(0)) == 1, key="pow2-0")
        ctx.fact(z3.Implies(kz >= 1, t == 2 * f(kz - 1)), key=("pow2-step", kz.sexpr()))
        ctx.fact(z3.Implies(kz >= 0, t >= 1), key=("pow2-pos", kz.sexpr()))
        ctx.fact(z3.Implies(kz >= 0, f(kz + 1) == 2 * t), key=("pow2-next", kz.sexpr()))
        self.note(it, "exact:pow2 (np.power(2,k) / 2**k for k>=0, axioms pow2(0)=1, pow2(k+1)=2*pow2(k))")
        return t

    def real_uf1(self, it, name, x, axioms=None):
        """uninterpreted Real->Real function applied to x with per-term axioms"""
        ctx = it.ctx
        f = ctx.uf(name, REAL, REAL)
        xs = ctx.__dict__.setdefault("uf_args", {}).setdefault(name, [z3.RealVal(1)] if name == "log" else [])
        xz = to_real(x)
        t = f(xz)
        if axioms is not None:
            axioms(ctx, f, xz, t, xs)
        if not any(xz.eq(o) for o in xs):
            xs.append(xz)
        return t

    def vsum(self, it, seq):
        """sum of a symbolic sequence: recursive function over (arr, lo, hi)"""
        ctx = it.ctx
        es = seq.arr.sort().range()
        nm = "vsum_%s" % ("int" if es == INT else "real")
        key = "rec!" + nm
        if key in GLOBAL_REC:
            ctx.ufs[key] = GLOBAL_REC[key]
        if key not in ctx.ufs:
            f = z3.RecFunction(nm, z3.ArraySort(INT, es), INT, INT, es)
            GLOBAL_REC[key] = f
            a = z3.Const(nm + "!a", z3.ArraySort(INT, es))
            lo, hi = z3.Ints(nm + "!lo " + nm + "!hi")
            zero = z3.IntVal(0) if es == INT else z3.RealVal(0)
            z3.RecAddDefinition(f, [a, lo, hi], z3.If(hi <= lo, zero, f(a, lo, hi - 1) + a[hi - 1]))
            ctx.ufs[key] = f
        return ctx.ufs[key](seq.arr, seq.lo, seq.hi)

    # maps keyed by symbolic ints (value = tuple of named reals handled by caller)
    def map_get(self, it, o, k):
        return it.run.wrap_elem(z3.Select(o.arr, k), o.elem)

    def map_set(self, it, o, k, v):
        o.arr = z3.Store(o.arr, k, it.elem_term(v, o.elem))
        o.dom = z3.Store(o.dom, k, z3.BoolVal(True))

    # ------------------------------------------------------------------ calls
    def call_external(self, it, dotted, args, kwargs, fr, node):
        fn = self.ext.get(dotted)
        if it.ctx.policy.get(dotted) == "any":
            # declared by the contract: the value this library call returns does not matter to the obligation - an
            # arbitrary opaque value (a fresh symbol), over-approximating whatever the library returns
            self.note(it, "opaque:%s returns an arbitrary opaque value (declared by the contract)" % dotted)
            return SOpaque("AnyVal", it.run.fresh(it.ctx.sort("AnyVal"), "any"))
        if fn is None:
            # try aliases: numpy.core..., scipy.stats.norm.cdf etc. are registered with their import names
            raise Unsupported("no model for external function %s" % dotted, node)
        self.used.add(dotted)
        return fn(self, it, args, kwargs, fr, node)

    def call_uf(self, it, fn, args, kwargs, node):
        """uninterpreted, deterministic user callable (selectors, divergence / margin functions)"""
        ctx = it.ctx
        zs = []
        for a in args:
            if isinstance(a, SOpaque):
                zs.append(a.t)
            elif is_num(a):
                zs.append(to_real(a))
            elif isinstance(a, SArr1):
                zs.append(to_real(a.val))
            elif a is None:
                zs.append(z3.RealVal(-1))
            elif isinstance(a, Ref):
                zs.append(z3.IntVal(a.oid))
            else:
                raise Unsupported("uninterpreted call with argument %r" % (a,), node)
        ret = getattr(fn, "ret", "Real")
        rs = REAL if ret == "Real" else (INT if ret == "Int" else (BOOL if ret == "Bool" else ctx.sort(ret)))
        f = ctx.uf("user!%s!%d" % (fn.name, len(zs)), *([x.sort() for x in zs] + [rs]))
        t = f(*zs)
        self.note(it, "opaque:user callable %s (deterministic uninterpreted function)" % fn.name)
        if ret in ("Real", "Int", "Bool"):
            return t
        return SOpaque(ret, t)

    def call_method(self, it, target, name, args, kwargs, fr, node):
        run = it.run
        if isinstance(target, Ref):
            o = run.obj(target)
            if isinstance(o, HList):
                return self.list_method(it, target, o, name, args, kwargs, node)
            if isinstance(o, HSeq):
                return self.seq_method(it, target, o, name, args, kwargs, node)
            if isinstance(o, HDict):
                return self.dict_method(it, target, o, name, args, kwargs, node)
            if isinstance(o, HMap):
                return self.map_method(it, target, o, name, args, kwargs, node)
            for h in HOOKS["method"]:
                r = h(self, it, target, o, name, args, kwargs, fr, node)
                if r is not NotImplemented:
                    return r
        if isinstance(target, SArr1):
            if name in ("ravel", "flatten"):
                return SArr1(target.val, 1)
            if name == "copy":
                return SArr1(target.val, target.ndim)
            if name == "item":
                return target.val
            if name == "reshape":
                return SArr1(target.val, len(args) if not isinstance(args[0], tuple) else len(args[0]))
        if isinstance(target, tuple):
            if name == "index":
                for i, x in enumerate(target):
                    e = run.eq(x, args[0])
                    if e is True:
                        return i
                raise Unsupported("tuple.index symbolic", node)
        for h in HOOKS["method"]:
            r = h(self, it, target, None, name, args, kwargs, fr, node)
            if r is not NotImplemented:
                return r
        raise Unsupported("method %s on %r" % (name, target), node)

    def list_method(self, it, ref, o, name, args, kwargs, node):
        run = it.run
        if name == "append":
            o.items.append(args[0])
            return None
        if name == "extend":
            o.items.extend(it.iter_concrete(args[0], node))
            return None
        if name == "copy":
            return run.alloc(HList(o.items))
        if name in ("ravel", "flatten"):
            flat = []
            for x in o.items:
                if isinstance(x, Ref) and isinstance(run.obj(x), HList):
                    flat.extend(run.obj(x).items)
                else:
                    flat.append(x)
            return run.alloc(HList(flat))
        if name == "index":
            # first index equal to arg: result is an int constrained by a definitional axiom
            n = len(o.items)
            if n == 0:
                raise X.PyRaise("ValueError")
            res = None
            conds = [zbool(run.eq(x, args[0])) for x in o.items]
            run.oblige("list.index-present@%s" % getattr(node, "lineno", "?"), OR(*conds), kind="safety")
            res = n - 1
            for k in range(n - 2, -1, -1):
                res = run.ite(conds[k], k, res)
            return res
        if name == "pop":
            if args:
                i = args[0]
                if isinstance(i, int):
                    return o.items.pop(i)
            else:
                return o.items.pop()
        raise Unsupported("list.%s" % name, node)

    def seq_method(self, it, ref, o, name, args, kwargs, node):
        if name == "append":
            old_arr, old_hi = o.arr, o.hi
            o.arr = z3.Store(o.arr, o.hi, it.elem_term(args[0], o.elem))
            o.hi = z3.simplify(o.hi + 1)
            from . import seqs
            seqs.note_append(it, o, old_arr, old_hi)
            return None
        if name == "copy":
            return it.run.alloc(HSeq(o.arr, o.lo, o.hi, o.elem))
        raise Unsupported("list.%s on symbolic list" % name, node)

    def dict_method(self, it, ref, o, name, args, kwargs, node):
        run = it.run
        if name == "copy":
            return run.alloc(HDict(o.items))
        if name == "keys":
            return tuple(o.items.keys())
        if name == "values":
            return tuple(o.items.values())
        if name == "items":
            return tuple((k, v) for k, v in o.items.items())
        if name == "update":
            src = args[0]
            if isinstance(src, Ref):
                so = run.obj(src)
                if isinstance(so, HDict):
                    o.items.update(so.items)
                    return None
            raise Unsupported("dict.update with %r" % (src,), node)
        if name == "get":
            k = args[0]
            if isinstance(k, (str, int)):
                return o.items.get(k, args[1] if len(args) > 1 else None)
        raise Unsupported("dict.%s" % name, node)

    def map_method(self, it, ref, o, name, args, kwargs, node):
        if name == "keys" and not args:
            return T(("mapkeys", ref))
        raise Unsupported("map.%s" % name, node)

    # ------------------------------------------------------------------ builtins
    def register_builtins(self):
        E = self.ext

        def b_len(self, it, args, kw, fr, node):
            v = args[0]
            run = it.run
            if isinstance(v, SOpt):
                v = run.unopt(v, "argument of len")
            if isinstance(v, (tuple, str)):
                if tag(v) == "range":
                    n = arith("-", v[2], v[1])
                    return n if not is_z3(n) else z3.If(n < 0, 0, n)
                return len(v)
            if isinstance(v, SArr1):
                return 1
            if isinstance(v, Ref):
                o = run.obj(v)
                if isinstance(o, HList):
                    return len(o.items)
                if isinstance(o, HSeq):
                    return z3.simplify(o.hi - o.lo)
                if isinstance(o, HDict):
                    return len(o.items)
                for h in HOOKS["len"]:
                    r = h(self, it, v, o, node)
                    if r is not NotImplemented:
                        return r
            for h in HOOKS["len"]:
                r = h(self, it, v, None, node)
                if r is not NotImplemented:
                    return r
            raise Unsupported("len of %r" % (v,), node)
        E["builtins.len"] = b_len

        def b_int(self, it, args, kw, fr, node):
            v = args[0]
            if isinstance(v, SArr1):
                v = v.val
            if isinstance(v, bool):
                return int(v)
            if isinstance(v, int):
                return v
            if isinstance(v, Fraction):
                return int(v)
            if is_z3(v):
                if v.sort() == BOOL:
                    return z3.If(v, z3.IntVal(1), z3.IntVal(0))
                if v.sort() == INT:
                    return v
                if v.sort() == REAL:
                    return z3.If(v >= 0, z3.ToInt(v), -z3.ToInt(-v))
                if v.sort() == Label:
                    raise X.PyRaise("LabelArithmetic", "int() of a label")
            if isinstance(v, SOpt):
                return b_int(self, it, [it.run.unopt(v)], kw, fr, node)
            raise Unsupported("int(%r)" % (v,), node)
        E["builtins.int"] = b_int

        def b_float(self, it, args, kw, fr, node):
            v = args[0]
            if isinstance(v, str):
                if v in ("inf", "+inf", "Infinity"):
                    return SExt(True, z3.RealVal(0))
                raise Unsupported("float(%r)" % v, node)
            v = it.run.num(v)
            if isinstance(v, SArr1):
                v = v.val
            if isinstance(v, (int, bool)):
                return Fraction(int(v))
            if isinstance(v, Fraction):
                return v
            return to_real(v)
        E["builtins.float"] = b_float

        def b_bool(self, it, args, kw, fr, node):
            return it.run.truth(args[0])
        E["builtins.bool"] = b_bool

        def b_abs(self, it, args, kw, fr, node):
            v = it.run.num(args[0])
            if isinstance(v, SArr1):
                return SArr1(b_abs(self, it, [v.val], kw, fr, node), v.ndim)
            if not is_z3(v):
                return abs(v)
            v = b2i(v)
            return z3.If(v >= 0, v, -v)
        E["builtins.abs"] = b_abs
        E["numpy.absolute"] = b_abs
        E["numpy.abs"] = b_abs

        def np_isclose(self, it, args, kw, fr, node):
            # scalar numpy.isclose(a, b, rtol=1e-05, atol=1e-08):  |a - b| <= atol + rtol * |b|   (exact over the reals;
            # nan / inf operands are outside the encoding, like everywhere else: machine floats are treated as reals)
            a, b = it.run.num(args[0]), it.run.num(args[1])
            rtol = it.run.num(kw["rtol"]) if "rtol" in kw else (it.run.num(args[2]) if len(args) > 2 else z3.RealVal("1/100000"))
            atol = it.run.num(kw["atol"]) if "atol" in kw else (it.run.num(args[3]) if len(args) > 3 else z3.RealVal("1/100000000"))
            if any(isinstance(v, SArr1) for v in (a, b)):
                raise Unsupported("numpy.isclose on arrays", node)
            if not any(is_z3(v) for v in (a, b, rtol, atol)):
                return abs(a - b) <= atol + rtol * abs(b)
            a, b = (z3.RealVal(v) if not is_z3(v) else to_real(b2i(v)) for v in (a, b))
            rtol, atol = (z3.RealVal(v) if not is_z3(v) else to_real(v) for v in (rtol, atol))
            absf = lambda v: z3.If(v >= 0, v, -v)
            self.note(it, "exact:numpy.isclose of two scalars (|a - b| <= atol + rtol * |b| over the reals)")
            return absf(a - b) <= atol + rtol * absf(b)
        E["numpy.isclose"] = np_isclose

        def minmax(is_max):
            def f(self, it, args, kw, fr, node):
                if len(args) == 1:
                    for h in HOOKS["minmax1"]:
                        r = h(self, it, args[0], is_max, node)
                        if r is not NotImplemented:
                            return r
                    items = it.iter_concrete(args[0], node)
                else:
                    items = list(args)
                if not items:
                    raise X.PyRaise("ValueError")
                cur = it.run.num(items[0])
                for x in items[1:]:
                    x = it.run.num(x)
                    c = cmp(">" if is_max else "<", x, cur)
                    cur = it.run.ite(c, x, cur)
                return cur
            return f
        E["builtins.max"] = minmax(True)
        E["builtins.min"] = minmax(False)

        def b_sum(self, it, args, kw, fr, node):
            v = args[0]
            if isinstance(v, Ref):
                o = it.run.obj(v)
                if isinstance(o, HSeq):
                    return self.vsum(it, o)
            for h in HOOKS["sum"]:
                r = h(self, it, v, node)
                if r is not NotImplemented:
                    return r
            items = it.iter_concrete(v, node)
            cur = args[1] if len(args) > 1 else 0
            for x in items:
                cur = arith("+", cur, it.run.num(x))
            return cur
        E["builtins.sum"] = b_sum

        def b_round(self, it, args, kw, fr, node):
            v = it.run.num(args[0])
            nd = args[1] if len(args) > 1 else None
            if not is_z3(v) and (nd is None or isinstance(nd, int)):
                return round(v, nd) if nd is not None else round(v)
            if is_int(v) and nd is None:
                return b2i(z(v))
            if nd is None:
                f = it.ctx.uf("round_half_even", REAL, INT)
                t = f(to_real(v))
                vr = to_real(v)
                it.ctx.fact(z3.And(z3.ToReal(t) - vr <= z3.RealVal("1/2"), vr - z3.ToReal(t) <= z3.RealVal("1/2")),
                            key=("round", vr.sexpr()))
                self.note(it, "axiom:round(x) (|round(x)-x| <= 1/2, ties unspecified)")
                return t
            f = it.ctx.uf("round_nd", REAL, INT, REAL)
            self.note(it, "opaque:round(x, ndigits)")
            return f(to_real(v), b2i(z(nd)))
        E["builtins.round"] = b_round

        def b_range(self, it, args, kw, fr, node):
            if len(args) == 1:
                return T(("range", 0, args[0], 1))
            if len(args) == 2:
                return T(("range", args[0], args[1], 1))
            return T(("range", args[0], args[1], args[2]))
        E["builtins.range"] = b_range

        def b_enumerate(self, it, args, kw, fr, node):
            return T(("enumerate", args[0]))
        E["builtins.enumerate"] = b_enumerate

        def b_zip(self, it, args, kw, fr, node):
            return T(("zip", list(args)))
        E["builtins.zip"] = b_zip

        def b_list(self, it, args, kw, fr, node):
            if not args:
                return it.run.alloc(HList([]))
            v = args[0]
            if isinstance(v, Ref) and isinstance(it.run.obj(v), HSeq):
                o = it.run.obj(v)
                return it.run.alloc(HSeq(o.arr, o.lo, o.hi, o.elem))
            for h in HOOKS["list"]:
                r = h(self, it, v, node)
                if r is not NotImplemented:
                    return r
            if tag(v) == "range" and v[3] == 1 and any(is_z3(x) for x in v[1:3]):
                # list(range(a, b)) with symbolic bounds: the sequence a, a + 1, ..., b - 1 (exact)
                a, b = b2i(z(v[1])), b2i(z(v[2]))
                i = z3.Int("i!rng%d" % it.run.fresh_n)
                it.run.fresh_n += 1
                n = z3.If(b - a >= 0, b - a, z3.IntVal(0))
                return it.run.alloc(HSeq(z3.Lambda([i], a + i), z3.IntVal(0), z3.simplify(n), "Int"))
            return it.run.alloc(HList(it.iter_concrete(v, node)))
        E["builtins.list"] = b_list

        def b_tuple(self, it, args, kw, fr, node):
            if not args:
                return ()
            return tuple(it.iter_concrete(args[0], node))
        E["builtins.tuple"] = b_tuple

        def b_dict(self, it, args, kw, fr, node):
            if not args:
                return it.run.alloc(HDict(dict(kw)))
            v = args[0]
            if isinstance(v, Ref) and isinstance(it.run.obj(v), HDict):
                return it.run.alloc(HDict(it.run.obj(v).items))
            for h in HOOKS["dict"]:
                r = h(self, it, v, node)
                if r is not NotImplemented:
                    return r
            raise Unsupported("dict(%r)" % (v,), node)
        E["builtins.dict"] = b_dict

        def b_any(self, it, args, kw, fr, node):
            items = it.iter_concrete(args[0], node)
            return OR(*[it.run.truth(x) for x in items])
        E["builtins.any"] = b_any

        def b_all(self, it, args, kw, fr, node):
            items = it.iter_concrete(args[0], node)
            return AND(*[it.run.truth(x) for x in items])
        E["builtins.all"] = b_all

        def b_print(self, it, args, kw, fr, node):
            return None
        E["builtins.print"] = b_print

        def b_isinstance(self, it, args, kw, fr, node):
            v, c = args
            for h in HOOKS["isinstance"]:
                r = h(self, it, v, c, node)
                if r is not NotImplemented:
                    return r
            if isinstance(c, X.SMod):
                nm = c.dotted.split(".")[-1]
                if nm == "int":
                    if isinstance(v, bool) or isinstance(v, int):
                        return True
                    if is_z3(v):
                        return v.sort() in (INT, BOOL)
                    return False
                if nm in ("DataFrame", "ndarray", "Series"):
                    if is_num(v) or v is None or isinstance(v, (SArr1, str, tuple)):
                        return nm == "ndarray" and isinstance(v, SArr1)
                    if isinstance(v, Ref) and isinstance(it.run.obj(v), (HList, HSeq, HDict)):
                        return False
            raise Unsupported("isinstance(%r, %r)" % (v, c), node)
        E["builtins.isinstance"] = b_isinstance

        def b_hasattr(self, it, args, kw, fr, node):
            v, nm = args
            if isinstance(v, Ref):
                o = it.run.obj(v)
                if isinstance(o, HObj):
                    if nm in o.fields:
                        return True
                    ci = it.repo.classes.get(o.cls)
                    if ci is not None:
                        return bool(it.repo.find_getter(ci, nm) or it.repo.find_method(ci, nm))
                    for h in HOOKS["hasattr"]:
                        r = h(self, it, v, o, nm, node)
                        if r is not NotImplemented:
                            return r
                    return False
            raise Unsupported("hasattr on %r" % (v,), node)
        E["builtins.hasattr"] = b_hasattr

        def b_id(self, it, args, kw, fr, node):
            v = args[0]
            if isinstance(v, Ref):
                return v.oid
            raise Unsupported("id()", node)
        E["builtins.id"] = b_id

        def b_set(self, it, args, kw, fr, node):
            raise Unsupported("set()", node)
        E["builtins.set"] = b_set

        def b_sorted(self, it, args, kw, fr, node):
            raise Unsupported("sorted()", node)
        E["builtins.sorted"] = b_sorted

        def b_str(self, it, args, kw, fr, node):
            return SStr(z3.IntVal(it.ctx.intern("<str()>")))
        E["builtins.str"] = b_str
        E["builtins.type"] = b_str

    # ------------------------------------------------------------------ numpy scalar fragment
    def register_numpy(self):
        E = self.ext

        def sqrt_ax(ctx, f, x, t, others):
            # sqrt is total here: non-negative everywhere (arbitrary on negatives, where numpy yields NaN: A-REAL)
            ctx.fact(z3.And(t >= 0, z3.Implies(x >= 0, t * t == x)), key=("sqrt", x.sexpr()))
            for o in others:
                if not o.eq(x):
                    ctx.fact(z3.And(z3.Implies(z3.And(o >= 0, o <= x), f(o) <= t),
                                    z3.Implies(z3.And(x >= 0, x <= o), t <= f(o))),
                             key=("sqrt-mono", x.sexpr(), o.sexpr()))

        def np_sqrt(self, it, args, kw, fr, node):
            v = it.run.num(args[0])
            self.note(it, "axiom:sqrt (sqrt(x)>=0; x>=0 -> sqrt(x)^2=x; monotone on non-negatives; arbitrary non-negative value on negatives)")
            if isinstance(v, SArr1):
                return SArr1(self.real_uf1(it, "sqrt", v.val, sqrt_ax), v.ndim)
            return self.real_uf1(it, "sqrt", v, sqrt_ax)
        E["numpy.sqrt"] = np_sqrt
        E["math.sqrt"] = np_sqrt

        def log_ax(ctx, f, x, t, others):
            ctx.fact(f(z3.RealVal(1)) == 0, key="log1")
            ctx.fact(z3.Implies(x >= 1, t >= 0), key=("log-pos", x.sexpr()))
            # 1 - 1/x <= log x <= x - 1 for x > 0
            ctx.fact(z3.Implies(x > 0, z3.And(t <= x - 1, t * x >= x - 1)), key=("log-bounds", x.sexpr()))
            for o in others:
                if not o.eq(x):
                    ctx.fact(z3.And(z3.Implies(z3.And(o > 0, o <= x), f(o) <= t),
                                    z3.Implies(z3.And(x > 0, x <= o), t <= f(o)),
                                    z3.Implies(z3.And(o > 0, o < x), f(o) < t),
                                    z3.Implies(z3.And(x > 0, x < o), t < f(o))),
                             key=("log-mono", x.sexpr(), o.sexpr()))

        def np_log(self, it, args, kw, fr, node):
            v = it.run.num(args[0])
            self.note(it, "axiom:log (log 1 = 0, strictly monotone on positives, 1 - 1/x <= log x <= x - 1)")
            if isinstance(v, SArr1):
                return SArr1(self.real_uf1(it, "log", v.val, log_ax), v.ndim)
            return self.real_uf1(it, "log", v, log_ax)
        E["numpy.log"] = np_log
        E["math.log"] = np_log

        def np_power(self, it, args, kw, fr, node):
            a, b = args
            if isinstance(a, int) and a == 2:
                return self.pow2(it, b)
            return it.power(it.run.num(a), it.run.num(b), node)
        E["numpy.power"] = np_power

        def np_floor(self, it, args, kw, fr, node):
            v = it.run.num(args[0])
            if not is_z3(v):
                import math
                return Fraction(math.floor(v))
            if v.sort() == INT:
                return z3.ToReal(v)
            return z3.ToReal(z3.ToInt(v))
        E["numpy.floor"] = np_floor

        def cdf_ax(ctx, f, x, t, others):
            ctx.fact(z3.And(t >= 0, t <= 1), key=("cdf-range", x.sexpr()))
            for o in others:
                if not o.eq(x):
                    ctx.fact(z3.And(z3.Implies(o <= x, f(o) <= t), z3.Implies(x <= o, t <= f(o))),
                             key=("cdf-mono", x.sexpr(), o.sexpr()))

        def norm_cdf(self, it, args, kw, fr, node):
            v = it.run.num(args[0])
            loc = args[1] if len(args) > 1 else kw.get("loc", 0)
            scale = args[2] if len(args) > 2 else kw.get("scale", 1)
            if not (loc == 0 and scale == 1):
                raise Unsupported("norm.cdf with loc/scale", node)
            self.note(it, "axiom:scipy.stats.norm.cdf (monotone, range [0,1])")
            return self.real_uf1(it, "norm_cdf", v, cdf_ax)
        E["scipy.stats.norm.cdf"] = norm_cdf


def _det_drift_state(models, it, base, node):
    f = it.ctx.uf("drift_state_of", it.ctx.sort("Det"), INT)
    t = f(base.t)
    it.ctx.fact(t >= 0, key=("ds-dom", t.sexpr()))
    return SOpt(t == 0, SStr(t))


OPAQUE_ATTRS = {("Det", "drift_state"): _det_drift_state}

GLOBAL_REC = {}

HOOKS = {k: [] for k in ("binop", "cmp", "attr", "getitem", "getslice", "setitem", "setslice", "comp",
                         "iter_symbolic", "make_symbolic", "method", "len", "minmax1", "sum", "list", "dict",
                         "isinstance", "hasattr")}


def _register_scipy():
    def ppf_ax(ctx, name, f, q, df, t):
        reg = ctx.__dict__.setdefault("uf2_args", {}).setdefault(name, [])
        for (q2, df2, t2) in reg:
            if df2.eq(df) and not q2.eq(q):
                ctx.fact(z3.And(z3.Implies(q2 <= q, t2 <= t), z3.Implies(q <= q2, t <= t2)), key=(name + "-mono", q.sexpr(), q2.sexpr(), df.sexpr()))
        if not any(q2.eq(q) and df2.eq(df) for (q2, df2, t2) in reg):
            reg.append((q, df, t))

    def t_ppf(self, it, args, kw, fr, node):
        q, df = to_real(it.run.num(args[0])), to_real(it.run.num(args[1]))
        f = it.ctx.uf("t_ppf", REAL, REAL, REAL)
        t = f(q, df)
        ppf_ax(it.ctx, "t_ppf", f, q, df, t)
        self.note(it, "axiom:scipy.stats.t.ppf (monotone in the level for a fixed number of degrees of freedom)")
        return t

    def norm_ppf(self, it, args, kw, fr, node):
        q = to_real(it.run.num(args[0]))
        loc = to_real(it.run.num(args[1])) if len(args) > 1 else z3.RealVal(0)
        scale = to_real(it.run.num(args[2])) if len(args) > 2 else z3.RealVal(1)
        f = it.ctx.uf("norm_ppf01", REAL, REAL)
        t = f(q)
        ppf_ax(it.ctx, "norm_ppf01", f, q, z3.RealVal(0), t)
        self.note(it, "axiom:scipy.stats.norm.ppf(q, loc, scale) == loc + scale * ppf01(q), ppf01 monotone")
        return loc + scale * t
    orig = Models.__init__

    def new_init(self):
        orig(self)
        self.ext["scipy.stats.t.ppf"] = t_ppf
        self.ext["scipy.stats.norm.ppf"] = norm_ppf
    Models.__init__ = new_init


_register_scipy()
