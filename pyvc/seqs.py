"""Sequence fragment: counting / mapping over symbolic lists, comprehensions, spec forms count / count2 / zeros."""
import ast
import copy
import z3

from .sym import (T, tag, Unsupported, SStr, SOpt, SExt, Ref, SOpaque, SArr1, SFunc, HObj, HList, HSeq, HDict, HMap, HVec,
                  Label, INT, REAL, BOOL, is_z3, is_num, is_int, is_bool, z, b2i, to_real, zbool, AND, OR, NOT,
                  IMPLIES, cmp, arith)
from . import execu as X
from .models import HOOKS


GLOBAL_REC = {}


class _Rename(ast.NodeTransformer):
    def __init__(self, mapping):
        self.mapping = mapping

    def visit_Name(self, n):
        if n.id in self.mapping:
            return ast.copy_location(ast.Name(id=self.mapping[n.id], ctx=n.ctx), n)
        return n


def canon_pred(body, argnames):
    mapping = {a: "_x%d" % i for i, a in enumerate(argnames)}
    b = _Rename(mapping).visit(copy.deepcopy(body))
    free = set()
    for n in ast.walk(b):
        if isinstance(n, ast.Name) and n.id not in mapping.values() and n.id not in ("True", "False", "None"):
            free.add(n.id)
    if free:
        raise Unsupported("count predicate must be closed (free: %s)" % sorted(free))
    return b, ast.dump(b)


def as_array(it, v):
    """-> (z3 array, elem kind) for a sequence value anchored at index 0"""
    if isinstance(v, SOpt):
        v = it.run.unopt(v, "sequence")
    if tag(v) == "zarray":
        return v[1], v[2]
    if isinstance(v, Ref):
        o = it.run.obj(v)
        if isinstance(o, HList):
            o = it.list_to_seq(o)
        if isinstance(o, HSeq):
            lo = z3.simplify(o.lo) if is_z3(o.lo) else z3.IntVal(o.lo)
            if not (z3.is_int_value(lo) and lo.as_long() == 0):
                # re-anchor
                i = z3.Int("i!anchor")
                return z3.Lambda([i], o.arr[o.lo + i]), o.elem
            return o.arr, o.elem
    raise Unsupported("not a sequence: %r" % (v,))


def elem_sort_of(ctx, elem):
    if elem in ("Int", "Str", "OptStr"):
        return INT
    if elem == "Real":
        return REAL
    if elem == "Bool":
        return BOOL
    if elem == "Label":
        return Label
    return ctx.sort(elem)


def count_fn(it, pred_body, argnames, elems):
    """canonical recursive counter for a closed predicate over len(elems) parallel arrays"""
    ctx = it.ctx
    body, key = canon_pred(pred_body, argnames)
    full = "cnt!%s!%s" % ("/".join(elems), key)
    table = GLOBAL_REC      # z3's context is process-global: recursive definitions are shared by all tasks
    if full in table:
        return table[full]
    name = "count%d" % len(table)
    sorts = [z3.ArraySort(INT, elem_sort_of(ctx, e)) for e in elems]
    f = z3.RecFunction(name, *(sorts + [INT, INT]))
    arrs = [z3.Const("%s!a%d" % (name, i), s) for i, s in enumerate(sorts)]
    k = z3.Int(name + "!k")
    env = {}
    for i, (a, e) in enumerate(zip(arrs, elems)):
        env["_x%d" % i] = it.run.wrap_elem(a[k - 1], e)
    fr = X.Frame(env, None, None, module=None)
    fr.spec = X.SpecEnv()
    fr.spec.old = None
    it.run.spec_depth += 1
    try:
        p = it.run.truth(it.ev(body, fr))
    finally:
        it.run.spec_depth -= 1
    p = zbool(p)
    z3.RecAddDefinition(f, arrs + [k], z3.If(k <= 0, z3.IntVal(0), f(*(arrs + [k - 1])) + z3.If(p, 1, 0)))
    table[full] = f
    return f


def _spec_count(self, e, fr):
    lam = e.args[0]
    if not isinstance(lam, ast.Lambda):
        raise Unsupported("count: first argument must be a lambda")
    argn = [a.arg for a in lam.args.args]
    seqs = [self.ev(a, fr) for a in e.args[1:-1]]
    k = self.ev(e.args[-1], fr)
    arrs, elems = [], []
    for s in seqs:
        a, el = as_array(self, s)
        arrs.append(a)
        elems.append(el)
    f = count_fn(self, lam.body, argn, elems)
    return f(*(arrs + [b2i(z(k))]))


def _spec_zeros(self, e, fr):
    n = self.ev(e.args[0], fr)
    return self.run.alloc(HSeq(z3.K(INT, z3.IntVal(0)), z3.IntVal(0), b2i(z(n)), "Int"))


def _spec_c_in(self, e, fr):
    """effective input sequence of an optional list: zeros(n) when None"""
    v = self.ev(e.args[0], fr)
    n = self.ev(e.args[1], fr)
    zeros = z3.K(INT, z3.IntVal(0))
    if v is None:
        return T(("zarray", zeros, "Int"))
    if isinstance(v, SOpt):
        a, el = as_array(self, v.val)
        return T(("zarray", z3.If(zbool(v.isnone), zeros, a), "Int"))
    a, el = as_array(self, v)
    return T(("zarray", a, el))


X.Interp.spec_count = _spec_count
X.Interp.spec_count2 = _spec_count
X.Interp.spec_zeros = _spec_zeros
X.Interp.spec_c_in = _spec_c_in


# ---------------------------------------------------------------------------
def _getitem_zarray(models, it, base, idx, node):
    if tag(base) == "zarray":
        return it.run.wrap_elem(base[1][b2i(z(idx))], base[2])
    return NotImplemented


HOOKS["getitem"].append(_getitem_zarray)


def _len_hook(models, it, v, o, node):
    return NotImplemented


def kind_of_value(it, v):
    if isinstance(v, SOpt) and isinstance(v.val, SStr):
        return "OptStr"
    if isinstance(v, SStr) or isinstance(v, str):
        return "Str"
    if isinstance(v, bool) or (is_z3(v) and v.sort() == BOOL):
        return "Bool"
    if is_int(v):
        return "Int"
    if is_num(v):
        return "Real"
    if is_z3(v) and v.sort() == Label:
        return "Label"
    if isinstance(v, SOpaque):
        return v.sort
    raise Unsupported("element kind of %r" % (v,))


def _comp_hook(models, it, e, iterable, fr, kind):
    """list comprehension over a symbolic-length list: map -> lambda array, filter -> counted length"""
    run = it.run
    if kind != "list" or not isinstance(iterable, Ref):
        return NotImplemented
    o = run.obj(iterable)
    if not isinstance(o, HSeq):
        return NotImplemented
    n = z3.simplify(o.hi - o.lo)
    if z3.is_int_value(n):
        return NotImplemented
    g = e.generators[0]
    if not isinstance(g.target, ast.Name):
        raise Unsupported("comprehension target", e)
    arr, elem = as_array(it, iterable)
    tname = g.target.id
    if g.ifs:
        if len(g.ifs) != 1 or not (isinstance(e.elt, ast.Name) and e.elt.id == tname):
            raise Unsupported("filter comprehension must be [x for x in xs if p(x)]", e)
        f = count_fn(it, g.ifs[0], [tname], [elem])
        cnt = f(arr, n)
        it.ctx.fact(z3.And(cnt >= 0, cnt <= n), key=("cnt-range", cnt.sexpr()))
        res = run.fresh(arr.sort(), "filtered")
        models.note(it, "exact:filter comprehension (length = recursive count of the predicate; elements unspecified)")
        return run.alloc(HSeq(res, z3.IntVal(0), cnt, elem))
    # map
    depth = getattr(run, "comp_depth", 0)
    i = z3.Int("i!map%d" % depth)
    run.comp_depth = depth + 1
    sub = X.Frame({tname: run.wrap_elem(arr[i], elem)}, fr.fi, fr.cls, parent=fr, module=fr.module)
    sub.spec = X.SpecEnv()
    sub.spec.old = getattr(run, "old_state", None)
    run.spec_depth += 1
    try:
        v = it.ev(e.elt, sub)
    finally:
        run.spec_depth -= 1
        run.comp_depth = depth
    k = kind_of_value(it, v)
    t = it.elem_term(v, k)
    return run.alloc(HSeq(z3.Lambda([i], t), z3.IntVal(0), n, k))


HOOKS["comp"].append(_comp_hook)


# -- mean / std of a list (axiomatised uninterpreted functions of (array, lo, hi)) -----------------
def _seq_of(it, v, node=None):
    if isinstance(v, SOpt):
        v = it.run.unopt(v, "sequence")
    if isinstance(v, Ref):
        o = it.run.obj(v)
        if isinstance(o, HList):
            o = it.list_to_seq(o)
        if isinstance(o, HSeq):
            return o
    raise Unsupported("mean/std of %r" % (v,), node)


def seq_stat(models, it, name, v, node=None):
    o = _seq_of(it, v, node)
    arr = o.arr
    if arr.sort().range() == INT:
        i = z3.Int("i!toreal")
        arr = z3.Lambda([i], z3.ToReal(o.arr[i]))
    f = it.ctx.uf(name, z3.ArraySort(INT, REAL), INT, INT, REAL)
    t = f(arr, b2i(z(o.lo)), b2i(z(o.hi)))
    if name == "seq_std":
        it.ctx.fact(t >= 0, key=("std-nonneg", t.sexpr()))
    models.note(it, "axiom:np.mean / np.std of a list (uninterpreted functions of the element sequence; std >= 0)")
    return t


def _np_mean(models, it, args, kw, fr, node):
    return seq_stat(models, it, "seq_mean", args[0], node)


def _np_std(models, it, args, kw, fr, node):
    if kw:
        raise Unsupported("np.std with keyword arguments", node)
    return seq_stat(models, it, "seq_std", args[0], node)


def _spec_seq_mean(self, e, fr):
    return seq_stat(self.ctx.models, self, "seq_mean", self.ev(e.args[0], fr), e)


def _spec_seq_std(self, e, fr):
    return seq_stat(self.ctx.models, self, "seq_std", self.ev(e.args[0], fr), e)


X.Interp.spec_seq_mean = _spec_seq_mean
X.Interp.spec_seq_std = _spec_seq_std

from . import arrays as _arrays  # noqa: E402
_arrays.EXTRA_EXT["numpy.mean"] = _np_mean
_arrays.EXTRA_EXT["numpy.std"] = _np_std


# -- sums over sequences: spec forms and automatic instantiation of the (proved) library lemmas ------------------
def _hseq(it, v):
    if isinstance(v, SOpt):
        v = v.val
    if tag(v) == "zarray":
        return HSeq(v[1], z3.IntVal(0), z3.IntVal(0), v[2])
    o = it.run.obj(v)
    if isinstance(o, HList):
        o = it.list_to_seq(o)
    return o


def _spec_asum(self, e, fr):
    o = _hseq(self, self.ev(e.args[0], fr))
    lo = b2i(z(self.ev(e.args[1], fr)))
    hi = b2i(z(self.ev(e.args[2], fr)))
    f = vsum_fn(self, o.arr.sort().range())
    return f(o.arr, o.lo + lo, o.lo + hi)


def _spec_store(self, e, fr):
    o = _hseq(self, self.ev(e.args[0], fr))
    k = b2i(z(self.ev(e.args[1], fr)))
    v = self.ev(e.args[2], fr)
    return self.run.alloc(HSeq(z3.Store(o.arr, o.lo + k, self.elem_term(v, o.elem)), o.lo, o.hi, o.elem))


def vsum_fn(it, es):
    dummy = HSeq(z3.K(INT, z3.IntVal(0) if es == INT else z3.RealVal(0)), z3.IntVal(0), z3.IntVal(0))
    it.ctx.models.vsum(it, dummy)
    return it.ctx.ufs["rec!vsum_%s" % ("int" if es == INT else "real")]


X.Interp.spec_asum = _spec_asum
X.Interp.spec_store = _spec_store


def note_append(it, o, old_arr, old_hi):
    """instance of lemma vsum_frame: writing at or beyond hi does not change the sum of [lo, hi)"""
    es = o.arr.sort().range()
    if es not in (INT, REAL):
        return
    f = vsum_fn(it, es)
    it.ctx.fact(z3.Implies(o.lo <= old_hi, f(o.arr, o.lo, old_hi) == f(old_arr, o.lo, old_hi)),
                key=("vsum-frame", o.arr.sexpr(), str(o.lo)))
    it.run.assumed.append("lemma:vsum_frame")


def note_slice(it, o, new_lo, new_hi):
    """instance of lemma vsum_split at the new bounds"""
    es = o.arr.sort().range()
    if es not in (INT, REAL):
        return
    f = vsum_fn(it, es)
    a, lo, hi = o.arr, o.lo, o.hi
    it.ctx.fact(z3.Implies(z3.And(lo <= new_lo, new_lo <= new_hi, new_hi <= hi),
                           f(a, lo, hi) == f(a, lo, new_lo) + f(a, new_lo, new_hi) + f(a, new_hi, hi)),
                key=("vsum-split", a.sexpr(), str(lo), str(hi), str(new_lo), str(new_hi)))
    it.run.assumed.append("lemma:vsum_split")


# -- numpy 1-D constructors and slice assignment on sequences --------------------------------------------------------
def _np_zeros(models, it, args, kw, fr, node, val=0):
    n = args[0]
    if isinstance(n, tuple):
        raise Unsupported("np.zeros with a shape tuple", node)
    return it.run.alloc(HSeq(z3.K(INT, z3.RealVal(val)), z3.IntVal(0), b2i(z(n)), "Real", nd=True))


def _np_ones(models, it, args, kw, fr, node):
    return _np_zeros(models, it, args, kw, fr, node, val=1)


def _np_empty_like(models, it, args, kw, fr, node):
    o = _seq_of(it, args[0], node)
    arr = it.run.fresh(o.arr.sort(), "empty_like")
    return it.run.alloc(HSeq(arr, z3.IntVal(0), z3.simplify(o.hi - o.lo), o.elem, nd=True))


def _norm_bound(x, n, default):
    if x is None:
        return default
    zx = b2i(z(x))
    zx = z3.If(zx < 0, zx + n, zx)
    return z3.If(zx < 0, z3.IntVal(0), z3.If(zx > n, n, zx))


def _setslice(models, it, base, lo, hi, val, node):
    if not isinstance(base, Ref):
        return NotImplemented
    o = it.run.obj(base)
    if not isinstance(o, HSeq):
        return NotImplemented
    n = o.hi - o.lo
    a = _norm_bound(lo, n, z3.IntVal(0))
    b = _norm_bound(hi, n, n)
    i = z3.Int("i!ss%d" % it.run.fresh_n)
    it.run.fresh_n += 1
    inside = z3.And(i >= o.lo + a, i < o.lo + b)
    if isinstance(val, Ref) and isinstance(it.run.obj(val), (HSeq, HList)):
        src = _seq_of(it, val, node)
        # numpy requires equal lengths (broadcast of a length-1 source is not used by the analysed code)
        it.run.oblige("slice-assign-length@%s" % getattr(node, "lineno", "?"),
                      z3.If(b - a < 0, z3.IntVal(0), b - a) == src.hi - src.lo, kind="safety")
        o.arr = z3.Lambda([i], z3.If(inside, src.arr[src.lo + (i - (o.lo + a))], o.arr[i]))
    else:
        t = it.elem_term(val, o.elem)
        o.arr = z3.Lambda([i], z3.If(inside, t, o.arr[i]))
    return True


HOOKS["setslice"].append(_setslice)
_arrays.EXTRA_EXT["numpy.zeros"] = _np_zeros
_arrays.EXTRA_EXT["numpy.ones"] = _np_ones
_arrays.EXTRA_EXT["numpy.empty_like"] = _np_empty_like


# -- element-wise arithmetic on 1-D numpy arrays ------------------------------------------------------------------------
def _np_array_seq(models, it, v, kw, node):
    if isinstance(v, Ref):
        o = it.run.obj(v)
        if isinstance(o, HList) and o.items and all(isinstance(x, Ref) and isinstance(it.run.obj(x), HList) for x in o.items):
            # a small literal matrix: list of row lists (copied)
            return it.run.alloc(HList([it.run.alloc(HList(it.run.obj(x).items)) for x in o.items]))
        if isinstance(o, HList) and o.items and all(is_num(x) for x in o.items):
            o = it.list_to_seq(o)
        if isinstance(o, HSeq) and o.elem in ("Int", "Real"):
            i = z3.Int("i!npa")
            return it.run.alloc(HSeq(z3.Lambda([i], o.arr[o.lo + i]), z3.IntVal(0), z3.simplify(o.hi - o.lo), o.elem, nd=True))
    return NotImplemented


_arrays.HOOKS_ARRAY.append(_np_array_seq)


def _vec_binop(models, it, op, a, b, node):
    ra = isinstance(a, Ref) and isinstance(it.run.obj(a), HSeq) and it.run.obj(a).nd
    rb = isinstance(b, Ref) and isinstance(it.run.obj(b), HSeq) and it.run.obj(b).nd
    if not (ra or rb):
        return NotImplemented
    sop = X.BINOPS.get(type(op))
    if sop not in ("+", "-", "*", "/"):
        raise Unsupported("vector operator", node)
    i = z3.Int("i!vec")

    def elem(v, isvec):
        if isvec:
            o = it.run.obj(v)
            return o.arr[o.lo + i], o
        vv = it.run.num(v)
        if isinstance(vv, SArr1):
            vv = vv.val
        return vv, None
    ea, oa = elem(a, ra)
    eb, ob = elem(b, rb)
    if oa is not None and ob is not None:
        it.run.oblige("vector-lengths@%s" % getattr(node, "lineno", "?"), (oa.hi - oa.lo) == (ob.hi - ob.lo), kind="safety")
    n = (oa.hi - oa.lo) if oa is not None else (ob.hi - ob.lo)
    t = arith(sop, ea, eb)
    es = "Int" if (is_z3(t) and t.sort() == INT) else "Real"
    models.note(it, "exact:element-wise arithmetic on 1-D numpy arrays (as lambda arrays)")
    return it.run.alloc(HSeq(z3.Lambda([i], t), z3.IntVal(0), z3.simplify(n), es, nd=True))


HOOKS["binop"].append(_vec_binop)


def _np_sum(models, it, args, kw, fr, node):
    v = args[0]
    if kw:
        raise Unsupported("np.sum with keyword arguments", node)
    if isinstance(v, Ref) and isinstance(it.run.obj(v), (HSeq, HList)):
        return models.vsum(it, _seq_of(it, v, node))
    raise Unsupported("np.sum(%r)" % (v,), node)


_arrays.EXTRA_EXT["numpy.sum"] = _np_sum


# -- comprehension over range(a, b) with symbolic bounds: a lambda array -----------------------------------------------
def _comp_range(models, it, e, iterable, fr, kind):
    if kind != "list" or tag(iterable) != "range":
        return NotImplemented
    _, a, b, st = iterable
    if st != 1 or all(isinstance(x, int) for x in (a, b)):
        return NotImplemented
    g = e.generators[0]
    if g.ifs or not isinstance(g.target, ast.Name):
        raise Unsupported("comprehension over a symbolic range with a filter", e)
    run = it.run
    depth = getattr(run, "comp_depth", 0)
    i = z3.Int("i!rng%d" % depth)       # canonical bound name (per nesting depth): alpha-equivalent lambdas coincide
    run.comp_depth = depth + 1
    za, zb_ = b2i(z(a)), b2i(z(b))
    sub = X.Frame({g.target.id: za + i}, fr.fi, fr.cls, parent=fr, module=fr.module)
    sub.spec = X.SpecEnv()
    sub.spec.old = getattr(run, "old_state", None)
    run.spec_depth += 1
    npc = len(run.pc)
    run.pc.append(z3.And(i >= 0, za + i < zb_))       # the bound variable ranges over the comprehension's indices
    try:
        v = it.ev(e.elt, sub)
    finally:
        run.spec_depth -= 1
        run.comp_depth = depth
        del run.pc[npc:]
    k = kind_of_value(it, v)
    n = z3.If(zb_ - za < 0, z3.IntVal(0), zb_ - za)
    return run.alloc(HSeq(z3.Lambda([i], z3.simplify(it.elem_term(v, k))), z3.IntVal(0), z3.simplify(n), k))


HOOKS["comp"].append(_comp_range)


def _spec_sumsq(self, e, fr):
    """sumsq(xs, c, k) = sum_{i<k} (xs[i] - c)^2"""
    o = _hseq(self, self.ev(e.args[0], fr))
    c = to_real(self.ev(e.args[1], fr))
    k = b2i(z(self.ev(e.args[2], fr)))
    i = z3.Int("i!rng0")
    x = to_real(o.arr[o.lo + i])
    f = vsum_fn(self, REAL)
    return f(z3.Lambda([i], z3.simplify((x - c) * (x - c))), z3.IntVal(0), z3.simplify(z3.If(k < 0, z3.IntVal(0), k)))


X.Interp.spec_sumsq = _spec_sumsq


# -- more of the 1-D vector fragment: np.dot(vector, matrix), element-wise abs -----------------------------------------
def _np_dot(models, it, args, kw, fr, node):
    v, m = args
    if isinstance(v, Ref) and isinstance(it.run.obj(v), HSeq) and isinstance(m, SOpaque) and m.sort == "Mat":
        o = it.run.obj(v)
        va, _ = as_array(it, v)
        f = it.ctx.uf("dot_vm", z3.ArraySort(INT, REAL), INT, it.ctx.sort("Mat"), z3.ArraySort(INT, REAL))
        n = z3.simplify(o.hi - o.lo)
        models.note(it, "opaque:np.dot(vector, matrix) (deterministic uninterpreted function; result has the vector's length for a square matrix)")
        return it.run.alloc(HSeq(f(va, n, m.t), z3.IntVal(0), n, "Real", nd=True))
    raise Unsupported("np.dot of %r, %r" % (v, m), node)


_arrays.EXTRA_EXT["numpy.dot"] = _np_dot


def _vec_abs(models_, it, args, kw, fr, node):
    v = args[0]
    if isinstance(v, Ref) and isinstance(it.run.obj(v), HSeq) and it.run.obj(v).nd:
        o = it.run.obj(v)
        i = z3.Int("i!vec")
        x = o.arr[o.lo + i]
        return it.run.alloc(HSeq(z3.Lambda([i], z3.If(x >= 0, x, -x)), z3.IntVal(0), z3.simplify(o.hi - o.lo), o.elem, nd=True))
    return _orig_abs(models_, it, args, kw, fr, node)


_orig_abs = None


def _install_abs():
    global _orig_abs
    from .models import Models
    orig_init = Models.__init__

    def new_init(self):
        global _orig_abs
        orig_init(self)
        _orig_abs = self.ext["numpy.abs"]
        self.ext["numpy.abs"] = _vec_abs
        self.ext["numpy.absolute"] = _vec_abs
    Models.__init__ = new_init


_install_abs()


def _make_mat(models, it, reg, ty, name, fresh):
    if ty == "Mat":
        srt = it.ctx.sort("Mat")
        return SOpaque("Mat", z3.Const(name, srt) if not fresh else it.run.fresh(srt, name))
    if ty == "Vec":
        arr = z3.Const(name + "!arr", z3.ArraySort(INT, REAL)) if not fresh else it.run.fresh(z3.ArraySort(INT, REAL), name + "!arr")
        n = z3.Int(name + "!len") if not fresh else it.run.fresh("Int", name + "!len")
        it.run.assume(n >= 0)
        it.run.__dict__.setdefault("size_terms", []).append(n)
        return it.run.alloc(HSeq(arr, z3.IntVal(0), n, "Real", nd=True))
    return NotImplemented


HOOKS["make_symbolic"].append(_make_mat)


def _spec_seq_same(self, e, fr):
    """the two sequences are the same array (extensional equality of the underlying arrays and lengths)"""
    a = _hseq(self, self.ev(e.args[0], fr))
    b = _hseq(self, self.ev(e.args[1], fr))
    return AND(a.arr == b.arr, a.lo == b.lo, a.hi == b.hi)


X.Interp.spec_seq_same = _spec_seq_same


# spec-side vector constructors: the same lambda arrays the code's numpy expressions produce
def _vop(op):
    import ast as _ast

    def f(self, e, fr):
        a = self.ev(e.args[0], fr)
        b = self.ev(e.args[1], fr)
        return _vec_binop(self.ctx.models, self, op(), a, b, e)
    return f


import ast as _ast2  # noqa: E402
X.Interp.spec_vsub = _vop(_ast2.Sub)
X.Interp.spec_vadd = _vop(_ast2.Add)
X.Interp.spec_vdiv = _vop(_ast2.Div)


def _spec_vabs(self, e, fr):
    return _vec_abs(self.ctx.models, self, [self.ev(e.args[0], fr)], {}, fr, e)


def _spec_dotv(self, e, fr):
    return _np_dot(self.ctx.models, self, [self.ev(e.args[0], fr), self.ev(e.args[1], fr)], {}, fr, e)


X.Interp.spec_vabs = _spec_vabs
X.Interp.spec_dotv = _spec_dotv


def _np_minimum(models, it, args, kw, fr, node):
    a, b = args
    oa, ob = _seq_of(it, a, node), _seq_of(it, b, node)
    it.run.oblige("vector-lengths@%s" % getattr(node, "lineno", "?"), (oa.hi - oa.lo) == (ob.hi - ob.lo), kind="safety")
    i = z3.Int("i!vmin")
    ea, eb = oa.arr[oa.lo + i], ob.arr[ob.lo + i]
    if ea.sort() == INT:
        ea = z3.ToReal(ea)
    if eb.sort() == INT:
        eb = z3.ToReal(eb)
    models.note(it, "exact:np.minimum of two 1-D sequences (element-wise, as a lambda array)")
    return it.run.alloc(HSeq(z3.Lambda([i], z3.If(ea <= eb, ea, eb)), z3.IntVal(0), z3.simplify(oa.hi - oa.lo), "Real", nd=True))


_arrays.EXTRA_EXT["numpy.minimum"] = _np_minimum


def _spec_vmin2(self, e, fr):
    return _np_minimum(self.ctx.models, self, [self.ev(e.args[0], fr), self.ev(e.args[1], fr)], {}, fr, e)


X.Interp.spec_vmin2 = _spec_vmin2
