"""Opaque models for the skeleton proof of menelaus.data_drift.pca_cd:PCACD.update (C11).

What the skeleton tracks: the number of rows of the two windows (pandas frames as opaque values with a row count, from
pyvc/libmodels.py), which window an observation goes to, the schedule of the change score and the embedded monitor.
Everything numerical - scaling, PCA, densities, divergences - is an arbitrary value of the right kind:

Scaler / Pca     opaque objects; transform / fit_transform / inverse_transform return a *fresh* opaque array whose row
                 count is that of their argument (fit has no modelled effect: nothing is claimed about the numbers)
Arr              opaque 2-D array with a row count; pd.DataFrame(Arr) is a frame with that many rows
PHMonitor        the embedded Page-Hinkley detector as an object with one opaque state term:
                 update(X=s): st := mon_upd(st, s)    reset(): st := mon_rst(st)    drift_state: mon_ds(st)
"""
import z3

from .sym import (T, tag, Unsupported, SStr, SOpt, Ref, SOpaque, HObj, INT, REAL, BOOL, is_z3, is_num, z, b2i, to_real)
from . import execu as X
from . import arrays as A
from .models import HOOKS, OPAQUE_ATTRS, Models
from .libmodels import df_len

MON = "PHMonitor"


def arr_rows(it, v):
    t = it.ctx.uf("arr_rows", it.ctx.sort("Arr"), INT)(v.t)
    it.ctx.fact(t >= 0, key=("arrrows", t.sexpr()))
    return t


def fresh_arr(it, rows, hint):
    v = SOpaque("Arr", it.run.fresh(it.ctx.sort("Arr"), hint))
    it.run.assume(arr_rows(it, v) == rows)
    return v


def rows_of(it, v, node):
    if isinstance(v, SOpaque) and v.sort == "DF":
        return df_len(it, v)
    if isinstance(v, SOpaque) and v.sort == "Arr":
        return arr_rows(it, v)
    if isinstance(v, A.SNd):
        return v.shape[0] if hasattr(v, "shape") else A.nd_rows(it, v)
    raise Unsupported("row count of %r" % (v,), node)


def _make(models, it, reg, ty, name, fresh):
    if ty in ("Scaler", "Pca", "MonState", "Arr"):
        srt = it.ctx.sort(ty)
        return SOpaque(ty, it.run.fresh(srt, name) if fresh else z3.Const(name, srt))
    return NotImplemented


HOOKS["make_symbolic"].append(_make)


def _method(models, it, target, obj, name, args, kwargs, fr, node):
    if isinstance(target, SOpaque) and target.sort in ("Scaler", "Pca"):
        if name in ("transform", "fit_transform", "inverse_transform"):
            models.note(it, "opaque:sklearn %s.%s returns an arbitrary array with as many rows as its argument" % (target.sort, name))
            return fresh_arr(it, rows_of(it, args[0], node), name)
        if name == "fit":
            models.note(it, "opaque:sklearn %s.fit has no modelled effect (every later result of the object is arbitrary anyway)" % target.sort)
            return target
    if isinstance(target, SOpaque) and target.sort == "Arr" and name == "reshape":
        if len(args) == 2 and args[0] == 1:
            return fresh_arr(it, z3.IntVal(1), "reshape")
        raise Unsupported("reshape%r of an opaque array" % (tuple(args),), node)
    if isinstance(target, SOpaque) and target.sort == "DF" and name == "copy":
        return target
    if isinstance(obj, HObj) and obj.cls == MON:
        ctx = it.ctx
        ms = ctx.sort("MonState")
        st = obj.fields["st"]
        if name == "update":
            s = kwargs.get("X", args[0] if args else None)
            s = to_real(it.run.num(s))
            obj.fields["st"] = SOpaque("MonState", ctx.uf("mon_upd", ms, REAL, ms)(st.t, s))
            models.note(it, "opaque:embedded Page-Hinkley monitor (update / reset are uninterpreted state transformers; the class "
                            "itself is verified under C04 / C17)")
            return None
        if name == "reset":
            obj.fields["st"] = SOpaque("MonState", ctx.uf("mon_rst", ms, ms)(st.t))
            return None
    return NotImplemented


HOOKS["method"].insert(0, _method)


def mon_ds(it, st):
    t = it.ctx.uf("mon_ds", it.ctx.sort("MonState"), INT)(st.t)
    it.ctx.fact(z3.Or(t == 0, t == it.ctx.intern("drift")), key=("monds", t.sexpr()))
    return SOpt(t == 0, SStr(t))


def _attr(models, it, base, obj, attr, node):
    if isinstance(obj, HObj) and obj.cls == MON and attr == "drift_state":
        return mon_ds(it, obj.fields["st"])
    if isinstance(obj, HObj) and obj.cls == MON and attr in ("update", "reset"):
        from .sym import SFunc
        return SFunc("objmethod", target=base, name=attr)
    if isinstance(base, SOpaque) and base.sort == "Pca" and attr == "components_":
        from .opaque_coll import mk
        return mk(it, "AnyList", "components")
    return NotImplemented


HOOKS["attr"].insert(0, _attr)
_prev_df = A.EXTRA_EXT.get("pandas.DataFrame")


def _pd_dataframe(models, it, args, kw, fr, node):
    if not args and not kw:
        c = SOpaque("DF", z3.Const("df_empty", it.ctx.sort("DF")))
        it.ctx.fact(df_len(it, c) == 0, key="df-empty-len")
        return c
    if args and isinstance(args[0], SOpaque) and args[0].sort == "Arr":
        f = it.ctx.uf("df_of_arr", it.ctx.sort("Arr"), it.ctx.sort("DF"))
        r = SOpaque("DF", f(args[0].t))
        it.ctx.fact(df_len(it, r) == arr_rows(it, args[0]), key=("df-of-arr-len", r.t.sexpr()))
        return r
    return _prev_df(models, it, args, kw, fr, node)


A.EXTRA_EXT["pandas.DataFrame"] = _pd_dataframe
_prev_np_array = A.EXTRA_EXT.get("numpy.array")


def _np_array(models, it, args, kw, fr, node):
    if args and isinstance(args[0], SOpaque) and args[0].sort == "DF":
        return fresh_arr(it, df_len(it, args[0]), "nparray")
    if _prev_np_array is not None:
        return _prev_np_array(models, it, args, kw, fr, node)
    return NotImplemented


def _pca_ctor(models, it, args, kw, fr, node):
    models.note(it, "opaque:sklearn PCA object")
    return SOpaque("Pca", it.run.fresh(it.ctx.sort("Pca"), "pca"))


def _iloc(models, it, base, idx, node):
    if isinstance(base, SOpaque) and base.sort == "DFILoc" and isinstance(idx, tuple) and len(idx) == 2:
        r, c = idx
        full = lambda s: tag(s) == "slice" and s[1] is None and s[2] is None
        if tag(r) == "slice" and r[1] == 1 and r[2] is None and full(c):
            # frame.iloc[1:, :]: every row but the first
            f = it.ctx.uf("df_tail", it.ctx.sort("DF"), it.ctx.sort("DF"))
            out = SOpaque("DF", f(base.t))
            n = df_len(it, SOpaque("DF", base.t))
            it.ctx.fact(df_len(it, out) == z3.If(n >= 1, n - 1, 0), key=("df-tail-len", out.t.sexpr()))
            return out
        if is_num(r) and is_num(c):
            return it.run.fresh("Real", "cell")
    return NotImplemented


HOOKS["getitem"].insert(0, _iloc)


def _install():
    orig = Models.__init__

    def new_init(self):
        orig(self)
        self.ext["sklearn.decomposition.PCA"] = _pca_ctor
        prev = self.ext.get("numpy.array")

        def np_array(s, it, args, kw, fr, node):
            if args and isinstance(args[0], SOpaque) and args[0].sort == "DF":
                return fresh_arr(it, df_len(it, args[0]), "nparray")
            return prev(s, it, args, kw, fr, node)
        self.ext["numpy.array"] = np_array
    Models.__init__ = new_init


_install()


# -- spec vocabulary ---------------------------------------------------------------------------------------------------
def _mon(self, e, fr):
    v = self.ev(e.args[0], fr)
    o = self.run.obj(v)
    if not (isinstance(o, HObj) and o.cls == MON):
        raise Unsupported("expected the embedded monitor")
    return o


def _spec_mon_state(self, e, fr):
    return _mon(self, e, fr).fields["st"]


def _spec_mon_alarm(self, e, fr):
    return z3.Not(mon_ds(self, _mon(self, e, fr).fields["st"]).isnone)


def _spec_mon_upd(self, e, fr):
    st = self.ev(e.args[0], fr)
    s = to_real(self.run.num(self.ev(e.args[1], fr)))
    ms = self.ctx.sort("MonState")
    return SOpaque("MonState", self.ctx.uf("mon_upd", ms, REAL, ms)(st.t, s))


def _spec_mon_rst(self, e, fr):
    st = self.ev(e.args[0], fr)
    ms = self.ctx.sort("MonState")
    return SOpaque("MonState", self.ctx.uf("mon_rst", ms, ms)(st.t))


def _spec_df_rows(self, e, fr):
    return df_len(self, self.ev(e.args[0], fr))


def _spec_df_tail(self, e, fr):
    v = self.ev(e.args[0], fr)
    return SOpaque("DF", self.ctx.uf("df_tail", self.ctx.sort("DF"), self.ctx.sort("DF"))(v.t))


X.Interp.spec_mon_state = _spec_mon_state
X.Interp.spec_mon_alarm = _spec_mon_alarm
X.Interp.spec_mon_upd = _spec_mon_upd
X.Interp.spec_mon_rst = _spec_mon_rst
X.Interp.spec_df_rows = _spec_df_rows
X.Interp.spec_df_tail = _spec_df_tail
