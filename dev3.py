import sys, os, json
from pyvc import api
api.init(os.environ.get("REPO", "/repo"))
r = api.verify_target(("fn", sys.argv[1]))
obs = sorted(r["obligations"], key=lambda o: -o["time"])
for o in obs[:12]:
    print("%.2fs %s %s %s %s" % (o["time"], o["verdict"], o["backend"], o["name"], o["path"]))
print("total solver", sum(o["time"] for o in obs))
