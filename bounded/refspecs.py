"""Plain-Python executable specifications (independent of the library code) used as differential oracles."""
import math

import numpy as np
import scipy.stats


def stepd_reference(outcomes, window_size, alpha_warning, alpha_drift):
    """yields (state, recs, recent, past, overall) after each sample; outcomes: 1 = correct"""
    hist = []
    state = None
    recs = [None, None]
    total = 0
    out = []
    for c in outcomes:
        if state == "drift":
            hist, state, recs = [], None, [None, None]
        total += 1
        hist.append(c)
        n = len(hist)
        win = hist[-window_size:] if n > window_size else hist[:]
        before = hist[:max(0, n - window_size)]
        recent = sum(win) / len(win) if win else 0
        past = sum(before) / len(before) if before else 0
        overall = sum(hist) / n
        if n >= 2 * window_size:
            h = (1 / (n - window_size)) + (1 / window_size)
            with np.errstate(all="ignore"):
                stat = (abs(past - recent) - 0.5 * h) / np.sqrt(overall * (1 - overall) * h)
            p = 1 - scipy.stats.norm.cdf(stat, 0, 1)
            dec = past > recent
            if dec and p < alpha_drift:
                state = "drift"
            elif dec and p < alpha_warning:
                state = "warning"
            else:
                state = None
                recs = [None, None]
            if state is not None:
                if recs[0] is None:
                    recs = [total - 1, total - 1]
                else:
                    recs = [recs[0], total - 1]
        out.append((state, list(recs), recent, past, overall))
    return out


def ddm_reference(errors, n_threshold, warning_scale, drift_scale):
    out = []
    state = None
    recs = [None, None]
    total = 0
    n = 0
    rate = std = 0.0
    rmin = smin = float("inf")
    for e in errors:
        if state == "drift":
            n, rate, std, rmin, smin, state, recs = 0, 0.0, 0.0, float("inf"), float("inf"), None, [None, None]
        total += 1
        n += 1
        prev = rate
        rate = rate + (e - rate) / n
        std = std + (e - rate) * (e - prev)
        std = math.sqrt(std / n)
        if n >= n_threshold:
            if rate + std <= rmin + smin:
                rmin, smin = rate, std
            if rate + std >= rmin + drift_scale * std:
                state = "drift"
            elif rate + std >= rmin + warning_scale * std:
                state = "warning"
            else:
                state = None
            if state == "warning" and recs[0] is None:
                recs[0] = total - 1
            if state == "drift":
                recs[1] = total - 1
                if recs[0] is None:
                    recs[0] = total - 1
        out.append((state, list(recs)))
    return out


def eddm_reference(errors, n_threshold, warning_thresh, drift_thresh):
    out = []
    state = None
    recs = [None, None]
    total = 0
    n = ne = 0
    last = 0
    mean = std = mx = 0.0
    for e in errors:
        if state == "drift":
            n = ne = 0
            last = 0
            mean = std = mx = 0.0
            state, recs = None, [None, None]
        total += 1
        n += 1
        if e:
            ne += 1
            cur = n - 1
            dist = cur - last
            last = cur
            pm = mean
            mean = mean + (dist - mean) / ne
            std = std + (dist - mean) * (dist - pm)
            std = math.sqrt(std / ne)
            if ne >= n_threshold:
                num = mean + 2 * std
                if mx < num:
                    mx = num
                with np.errstate(all="ignore"):
                    stat = np.float64(num) / mx if mx != 0 else float("nan")
                if stat <= drift_thresh:
                    state = "drift"
                elif stat <= warning_thresh:
                    state = "warning"
                else:
                    state = None
                if state == "warning" and recs[0] is None:
                    recs[0] = total - 1
                if state == "drift":
                    recs[1] = total - 1
                    if recs[0] is None:
                        recs[0] = total - 1
        out.append((state, list(recs)))
    return out


def cusum_reference(xs, target, sd_hat, burn_in, delta, threshold, direction):
    """yields (state, s_h, s_l) -- raises ValueError like the detector when sd is 0 after burn-in"""
    out = []
    hist = []
    state = None
    s_h = s_l = 0.0
    since = 0
    for x in xs:
        if state == "drift":
            last = hist[-burn_in:] if burn_in else hist
            target, sd_hat = float(np.mean(last)), float(np.std(last))
            s_h = s_l = 0.0
            since = 0
            state = None
        since += 1
        hist.append(x)
        if target is None and since == burn_in:
            target, sd_hat = float(np.mean(hist)), float(np.std(hist))
        if sd_hat == 0 and since > burn_in:
            raise ValueError("sd 0")
        if target is not None:
            with np.errstate(all="ignore"):
                z = np.float64(x - target) / sd_hat
            s_h = max(0, s_h + z - delta)
            s_l = max(0, s_l - delta - z)
        else:
            s_h = s_l = 0.0
        if since > burn_in:
            if direction is None and (s_h > threshold or s_l > threshold):
                state = "drift"
            elif direction == "positive" and s_h > threshold:
                state = "drift"
            elif direction == "negative" and s_l > threshold:
                state = "drift"
        out.append((state, float(s_h), float(s_l)))
    return out


def page_hinkley_reference(xs, delta, threshold, burn_in, direction):
    out = []
    state = None
    mean = s = mn = mx = 0.0
    since = 0
    for x in xs:
        if state == "drift":
            mean = s = mn = mx = 0.0
            since = 0
            state = None
        since += 1
        mean = mean + (x - mean) / since
        s = s + x - mean - delta
        mn = min(mn, s)
        mx = max(mx, s)
        diff = s - mn if direction == "positive" else mx - s
        if diff > threshold * mean and since > burn_in:
            state = "drift"
        out.append((state, mean, s, mn, mx))
    return out
