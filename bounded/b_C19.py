"""C19 bounded stand-in: MD3's warn / ask-the-oracle / confirm protocol against a plain-Python state machine, on all
interleavings of legal and illegal calls up to a bounded length (deterministic stub classifier, user margin function)."""
import copy
import itertools
import math

import numpy as np
import pandas as pd
from sklearn.model_selection import KFold

from bounded.lib import Result, load_known, VERIF
from bounded.catalog import StubClf, stub_margin

REPLAY = '''import sys, warnings
warnings.filterwarnings("ignore")
sys.path.insert(0, %(verif)r)
from bounded import b_C19
msg = b_C19.check(%(scn)r)
assert msg is None, msg
print("MD3 follows its protocol")
'''

ALPHABET = ["u_in", "u_out", "g_ok", "g_bad", "g_cols", "g_two", "u_two", "g_extra", "g_fewer"]


def reference_batch(seed, n):
    rng = np.random.RandomState(seed)
    x0 = rng.uniform(-2, 2, n)
    x1 = rng.randn(n)
    y = (x0 > 0).astype(int)
    flip = rng.rand(n) < 0.25            # the stub classifier is wrong on these rows: reference accuracy < 1
    y = np.where(flip, 1 - y, y)
    return pd.DataFrame({"x0": x0, "x1": x1, "y": y})


def ref_stats(df, k):
    feats, tgt = df[["x0", "x1"]], df[["y"]]
    mds, accs = [], []
    for tr, te in KFold(n_splits=k, random_state=42, shuffle=True).split(feats):
        Xt = feats.iloc[te]
        sig = [1 if abs(float(r[0])) < 0.5 else 0 for r in Xt.to_numpy()]
        mds.append(sum(sig) / len(sig))
        pred = (Xt.to_numpy()[:, 0] > 0).astype(int)
        accs.append(float(np.mean(pred == tgt.iloc[te].to_numpy().ravel())))
    return {"len": len(df), "md": float(np.mean(mds)), "md_std": float(np.std(mds)), "acc": float(np.mean(accs)),
            "acc_std": float(np.std(accs))}


def sample(kind, i):
    x0 = 0.1 if kind.endswith("in") else 1.5
    return pd.DataFrame({"x0": [x0 * (1 if i % 2 else -1)], "x1": [0.3]})


def labelled(kind, i):
    x0 = 1.2 if i % 2 else -1.2
    correct = 1 if x0 > 0 else 0
    y = correct if kind == "g_ok" else 1 - correct
    if kind == "g_cols":
        return pd.DataFrame({"x0": [x0], "zz": [0.0], "y": [y]})
    if kind == "g_extra":       # every reference column plus one more (a row id, a timestamp)
        return pd.DataFrame({"x0": [x0], "x1": [0.0], "y": [y], "row_id": [float(i)]})
    if kind == "g_fewer":       # a reference feature is missing
        return pd.DataFrame({"x0": [x0], "y": [y]})
    if kind == "g_two":
        return pd.DataFrame({"x0": [x0, x0], "x1": [0.0, 0.0], "y": [y, y]})
    return pd.DataFrame({"x0": [x0], "x1": [0.0], "y": [y]})


def observe(d):
    return (d.drift_state, d.waiting_for_oracle, None if d.oracle_data is None else len(d.oracle_data),
            round(float(d.curr_margin_density), 12), {k: round(float(v), 12) for k, v in d.reference_distribution.items()},
            d.total_updates, d.updates_since_reset)


def check(scn):
    from menelaus.concept_drift import MD3
    seq, sens, L, k, n, seed = scn["seq"], scn["sensitivity"], scn["oracle_len"], scn["k"], scn["n"], scn["seed"]
    ref = reference_batch(seed, n)
    d = MD3(clf=StubClf(), margin_calculation_function=stub_margin, sensitivity=sens, k=k, oracle_data_length_required=L)
    d.set_reference(ref, target_name="y")
    st = ref_stats(ref, k)
    got = {kk: float(v) for kk, v in d.reference_distribution.items()}
    for kk in st:
        if not math.isclose(got[kk], st[kk], rel_tol=1e-9, abs_tol=1e-12):
            return "reference statistic %s = %r, k-fold specification gives %r" % (kk, got[kk], st[kk])
    req = L if L is not None else st["len"]
    if d.oracle_data_length_required != req:
        return "oracle_data_length_required %r, expected %r" % (d.oracle_data_length_required, req)
    ff = (st["len"] - 1) / st["len"]
    if not math.isclose(d.forgetting_factor, ff, rel_tol=1e-12):
        return "forgetting factor %r, expected (N-1)/N = %r" % (d.forgetting_factor, ff)
    # reference state machine
    m = {"state": None, "waiting": False, "oracle": [], "cmd": st["md"], "ref": dict(st), "ff": ff, "total": 0, "since": 0}
    for i, a in enumerate(seq):
        before = observe(d)
        raised = None
        try:
            if a.startswith("u_"):
                x = sample(a, i) if a != "u_two" else pd.concat([sample("u_in", i), sample("u_out", i)], ignore_index=True)
                d.update(x)
            else:
                lab = labelled(a, i)
                if scn.get("perm") and a in ("g_ok", "g_bad"):
                    # the same labelled sample with its columns in another order (names identify the columns)
                    lab = lab[[["x1", "x0", "y"], ["y", "x1", "x0"], ["x1", "y", "x0"]][scn["perm"] - 1]]
                d.give_oracle_label(lab)
        except ValueError:
            raised = "ValueError"
        except Exception as e:
            return "call %d (%s) raised %s: %s" % (i, a, type(e).__name__, e)
        # specification
        refused = False
        if a.startswith("u_"):
            if m["waiting"] or a == "u_two":
                refused = True
            else:
                if m["state"] == "drift":
                    m["state"], m["since"], m["cmd"] = None, 0, m["ref"]["md"]
                m["total"] += 1
                m["since"] += 1
                sig = 1 if a == "u_in" else 0
                m["cmd"] = m["ff"] * m["cmd"] + (1 - m["ff"]) * sig
                if abs(m["cmd"] - m["ref"]["md"]) > sens * m["ref"]["md_std"]:
                    m["state"], m["waiting"] = "warning", True
                    scn["_warned"] = True
        else:
            if (not m["waiting"]) or a in ("g_cols", "g_two", "g_extra", "g_fewer"):
                refused = True
            else:
                m["state"] = None
                m["oracle"].append(labelled(a, i))
                if len(m["oracle"]) == req:
                    od = pd.concat(m["oracle"], ignore_index=True)
                    pred = (od["x0"].to_numpy() > 0).astype(int)
                    acc = float(np.mean(pred == od["y"].to_numpy()))
                    if m["ref"]["acc"] - acc > sens * m["ref"]["acc_std"]:
                        m["state"] = "drift"
                    if scn.get("perm"):
                        # the verdict of the confirmation is about the named columns; what follows (a reference whose
                        # columns are stored in the labelled samples' order) is outside this scenario
                        if raised:
                            return "legal call %d (%s, columns reordered) was refused (%s)" % (i, a, raised)
                        if d.drift_state != m["state"]:
                            return ("after call %d (%s, labelled samples with reordered columns): state %r, accuracy on the "
                                    "named feature columns gives %r" % (i, a, d.drift_state, m["state"]))
                        return None
                    kk = min(k, len(od))
                    m["ref"] = ref_stats(od, k) if len(od) >= k else None
                    if m["ref"] is None:
                        return None     # fewer labelled samples than folds: outside the scenario's domain
                    m["ff"] = (len(od) - 1) / len(od)
                    m["cmd"] = m["ref"]["md"]
                    m["oracle"], m["waiting"] = [], False
        if refused:
            if raised != "ValueError":
                return "call %d (%s) should have been refused with ValueError (waiting=%r) but was accepted" % (i, a, m["waiting"])
            if observe(d) != before:
                return "refused call %d (%s) changed the detector: %r -> %r" % (i, a, before, observe(d))
            continue
        if raised:
            return "legal call %d (%s) was refused (%s); waiting=%r" % (i, a, raised, m["waiting"])
        o = observe(d)
        exp = (m["state"], m["waiting"], len(m["oracle"]) if m["oracle"] else None)
        if o[:3] != exp:
            return "after call %d (%s): (state, waiting, labelled samples) = %r, protocol says %r" % (i, a, o[:3], exp)
        if not math.isclose(o[3], m["cmd"], rel_tol=1e-9, abs_tol=1e-9):
            return "after call %d (%s): margin density %r, specification %r" % (i, a, o[3], m["cmd"])
        for kk in m["ref"]:
            if not math.isclose(o[4][kk], m["ref"][kk], rel_tol=1e-9, abs_tol=1e-9):
                return "after call %d (%s): reference %s = %r, specification %r" % (i, a, kk, o[4][kk], m["ref"][kk])
        if (o[5], o[6]) != (m["total"], m["since"]):
            return "after call %d (%s): counters %r, expected %r" % (i, a, (o[5], o[6]), (m["total"], m["since"]))
    return None


def run(tier, seed, repo, focus=None):
    quick = tier == "quick"
    depth = 4 if quick else 7
    res = Result("C19", "bounded/b_C19.py",
                 "real MD3 (deterministic stub classifier, user margin function) vs a plain-Python protocol state machine on "
                 "all interleavings over {update in/out of margin, oracle label correct/wrong, renamed / extra / missing columns, two rows} up to "
                 "length %d x sensitivity x oracle length; reference statistics vs an independent k-fold computation; "
                 "non-trivial = the sequence reaches a warning" % depth, {"depth": depth})
    known = load_known()
    # small sensitivities make a single in-margin sample trigger the warning, so that short sequences reach the
    # oracle phase and complete it with higher (g_ok) and lower (g_bad) accuracy than the reference
    # (the last two: reference / oracle sizes that are NOT multiples of k, so the folds have unequal sizes and the mean over
    # the folds differs from the pooled ratio)
    configs = [(0.05, 2, 2, 24), (0.2, 3, 3, 24), (0.05, 3, 2, 25), (0.2, 5, 3, 23)] if quick else \
        [(0.05, 2, 2, 24), (0.2, 3, 3, 24), (0.05, 4, 4, 24), (0.5, 2, 2, 24), (1.0, 3, 2, 24), (0.02, 4, 3, 30),
         (0.05, 3, 2, 25), (0.2, 5, 3, 23), (0.1, 5, 4, 27)]
    rng = np.random.RandomState(seed)
    for sens, L, k, n in configs:
        seqs = list(itertools.product(ALPHABET, repeat=depth))
        if len(seqs) > (1500 if quick else 20000):
            idx = rng.choice(len(seqs), 1500 if quick else 20000, replace=False)
            seqs = [seqs[i] for i in idx]
        # plus long legal-heavy sequences
        for s in range(10 if quick else 100):
            r2 = np.random.RandomState(seed + s)
            seqs.append(tuple(r2.choice(ALPHABET, p=[0.3, 0.2, 0.2, 0.14, 0.04, 0.04, 0.04, 0.02, 0.02]) for _ in range(30)))
        for seq in seqs:
            scn = {"seq": list(map(str, seq)), "sensitivity": sens, "oracle_len": L, "k": k, "n": n, "seed": seed}
            try:
                msg = check(scn)
            except Exception as e:
                msg = "%s: %s" % (type(e).__name__, e)
            res.count(key=(sens, L, tuple(seq)), nontrivial=(scn.get("_warned", False)), n=len(seq), check="MD3 protocol")
            if msg:
                res.violation("MD3: " + msg, REPLAY % dict(verif=VERIF, scn=scn), known)
                break
    # labelled samples whose columns come in another order than the reference's (accepted: names identify the columns)
    for sens, L, k, n in configs[:2]:
        for perm in (1, 2, 3):
            for labs in itertools.product(("g_ok", "g_bad"), repeat=L):
                for lead in (("u_in",), ("u_out", "u_in"), ("u_in", "g_cols")):
                    seq = lead + labs
                    scn = {"seq": list(seq), "sensitivity": sens, "oracle_len": L, "k": k, "n": n, "seed": seed, "perm": perm}
                    try:
                        msg = check(scn)
                    except Exception as e:
                        msg = "%s: %s" % (type(e).__name__, e)
                    res.count(key=(sens, L, tuple(seq), perm), nontrivial=(scn.get("_warned", False)), n=len(seq),
                              check="MD3 protocol (labelled samples with reordered columns)")
                    if msg:
                        res.violation("MD3: " + msg, REPLAY % dict(verif=VERIF, scn=scn), known)
    res.sample({"check": "MD3 protocol", "sequence": ["u_in", "u_in", "g_ok", "u_out", "g_bad"], "sensitivity": 0.5, "oracle_len": 2})
    return res.finish()
