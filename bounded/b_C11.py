"""C11 bounded stand-in: PCACD vs a plain reimplementation of the documented procedure (same sklearn building blocks)."""
import math

import numpy as np
import pandas as pd
from scipy.spatial.distance import jensenshannon
from sklearn.decomposition import PCA
from sklearn.neighbors import KernelDensity
from sklearn.preprocessing import StandardScaler

from bounded.lib import Result, load_known, VERIF
from bounded import refspecs

REPLAY = '''import sys, warnings
warnings.filterwarnings("ignore")
sys.path.insert(0, %(verif)r)
from bounded import b_C11
msg = b_C11.check(%(scn)r)
assert msg is None, msg
print("PCACD follows the documented procedure")
'''


def kde_density(x):
    x = np.asarray(x, float)
    bw = 1.06 * np.std(x, ddof=1) * (len(x) ** (-1 / 5))
    k = KernelDensity(bandwidth=bw, kernel="epanechnikov").fit(x.reshape(-1, 1))
    return np.exp(k.score_samples(x.reshape(-1, 1)))


def hist_density(x, bins, rng_):
    h = np.histogram(x, bins=bins, range=rng_, density=True)[0]
    return h / np.sum(h)


class RefPH:
    def __init__(self, delta, threshold):
        self.delta, self.threshold = delta, threshold
        self.reset()
        self.state = None

    def reset(self):
        self.mean = self.s = self.mn = self.mx = 0.0
        self.n = 0
        self.state = None

    def update(self, x):
        if self.state == "drift":
            self.reset()
        self.n += 1
        self.mean = self.mean + (x - self.mean) / self.n
        self.s = self.s + x - self.mean - self.delta
        self.mn, self.mx = min(self.mn, self.s), max(self.mx, self.s)
        if self.s - self.mn > self.threshold * self.mean and self.n > 0:
            self.state = "drift"


def check(scn):
    from menelaus.data_drift import PCACD
    w, evt, delta, metric, sp, scaling, seed, n, d = scn["window"], scn["ev"], scn["delta"], scn["metric"], scn["sample_period"], \
        scn["scaling"], scn["seed"], scn["n"], scn["d"]
    det = PCACD(window_size=w, ev_threshold=evt, delta=delta, divergence_metric=metric, sample_period=sp, online_scaling=scaling)
    step = min(100, round(sp * w))
    if det.step != step or det.ph_threshold != round(0.01 * w):
        return "step %r / Page-Hinkley threshold %r, documented min(100, round(sample_period*window)) = %r and round(1%% of window) = %r" % (
            det.step, det.ph_threshold, step, round(0.01 * w))
    rng = np.random.RandomState(seed)
    kind = scn.get("kind", "level")
    X = []
    for i in range(n):
        seg = (i * 4) // n
        if kind == "level":
            mu = [0, 4, 4, -3][seg]
            X.append(mu * (np.arange(d) == 0) + rng.randn(d))
        elif kind == "corr":
            z = rng.randn(d)
            if seg % 2:
                z[1] = z[0] + 0.1 * rng.randn()
            X.append(z)
        else:
            X.append(rng.randn(d) * ([1, 3, 1, 0.3][seg]))
    if scn.get("same_window"):
        base = [rng.randn(d) for _ in range(w)]
        X = base + base + base + [rng.randn(d) for _ in range(max(0, n - 3 * w))]
    bins = int(np.floor(np.sqrt(w)))
    ph = RefPH(delta, round(0.01 * w))
    ref, test = [], []
    building = True
    state = None
    total = since = 0
    scaler = pca = None
    ref_proj = test_proj = None
    dens_ref = None
    bounds = None
    epoch_n = 0
    first_epoch = True
    scores = []
    for i, x in enumerate(X):
        det.update(np.array([x]))
        total += 1
        since += 1
        if building:
            if state is not None:
                ref = [np.array(r) for r in (scaler.inverse_transform(np.array(test)) if scaling else test)]
                test = []
                state, since = None, 0
                ph.reset()
                epoch_n = 0
                first_epoch = False
            elif len(ref) < w:
                ref.append(x)
                epoch_n += 1
            elif len(test) < w:
                test.append(x)
                epoch_n += 1
            if len(test) == w:
                building = False
                R, T = np.array(ref), np.array(test)
                if scaling:
                    scaler = StandardScaler()
                    R = scaler.fit_transform(R)
                    T = scaler.transform(T)
                    ref, test = [r for r in R], [t for t in T]
                pca = PCA(evt)
                pca.fit(R)
                k = len(pca.components_)
                ref_proj, test_proj = pca.transform(R), pca.transform(T)
                bounds = [(min(ref_proj[:, j].min(), test_proj[:, j].min()), max(ref_proj[:, j].max(), test_proj[:, j].max())) for j in range(k)]
                if metric == "intersection":
                    dens_ref = [hist_density(ref_proj[:, j], bins, bounds[j]) for j in range(k)]
                else:
                    dens_ref = [kde_density(ref_proj[:, j]) for j in range(k)]
                if det.num_pcs != k:
                    return "sample %d: %r components, PCA(ev_threshold) on the reference window gives %d" % (i, det.num_pcs, k)
        else:
            xs = scaler.transform(np.array([x]))[0] if scaling else np.array(x, float)
            test = test[1:] + [xs]
            p = pca.transform(xs.reshape(1, -1))[0]
            k = len(p)
            if metric == "intersection":
                p = np.array([min(max(p[j], bounds[j][0]), bounds[j][1]) for j in range(k)])
            test_proj = np.vstack([test_proj[1:], p])
            if (total - 1) % step == 0 and total - 1 != 0:
                sc = []
                for j in range(k):
                    if metric == "intersection":
                        dt = hist_density(test_proj[:, j], bins, bounds[j])
                        sc.append(1 - float(np.sum(np.minimum(dens_ref[j], dt))))
                    else:
                        sc.append(float(jensenshannon(dens_ref[j], kde_density(test_proj[:, j]))))
                score = max(sc)
                scores.append(score)
                got = float(np.ravel(det._change_score[-1])[0])
                if not math.isclose(got, score, rel_tol=1e-7, abs_tol=1e-9):
                    return "sample %d: change score %r, maximum over components of the divergence on per-component aligned supports is %r (%d components, %s)" % (
                        i, got, score, k, metric)
                ph.update(got)      # the recorded score (just checked to equal ours): the test is knife-edge for threshold 0
                if ph.state is not None:
                    building = True
                    state = "drift"
        exp_state = state
        if det.drift_state != exp_state:
            return "sample %d: state %r, procedure gives %r" % (i, det.drift_state, exp_state)
        if det.samples_since_reset != since or det.total_samples != total:
            return "sample %d: counters (%r, %r), expected (%r, %r)" % (i, det.total_samples, det.samples_since_reset, total, since)
    return None


def run(tier, seed, repo, focus=None):
    quick = tier == "quick"
    res = Result("C11", "bounded/b_C11.py",
                 "real PCACD vs a reimplementation of the documented procedure with the same sklearn building blocks (window "
                 "filling, scaling on/off, PCA components reaching ev_threshold, per-component KDE / aligned histograms, "
                 "max divergence fed to Page-Hinkley with threshold round(1% window) every `step` samples, test window "
                 "becomes reference after a drift, counters) on level / variance / correlation shift streams incl. a test "
                 "window equal to the reference window; non-trivial = a drift occurs or two components are scored",
                 {"seeds": 2 if quick else 6})
    known = load_known()
    for metric in ("intersection", "kl"):
        for scaling in (True, False):
            # the last configuration has step = round(sample_period * window) = 1: a score on every sample
            for (w, sp, d, evt) in ((25, 0.08, 3, 0.99), (30, 0.1, 2, 0.9), (40, 0.05, 4, 0.99), (60, 0.02, 3, 0.99)):
                for kind in ("level", "var", "corr"):
                    for s in range(2 if quick else 6):
                        if quick and kind != "level" and s > 0:
                            continue
                        if sp == 0.02 and (kind != "level" or s > 0 or (metric == "kl" and quick)):
                            continue
                        scn = {"window": w, "ev": evt, "delta": 0.05, "metric": metric, "sample_period": sp, "scaling": scaling,
                               "seed": seed + s, "n": 260 if quick else 500, "d": d, "kind": kind}
                        try:
                            msg = check(scn)
                        except Exception as e:
                            import traceback
                            msg = "%s: %s" % (type(e).__name__, e)
                        res.count(key=repr(scn), nontrivial=True, n=scn["n"], check="PCACD vs documented procedure")
                        if msg:
                            res.violation("PCACD: " + msg, REPLAY % dict(verif=VERIF, scn=scn), known)
            scn = {"window": 20, "ev": 0.99, "delta": 0.05, "metric": metric, "sample_period": 0.1, "scaling": scaling,
                   "seed": seed, "n": 90, "d": 2, "same_window": True}
            try:
                msg = check(scn)
            except Exception as e:
                msg = "%s: %s" % (type(e).__name__, e)
            res.count(key=repr(scn), nontrivial=True, n=90, check="PCACD vs documented procedure")
            if msg:
                res.violation("PCACD: " + msg, REPLAY % dict(verif=VERIF, scn=scn), known)
    res.sample({"check": "PCACD vs documented procedure", "scenario": {"window": 25, "metric": "intersection", "scaling": True, "d": 3}})
    return res.finish()
