"""C04 bounded stand-in: CUSUM / Page-Hinkley vs plain-Python sequential tests + C04 contract monitors."""
import math

import numpy as np

from bounded.lib import Result, load_known, VERIF
from bounded import catalog as C, refspecs
from bounded.monitored import monitored_histories

REPLAY = '''import sys, warnings
warnings.filterwarnings("ignore")
sys.path.insert(0, %(verif)r)
from bounded import b_C04
msg = b_C04.compare(%(name)r, %(params)r, %(xs)r)
assert msg is None, msg
print("matches the sequential test")
'''


def compare(name, params, xs):
    det = C.get_class(name)(**params)
    if name == "CUSUM":
        p = dict(target=None, sd_hat=None, burn_in=30, delta=0.005, threshold=5, direction=None)
        p.update(params)
        try:
            ref = refspecs.cusum_reference(xs, p["target"], p["sd_hat"], p["burn_in"], p["delta"], p["threshold"], p["direction"])
        except ValueError:
            return None
    else:
        p = dict(delta=0.01, threshold=20, burn_in=30, direction="positive")
        p.update(params)
        ref = refspecs.page_hinkley_reference(xs, p["delta"], p["threshold"], p["burn_in"], p["direction"])
    for i, x in enumerate(xs):
        try:
            det.update(x)
        except ValueError:
            return None
        if det.drift_state != ref[i][0]:
            return "%s%r: state %r after observation %d, sequential test says %r" % (name, params, det.drift_state, i, ref[i][0])
        if name == "CUSUM":
            sh = float(np.ravel(det._upper_bound[-1])[0])
            sl = float(np.ravel(det._lower_bound[-1])[0])
            if not (math.isclose(sh, ref[i][1], rel_tol=1e-9, abs_tol=1e-9) and math.isclose(sl, ref[i][2], rel_tol=1e-9, abs_tol=1e-9)):
                return "CUSUM%r: statistics (%r, %r) after observation %d, recurrences on the current observations give (%r, %r)" % (
                    params, sh, sl, i, ref[i][1], ref[i][2])
        else:
            df = det.to_dataframe()
            got = (float(np.ravel(df["mean_values"].iloc[-1])[0]), float(np.ravel(df["page_hinkley_values"].iloc[-1])[0]))
            if not (math.isclose(got[0], ref[i][1], rel_tol=1e-9, abs_tol=1e-9) and math.isclose(got[1], ref[i][2], rel_tol=1e-9, abs_tol=1e-9)):
                return "PageHinkley%r: to_dataframe() mean/sum %r after observation %d, specification %r" % (params, got, i, ref[i][1:3])
            if float(np.ravel(df["change_scores"].iloc[-1])[0]) != float(x):
                return "PageHinkley%r: change_scores column does not hold the observation just supplied at %d" % (params, i)
    return None


def run(tier, seed, repo, focus=None):
    quick = tier == "quick"
    res = Result("C04", "bounded/b_C04.py",
                 "real CUSUM / PageHinkley vs plain-Python sequential tests on real-valued streams with several level "
                 "shifts (many alarms), all catalogue variants + extra parameter grid, plus the C04 contract clauses as "
                 "run-time monitors; non-trivial = at least one alarm", {"seeds": 4 if quick else 20})
    known = load_known()
    grid = {"CUSUM": list(C.DETECTORS["CUSUM"]["variants"]) + [dict(target=0.0, sd_hat=2.0, burn_in=3, threshold=3, delta=0.1),
                                                              dict(burn_in=4, threshold=2, delta=0.0, direction="negative"),
                                                              dict(target=1.5, sd_hat=0.5, burn_in=5, threshold=6)],
            "PageHinkley": list(C.DETECTORS["PageHinkley"]["variants"]) + [dict(delta=0.0, threshold=1, burn_in=0),
                                                                          dict(delta=0.05, threshold=4, burn_in=10, direction="negative")]}
    for name, plist in grid.items():
        for params in plist:
            for s in range(4 if quick else 20):
                rng = np.random.RandomState(seed + s)
                xs = [float(x[0]) for x in C.stream(name, seed + s, 160)]
                if s % 2:
                    xs = [float(round(x)) for x in xs]
                msg = compare(name, params, xs)
                res.count(key=(name, repr(params), s), nontrivial=True, n=len(xs), check="%s vs sequential test" % name)
                if msg:
                    res.violation("sequential test mismatch: " + msg, REPLAY % dict(verif=VERIF, name=name, params=params, xs=xs), known)
    res.sample({"check": "CUSUM vs sequential test", "params": grid["CUSUM"][0], "stream": "160 observations, 5 levels"})
    monitored_histories(res, "C04", ["C04"], tier, seed, known, names=("PageHinkley", "CUSUM"))
    # the decisions are about the observations that were SUPPLIED: a caller that re-uses / overwrites its buffers after each
    # call must get the same outputs as one that passes private copies (the aliasing scenarios of C15, run here for CUSUM / PageHinkley)
    from bounded import drivers as _drv
    _scns = []
    for _name in ['CUSUM', 'PageHinkley']:
        _d = C.DETECTORS[_name]
        for _v in range(len(_d["variants"]) if not quick else 1):
            for _mode in ("c", "view", "df"):
                _scns.append({"det": _name, "variant": _v, "seed": seed, "n": 70, "mode": _mode})
    _drv.run_scenarios(res, "no_alias", _scns, known)
    _drv.run_scenarios(res, "no_alias_reref", [dict(x, n=9, reref=[3, 6]) for x in _scns], known)
    return res.finish()
