"""C08 bounded stand-in: kdq-tree structural invariants and count conservation on exhaustive small point sets."""
import itertools
import math

import numpy as np
import scipy.stats

from bounded.lib import Result, load_known, VERIF

REPLAY = '''import sys, warnings
warnings.filterwarnings("ignore")
sys.path.insert(0, %(verif)r)
from bounded import b_C08
msg = b_C08.check(%(scn)r)
assert msg is None, msg
print("kdq-tree invariants hold")
'''


def nodes(node, depth=0, parent=None, out=None):
    out = [] if out is None else out
    if node is None:
        return out
    out.append((node, depth, parent))
    nodes(node.left, depth + 1, node, out)
    nodes(node.right, depth + 1, node, out)
    return out


def leaf_of(root, p, m):
    node, depth = root, 0
    while node.axis is not None:
        node = node.left if p[node.axis] <= node.midpoint_at_axis else node.right
        depth += 1
        if node is None:
            return None
    return node


def check_tree(part, data, ub, fills):
    root = part.node
    n, m = data.shape
    allnodes = nodes(root)
    ids = [id(x[0]) for x in allnodes]
    if len(set(ids)) != len(ids):
        return "a node object is reachable along two paths"
    leaves = [x[0] for x in allnodes if x[0].axis is None]
    if [id(l) for l in leaves] != [id(l) for l in part.leaves]:
        return "partitioner.leaves is not the left-to-right list of the tree's leaves"
    if root.num_samples_in_compared_subtrees["build"] != n:
        return "root build count %r != number of points %d" % (root.num_samples_in_compared_subtrees["build"], n)
    for node, depth, parent in allnodes:
        c = node.num_samples_in_compared_subtrees
        if node.axis is not None:
            if node.axis != depth % m:
                return "internal node at depth %d splits axis %r, expected %d" % (depth, node.axis, depth % m)
            if node.left is None or node.right is None:
                return "internal node with a missing child"
            for tid in c:
                l = node.left.num_samples_in_compared_subtrees.get(tid)
                r = node.right.num_samples_in_compared_subtrees.get(tid)
                if l is None or r is None:
                    return "tree id %r present in a node but missing in a child" % tid
                if c[tid] != l + r:
                    return "node count %r for id %r is not the sum of its children's counts %r + %r" % (c[tid], tid, l, r)
    # membership / midpoints: recompute which points reach each node
    min_cut = [int(part.cutpoint_proportion_lbound * np.ptp(data[:, a])) for a in range(m)]

    def walk(node, pts, depth):
        if node.axis is None:
            if node.num_samples_in_compared_subtrees["build"] != len(pts):
                return "leaf build count %r != points in its cell %d" % (node.num_samples_in_compared_subtrees["build"], len(pts))
            # stop rule: a cell becomes a leaf only if it is small, has few distinct values, or cannot be cut further
            ax = depth % m
            col = pts[:, ax]
            cell = (col.min() + (col.max() - col.min()) / 2) - col.min() if len(pts) else 0
            if len(pts) > ub and np.unique(pts).size > ub and cell > min_cut[ax]:
                return "a cell with %d points and %d distinct values (count_ubound=%d) was not split" % (len(pts), np.unique(pts).size, ub)
            return None
        if len(pts) <= ub:
            return "a node holding %d <= count_ubound=%d points was split" % (len(pts), ub)
        col = pts[:, node.axis]
        mid = col.min() + (col.max() - col.min()) / 2
        if not math.isclose(node.midpoint_at_axis, mid, rel_tol=1e-12, abs_tol=1e-12):
            return "split at %r, midpoint of the node's points is %r" % (node.midpoint_at_axis, mid)
        r = walk(node.left, pts[col <= mid], depth + 1)
        return r or walk(node.right, pts[col > mid], depth + 1)
    r = walk(root, data, 0)
    if r:
        return r
    counts = part.leaf_counts("build")
    if sum(counts) != n:
        return "leaf counts add up to %d, %d points were built" % (sum(counts), n)
    # fills
    expected = {}
    for tid, pts, reset in fills:
        part.fill(pts, tid, reset=reset)
        per_leaf = {}
        for p in pts:
            lf = leaf_of(root, p, m)
            per_leaf[id(lf)] = per_leaf.get(id(lf), 0) + 1
        prev = expected.get(tid, {}) if not reset else {}
        cur = {id(l): prev.get(id(l), 0) + per_leaf.get(id(l), 0) for l in part.leaves}
        expected[tid] = cur
        got = part.leaf_counts(tid)
        exp = [cur[id(l)] for l in part.leaves]
        if list(got) != exp:
            return "after fill(id=%r, reset=%r): leaf counts %r, expected %r (each point in the leaf whose cell contains it)" % (tid, reset, list(got), exp)
        if root.num_samples_in_compared_subtrees[tid] != sum(exp):
            return "after fill: root count %r != %d" % (root.num_samples_in_compared_subtrees[tid], sum(exp))
        for node, depth, parent in nodes(root):
            if node.axis is not None:
                c = node.num_samples_in_compared_subtrees
                if c[tid] != node.left.num_samples_in_compared_subtrees[tid] + node.right.num_samples_in_compared_subtrees[tid]:
                    return "after fill(id=%r, reset=%r): a node's count is not the sum of its children's" % (tid, reset)
    return None


def check(scn):
    from menelaus.partitioners import KDQTreePartitioner
    seed, n, m, ub, kind = scn["seed"], scn["n"], scn["m"], scn["ub"], scn["kind"]
    rng = np.random.RandomState(seed)
    if kind == "grid":
        data = rng.randint(0, 5, (n, m)).astype(float)
    elif kind == "blocky":
        # a quantised block stored first, distinct values afterwards
        data = np.vstack([rng.randint(0, 2, (max(1, n // 2), m)).astype(float), rng.randn(n - max(1, n // 2), m)]) if n > 1 else rng.randn(n, m)
    elif kind == "dup":
        base = rng.randn(max(2, n // 3), m)
        data = base[rng.randint(0, len(base), n)]
    elif kind == "narrow":
        # narrow integer dtypes with values in the upper half of their range: min + max does not fit the dtype, the
        # spread does; the tree must be the one of the same points stored as floats
        dt, lo, hi = [(np.int16, 20000, 32767), (np.uint8, 140, 255), (np.int8, 70, 127), (np.uint16, 40000, 65535)][seed % 4]
        data = rng.randint(lo, hi + 1, (n, m)).astype(dt)
    else:
        data = rng.randn(n, m)
    part = KDQTreePartitioner(count_ubound=ub, cutpoint_proportion_lbound=scn.get("lb", 2e-10))
    part.build(data)
    data = data.astype(float)
    if part.node is None:
        return "build returned no tree"
    f1 = rng.randn(n, m) if kind == "cont" else rng.randint(-1, 6, (n, m)).astype(float)
    conc = np.tile(data[:1], (5, 1))
    fills = [("build2", data, False), ("test", f1, False), ("test", conc, False), ("test", conc, True), ("test", f1, True),
             ("other", conc, False), ("other", f1, False)]
    r = check_tree(part, data, ub, fills)
    if r:
        return r
    if list(part.leaf_counts("build2")) != list(part.leaf_counts("build")):
        return "filling the build data under another id does not reproduce the build counts"
    # distributions
    c1, c2 = np.array(part.leaf_counts("build")), np.array(part.leaf_counts("test"))
    h = KDQTreePartitioner._distn_from_counts(c1)
    if not math.isclose(float(np.sum(h)), 1.0, rel_tol=1e-12) or not np.allclose(h, (c1 + 0.5) / (c1.sum() + len(c1) / 2)):
        return "_distn_from_counts is not the +0.5-corrected distribution"
    kl = part.kl_distance("build", "test")
    exp = scipy.stats.entropy((c1 + 0.5) / (c1.sum() + len(c1) / 2), (c2 + 0.5) / (c2.sum() + len(c2) / 2))
    if kl < -1e-12 or not math.isclose(kl, exp, rel_tol=1e-9, abs_tol=1e-12):
        return "kl_distance %r, KL divergence of the corrected leaf distributions is %r" % (kl, exp)
    if abs(part.kl_distance("build", "build2")) > 1e-12:
        return "kl_distance of equal counts is %r, not 0" % part.kl_distance("build", "build2")
    # the divergence is about the counts as they are now: take it, change the counts under the first id (additively, then from
    # scratch), take it again
    part.kl_distance("test", "build")
    for extra, rs in ((f1, False), (conc, True), (data, False)):
        part.fill(extra, "test", reset=rs)
        a, b = np.array(part.leaf_counts("test")), np.array(part.leaf_counts("build"))
        exp = scipy.stats.entropy((a + 0.5) / (a.sum() + len(a) / 2), (b + 0.5) / (b.sum() + len(b) / 2))
        got = part.kl_distance("test", "build")
        if not math.isclose(got, exp, rel_tol=1e-9, abs_tol=1e-12):
            return "after a further fill(reset=%r) under the first id: kl_distance %r, divergence of the current leaf counts is %r" % (rs, got, exp)
    # plotly frame
    for t1, t2 in (("build", "test"), ("test", "build"), ("build", None), ("other", "test")):
        df = part.to_plotly_dataframe(tree_id1=t1, tree_id2=t2)
        alln = nodes(part.node)
        have = [x for x in alln if t1 in x[0].num_samples_in_compared_subtrees]
        if len(df) != len(have) or sorted(df["idx"]) != sorted(id(x[0]) for x in have):
            return "to_plotly_dataframe(%r, %r) lists %d rows for %d nodes" % (t1, t2, len(df), len(have))
        byid = {id(x[0]): x for x in alln}
        tmax = rmax = None
        for _, row in df.iterrows():
            node, depth, parent = byid[row["idx"]]
            if row["depth"] != depth or (parent is None) != (row["parent_idx"] is None or (isinstance(row["parent_idx"], float) and math.isnan(row["parent_idx"]))) \
                    or (parent is not None and row["parent_idx"] != id(parent)):
                return "to_plotly_dataframe: wrong parent / depth for a node"
            if row["cell_count"] != node.num_samples_in_compared_subtrees[t1]:
                return "to_plotly_dataframe: cell_count is not the reference count"
            if t2 is not None:
                d2 = node.num_samples_in_compared_subtrees.get(t2, 0) - node.num_samples_in_compared_subtrees[t1]
                if row["count_diff"] != d2:
                    return "to_plotly_dataframe: count_diff %r, expected %r" % (row["count_diff"], d2)
        if t2 is not None:
            ref_max = df["cell_count"].max()
            test_max = (df["cell_count"] + df["count_diff"]).max()
            for _, row in df.iterrows():
                a, b = row["cell_count"], row["cell_count"] + row["count_diff"]
                rd = np.array([a, ref_max - a]) + 0.5
                td = np.array([b, test_max - b]) + 0.5
                e = scipy.stats.entropy(rd / (rd.sum()), td / (td.sum()))
                if not math.isclose(row["kss"], e, rel_tol=1e-9, abs_tol=1e-12):
                    return "to_plotly_dataframe: kss %r, corrected two-cell divergence is %r" % (row["kss"], e)
    return None


def run(tier, seed, repo, focus=None):
    quick = tier == "quick"
    res = Result("C08", "bounded/b_C08.py",
                 "KDQTreePartitioner on point sets (integer grid with duplicates, duplicated rows, continuous, narrow integer dtypes near the top of their range) x 1..3 "
                 "dimensions x count_ubound in {1,2,3,5} x fill sequences under three ids with and without reset: tree "
                 "shape (axis cycling, midpoints, no split of small nodes, children sum, leaves list), unique-leaf "
                 "assignment on fill, +0.5 distribution sums to 1, KL >= 0 and 0 for equal counts, plotly frame lists "
                 "every node once with parent/depth/counts/KSS; non-trivial = the tree has an internal node",
                 {"seeds": 4 if quick else 25})
    known = load_known()
    for kind in ("grid", "dup", "cont", "blocky", "narrow"):
        for m in (1, 2, 3):
            for ub in (1, 2, 3, 5):
                for n in (1, 4, 9, 20):
                    for s in range(4 if quick else 25):
                        scn = {"seed": seed + s, "n": n, "m": m, "ub": ub, "kind": kind}
                        try:
                            msg = check(scn)
                        except Exception as e:
                            import traceback
                            msg = "%s: %s" % (type(e).__name__, e)
                        res.count(key=repr(scn), nontrivial=n > ub, check="kdq-tree invariants")
                        if msg:
                            res.violation("kdq-tree: " + msg, REPLAY % dict(verif=VERIF, scn=scn), known)
    # randomly drawn sizes / dimensions / stop parameters, incl. larger point sets and coarse cut-point bounds
    prng = np.random.RandomState(seed + 808)
    for r in range(12 if quick else 150):
        scn = {"seed": seed + r, "n": int(prng.choice([30, 60, 150, 400])), "m": int(prng.randint(1, 5)), "ub": int(prng.randint(1, 30)),
               "kind": str(prng.choice(["grid", "dup", "cont", "blocky", "narrow"])), "lb": float(prng.choice([2e-10, 0.01, 0.1, 0.25, 0.5]))}
        try:
            msg = check(scn)
        except Exception as e:
            msg = "%s: %s" % (type(e).__name__, e)
        res.count(key=repr(scn), nontrivial=scn["n"] > scn["ub"], check="kdq-tree invariants (random parameters)")
        if msg:
            res.violation("kdq-tree: " + msg, REPLAY % dict(verif=VERIF, scn=scn), known)
    res.sample({"check": "kdq-tree invariants", "scenario": {"n": 9, "m": 2, "ub": 2, "kind": "grid"}})
    return res.finish()
