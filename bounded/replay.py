"""re-execute a replay file against the real code:  /venv/bin/python bounded/replay.py FILE [--annotate]

kind 'history'    : a self-contained script of public API calls; exit 1 when the violation reproduces
kind 'obligation' : a refuted proof obligation with the solver's counter-model; the model is (1) injected as a
                    pre-state into a real object and the clause evaluated concretely, (2) used to seed a bounded
                    search for a history from the constructor that falsifies the same clause.
"""
import json
import os
import sys
import traceback

VERIF = os.path.dirname(os.path.dirname(os.path.abspath(__file__)))
sys.path.insert(0, VERIF)


def main():
    path = sys.argv[1]
    annotate = "--annotate" in sys.argv
    with open(path) as fh:
        doc = json.load(fh)
    import warnings
    warnings.filterwarnings("ignore")
    if doc["kind"] == "history":
        ns = {"__name__": "__replay__"}
        try:
            exec(compile(doc["script"], path, "exec"), ns)
        except AssertionError as e:
            print("REPRODUCED: %s" % e)
            return 1
        except SystemExit as e:
            return int(e.code or 0)
        print("not reproduced")
        return 0
    from bounded import inject
    try:
        res = inject.replay_obligation(doc)
    except Exception:
        res = {"confirmed": False, "error": traceback.format_exc()}
    if annotate:
        doc["replay_result"] = res
        with open(path, "w") as fh:
            json.dump(doc, fh, indent=1, default=str)
    print(json.dumps(res, default=str)[:2000])
    return 1 if res.get("confirmed") else 0


if __name__ == "__main__":
    sys.exit(main())
