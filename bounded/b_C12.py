"""C12 bounded stand-in: real mixed ensembles vs independently updated twin members and a twin election."""
import copy

import numpy as np
import pandas as pd

from bounded.lib import Result, load_known, VERIF
from bounded import catalog as C

REPLAY = '''import sys, warnings
warnings.filterwarnings("ignore")
sys.path.insert(0, %(verif)r)
from bounded import b_C12
msg = b_C12.check(%(scn)r)
assert msg is None, msg
print("ensemble == election over solitary members")
'''


def elections(kind, n):
    from menelaus.ensemble import SimpleMajorityElection, MinimumApprovalElection, OrderedApprovalElection, ConfirmedElection
    return {"majority": lambda: SimpleMajorityElection(), "min1": lambda: MinimumApprovalElection(1),
            "min2": lambda: MinimumApprovalElection(2), "ordered": lambda: OrderedApprovalElection(1, 1),
            "confirmed": lambda: ConfirmedElection(sensitivity=1, wait_time=3),
            "confirmed2": lambda: ConfirmedElection(sensitivity=2, wait_time=2)}[kind]


def members_stream():
    return [("adwin", "ADWIN", 0, "col0"), ("ph", "PageHinkley", 0, "col1"), ("ddm", "DDM", 0, None),
            ("stepd", "STEPD", 0, None), ("cusum", "CUSUM", 0, "col0"), ("kdq", "KdqTreeStreaming", 1, None)]


def members_labels():
    return [("ddm", "DDM", 0, None), ("stepd", "STEPD", 0, None), ("eddm", "EDDM", 0, None), ("aa", "ADWINAccuracy", 0, None)]


def members_batch():
    return [("kdq", "KdqTreeBatch", 0, None), ("hd", "HDDDM", 2, "first2"), ("nn", "NNDVI", 0, None), ("cd", "CDBD", 2, "col0")]


def selector(kind):
    if kind == "col0":
        return lambda X: np.asarray(X)[:, [0]] if not isinstance(X, pd.DataFrame) else X.iloc[:, [0]]
    if kind == "col1":
        return lambda X: np.asarray(X)[:, [1]] if not isinstance(X, pd.DataFrame) else X.iloc[:, [1]]
    if kind == "first2":
        return lambda X: np.asarray(X)[:, :2] if not isinstance(X, pd.DataFrame) else X.iloc[:, :2]
    return None


def esnap(det):
    return (det.drift_state, getattr(det, "total_samples", getattr(det, "total_batches", None)),
            getattr(det, "samples_since_reset", getattr(det, "batches_since_reset", None)))


def snap(det):
    return (det.drift_state, getattr(det, "total_samples", getattr(det, "total_batches", None)),
            getattr(det, "samples_since_reset", getattr(det, "batches_since_reset", None)),
            [None if x is None else int(x) for x in list(det.retraining_recs)] if hasattr(det, "retraining_recs") else None)


def check(scn):
    from menelaus.ensemble import StreamingEnsemble, BatchEnsemble
    stream, el, seed, n, subset, do_reset = scn["stream"], scn["election"], scn["seed"], scn["n"], scn["subset"], scn.get("reset_at")
    rng = np.random.RandomState(seed)
    labels_only = scn.get("labels_only")
    spec = [m for i, m in enumerate((members_labels() if labels_only else members_stream()) if stream else members_batch())
            if subset[i % len(subset)]]
    if not spec:
        return None
    mk = lambda: {k: C.construct(name, v)[0] for k, name, v, s in spec}
    ens_members, twins = mk(), mk()
    sels = {k: selector(s) for k, name, v, s in spec if s}
    Ens = StreamingEnsemble if stream else BatchEnsemble
    ens = Ens(ens_members, elections(el, len(spec))(), dict(sels))
    twin_el = elections(el, len(spec))()
    levels = (0.0, 6.0, -5.0, 7.0, 0.0)
    if not stream:
        ref = pd.DataFrame(rng.randn(40, 3), columns=["a", "b", "c"])
        np.random.seed(seed)
        ens.set_reference(ref)
        np.random.seed(seed)
        for k, name, v, s in spec:
            twins[k].set_reference(sels[k](ref) if k in sels else ref)
        for k in twins:
            pass
    own_total = 0
    for i in range(n):
        lev = levels[min(i * len(levels) // n, len(levels) - 1)]
        if stream:
            X = np.array([[lev + rng.randn(), lev + rng.randn(), rng.randn()]])
            acc = 0.9 if lev == 0 else 0.3
            yt = int(rng.randint(0, 2))
            yp = yt if rng.rand() < acc else 1 - yt
            if labels_only:
                X = None            # concept-drift members ignore X: an ensemble of them may be updated with labels alone
        else:
            X = pd.DataFrame(lev + rng.randn(40, 3), columns=["a", "b", "c"])
            yt = yp = None
        if do_reset is not None and i == do_reset:
            ens.reset()
            for k in twins:
                twins[k].reset()
            if esnap(ens)[2] != 0 or ens.drift_state is not None:
                return "ensemble.reset() did not reset the ensemble's own counters / state: %r" % (esnap(ens),)
            for k in twins:
                a, b = snap(ens.detectors[k]), snap(twins[k])
                if a != b:
                    return "ensemble.reset() did not reach member %r like a solitary reset: %r vs %r" % (k, a, b)
            own_total_since = 0
        np.random.seed(seed * 1000 + i)
        ens.update(X, yt, yp)
        np.random.seed(seed * 1000 + i)
        for k, name, v, s in spec:
            Xk = sels[k](X) if k in sels else X
            twins[k].update(X=Xk, y_true=yt, y_pred=yp)
        own_total += 1
        for k in twins:
            a, b = snap(ens.detectors[k]), snap(twins[k])
            if a != b:
                return "member %r inside the ensemble is in state %r, on its own %r (update %d)" % (k, a, b, i)
        exp = twin_el(list(twins.values()))
        if ens.drift_state != exp:
            return "ensemble.drift_state %r != election over the members %r at update %d (%r)" % (
                ens.drift_state, exp, i, [t.drift_state for t in twins.values()])
        ds = ens.drift_states
        if list(ds.keys()) != list(twins.keys()) or any(ds[k] != twins[k].drift_state for k in twins):
            return "drift_states %r != members' states at update %d" % (ds, i)
        rr = ens.retraining_recs
        exp_rr = {k: snap(t)[3] for k, t in twins.items() if hasattr(t, "retraining_recs")}
        got_rr = {k: [None if x is None else int(x) for x in list(v)] for k, v in rr.items()}
        if got_rr != exp_rr:
            return "retraining_recs %r != members' %r at update %d" % (got_rr, exp_rr, i)
        tot = esnap(ens)[1]
        if tot != own_total:
            return "ensemble total counter %r after %d updates" % (tot, own_total)
    return None


def run(tier, seed, repo, focus=None):
    quick = tier == "quick"
    res = Result("C12", "bounded/b_C12.py",
                 "StreamingEnsemble (ADWIN, PageHinkley, DDM, STEPD, CUSUM, KdqTreeStreaming subsets) and BatchEnsemble "
                 "(KdqTreeBatch, HDDDM, NNDVI, CDBD subsets) with column selectors x 6 elections: after every update each "
                 "member equals a twin updated alone, drift_state equals a twin election over the twins, drift_states / "
                 "retraining_recs / counters match; labels-only ensembles updated with X=None; reset and set_reference fan-out; same numpy seed schedule; "
                 "non-trivial = every scenario", {"seeds": 1 if quick else 4})
    known = load_known()
    subsets = [[1], [1, 0], [0, 1, 1], [1, 1, 0, 1]]
    # labels-only ensembles (X is None on every update)
    for el in ("majority", "min1", "confirmed", "ordered"):
        for subset in ([1], [1, 1, 0, 1], [0, 1, 1]):
            scn = {"stream": True, "election": el, "seed": seed, "n": 120, "subset": subset, "reset_at": None, "labels_only": True}
            try:
                msg = check(scn)
            except Exception as e:
                msg = "%s: %s" % (type(e).__name__, e)
            res.count(key=repr(scn), nontrivial=True, n=scn["n"], check="labels-only ensemble vs solitary twins")
            if msg:
                res.violation("ensemble: " + msg, REPLAY % dict(verif=VERIF, scn=scn), known)
    for stream in (True, False):
        for el in ("majority", "min1", "min2", "ordered", "confirmed", "confirmed2"):
            for si, subset in enumerate(subsets):
                for s in range(1 if quick else 4):
                    for reset_at in (None, 25 if stream else 4):
                        if quick and reset_at is not None and si not in (0, 3):
                            continue
                        scn = {"stream": stream, "election": el, "seed": seed + s, "n": 90 if stream else 8, "subset": subset,
                               "reset_at": reset_at}
                        try:
                            msg = check(scn)
                        except Exception as e:
                            import traceback
                            msg = "%s: %s" % (type(e).__name__, e)
                            if "bounded/b_C12" in traceback.format_exc().splitlines()[-3]:
                                raise
                        res.count(key=repr(scn), nontrivial=True, n=scn["n"], check="ensemble vs solitary twins")
                        res.sample({"check": "ensemble vs solitary twins", "scenario": scn}, limit=4)
                        if msg:
                            res.violation("ensemble: " + msg, REPLAY % dict(verif=VERIF, scn=scn), known)
    return res.finish()
