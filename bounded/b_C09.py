"""C09 bounded stand-in: kdq-tree detectors vs the rule 'leaf divergence > bootstrap critical value'."""
import math

import numpy as np
import scipy.stats

from bounded.lib import Result, load_known, VERIF

REPLAY = '''import sys, warnings
warnings.filterwarnings("ignore")
sys.path.insert(0, %(verif)r)
from bounded import b_C09
msg = b_C09.CHECKS[%(which)r](%(scn)r)
assert msg is None, msg
print("holds")
'''


def distn(c):
    c = np.asarray(c, float)
    return (c + 0.5) / (c.sum() + len(c) / 2)


def critical(ref_counts, sample_size, alpha, B):
    """independent bootstrap of the critical KL value under the current numpy seed (same draw sequence as the detector)"""
    p = distn(ref_counts)
    L = len(ref_counts)
    ds = []
    for _ in range(B):
        s = np.random.choice(list(range(L)), size=2 * sample_size, p=p)
        h1 = np.bincount(s[:sample_size], minlength=L)
        h2 = np.bincount(s[sample_size:], minlength=L)
        ds.append(scipy.stats.entropy(distn(h1), distn(h2)))
    return float(np.quantile(ds, 1 - alpha, method="nearest"))


def leaf_kl(det):
    df = det.to_plotly_dataframe()
    # leaves = nodes that are nobody's parent
    parents = set(df["parent_idx"].dropna().astype("int64"))
    leaves = df[~df["idx"].isin(parents)]
    ref = leaves["cell_count"].to_numpy(float)
    test = (leaves["cell_count"] + leaves["count_diff"]).to_numpy(float)
    return scipy.stats.entropy(distn(ref), distn(test)), ref, test


def check_batch(scn):
    from menelaus.data_drift import KdqTreeBatch
    seed, nb, alpha, B, ub = scn["seed"], scn["batches"], scn["alpha"], scn["bootstrap"], scn["ub"]
    rng = np.random.RandomState(seed)
    levels = [0, 0, 0, 3, 3, 0, 0, -3, -3, -3]
    batches = [levels[i % len(levels)] + rng.randn(40 + 5 * (i % 3), 2) for i in range(nb)]
    if scn.get("quiet_then_half"):
        batches[2] = batches[0][:20] + 0.01
    det = KdqTreeBatch(alpha=alpha, bootstrap_samples=B, count_ubound=ub)
    ref = None
    crit = None
    for i, b in enumerate(batches):
        np.random.seed(seed * 100 + i)
        was_drift = det.drift_state == "drift"
        det.update(b)
        np.random.seed(seed * 100 + i)
        if i == 0 or was_drift:
            # reference (re)built from the first batch / the drifted batch: critical value from its leaf counts
            from menelaus.partitioners import KDQTreePartitioner
            src = batches[0] if i == 0 else batches[i - 1]
            part = KDQTreePartitioner(count_ubound=ub, cutpoint_proportion_lbound=2e-10)
            part.build(np.array(src))
            rc = part.leaf_counts("build")
            crit = critical(rc, int(sum(rc)), alpha, B)
            if not math.isclose(float(det._critical_dist), crit, rel_tol=1e-9, abs_tol=1e-12):
                return "batch %d: critical value %r, (1-alpha) quantile of %d bootstrapped divergences between pairs of samples of the reference size is %r" % (
                    i, det._critical_dist, B, crit)
            if i == 0:
                if det.drift_state is not None:
                    return "a decision was reported on the reference batch"
                continue
        kl, refc, testc = leaf_kl(det)
        if int(testc.sum()) != len(b):
            return "batch %d: test counts over the leaves add up to %d, the batch has %d rows (counts must be replaced per batch)" % (i, testc.sum(), len(b))
        exp = "drift" if kl > crit else None
        if det.drift_state != exp:
            return "batch %d: state %r, leaf divergence %r vs critical value %r gives %r" % (i, det.drift_state, kl, crit, exp)
    return None


def check_stream(scn):
    from menelaus.data_drift import KdqTreeStreaming
    seed, n, w, pers, alpha, B, ub = scn["seed"], scn["n"], scn["window"], scn["persistence"], scn["alpha"], scn["bootstrap"], scn["ub"]
    rng = np.random.RandomState(seed)
    levels = scn.get("levels", [0, 0, 4, 4, 0, -4, -4, 0])
    seg = max(1, n // len(levels))
    xs = [levels[min(i // seg, len(levels) - 1)] + rng.randn(1, 2) for i in range(n)]
    if scn.get("oscillate"):
        xs = [(4 if (i // 3) % 2 else 0) * (i > 2 * w) + rng.randn(1, 2) for i in range(n)]
    det = KdqTreeStreaming(window_size=w, persistence=pers, alpha=alpha, bootstrap_samples=B, count_ubound=ub)
    epoch = 0          # samples of the current epoch
    run = 0            # consecutive checked samples above the bound
    crit = None
    for i, x in enumerate(xs):
        if det.drift_state == "drift":
            epoch, run, crit = 0, 0, None
        np.random.seed(seed * 1000 + i)
        det.update(x)
        epoch += 1
        if epoch <= w:
            if det.drift_state is not None:
                return "sample %d: %r reported while the reference window is being filled" % (i, det.drift_state)
            if epoch == w:
                np.random.seed(seed * 1000 + i)
                from menelaus.partitioners import KDQTreePartitioner
                part = KDQTreePartitioner(count_ubound=ub, cutpoint_proportion_lbound=2e-10)
                part.build(np.vstack(xs[i - w + 1:i + 1]))
                crit = critical(part.leaf_counts("build"), w, alpha, B)
                if det._critical_dist is None or not math.isclose(float(det._critical_dist), crit, rel_tol=1e-9, abs_tol=1e-12):
                    return "sample %d: tree not built from the first window_size samples of the epoch / critical value %r vs %r" % (i, det._critical_dist, crit)
            continue
        ntest = epoch - w
        if ntest < w:
            if det.drift_state is not None:
                return "sample %d: %r reported before a further window_size samples arrived" % (i, det.drift_state)
            continue
        kl, refc, testc = leaf_kl(det)
        if int(testc.sum()) != ntest:
            return "sample %d: accumulated test counts %d, expected %d" % (i, testc.sum(), ntest)
        run = run + 1 if kl > crit else 0
        exp = "drift" if run > pers * w else None
        if det.drift_state != exp:
            return "sample %d: state %r; divergence above the critical value for %d samples in a row (needs > %r) gives %r" % (
                i, det.drift_state, run, pers * w, exp)
    return None


CHECKS = {"batch": check_batch, "stream": check_stream}


def run(tier, seed, repo, focus=None):
    quick = tier == "quick"
    res = Result("C09", "bounded/b_C09.py",
                 "real KdqTreeBatch / KdqTreeStreaming vs the rule recomputed from public outputs: critical value = (1-alpha) "
                 "'nearest' quantile of bootstrapped divergences re-drawn under the same seed, divergence recomputed from "
                 "to_plotly_dataframe() leaf counts, batch: counts replaced per batch, drifted batch becomes reference; "
                 "streaming: tree from the first window_size samples, silence for a further window_size, persistence = "
                 "consecutive samples above the bound, restart after drift; incl. oscillating streams; "
                 "non-trivial = at least one drift", {"seeds": 3 if quick else 12})
    known = load_known()
    for s in range(3 if quick else 12):
        for (alpha, B, ub) in ((0.1, 25, 5), (0.3, 15, 8), (0.004, 100, 6)):
            for q in (False, True):
                scn = {"seed": seed + s, "batches": 10, "alpha": alpha, "bootstrap": B, "ub": ub, "quiet_then_half": q}
                try:
                    msg = check_batch(scn)
                except Exception as e:
                    msg = "%s: %s" % (type(e).__name__, e)
                res.count(key=repr(scn), nontrivial=True, n=10, check="KdqTreeBatch rule")
                if msg:
                    res.violation("KdqTreeBatch: " + msg, REPLAY % dict(verif=VERIF, scn=scn, which="batch"), known)
        for (w, pers, alpha, B, ub) in ((12, 0.1, 0.2, 20, 3), (8, 0.3, 0.1, 15, 2), (10, 0.5, 0.3, 10, 2)):
            for osc in (False, True):
                scn = {"seed": seed + s, "n": 150, "window": w, "persistence": pers, "alpha": alpha, "bootstrap": B, "ub": ub,
                       "oscillate": osc}
                try:
                    msg = check_stream(scn)
                except Exception as e:
                    msg = "%s: %s" % (type(e).__name__, e)
                res.count(key=repr(scn), nontrivial=True, n=150, check="KdqTreeStreaming rule")
                if msg:
                    res.violation("KdqTreeStreaming: " + msg, REPLAY % dict(verif=VERIF, scn=scn, which="stream"), known)
    # randomly drawn constructor parameters (documented domains)
    import numpy as _np
    prng = _np.random.RandomState(seed + 909)
    for r in range(4 if quick else 40):
        scn = {"seed": seed + r, "batches": 8, "alpha": float(prng.choice([0.01, 0.05, 0.2, 0.5])), "bootstrap": int(prng.randint(5, 60)),
               "ub": int(prng.randint(1, 12)), "quiet_then_half": bool(prng.randint(0, 2))}
        try:
            msg = check_batch(scn)
        except Exception as e:
            msg = "%s: %s" % (type(e).__name__, e)
        res.count(key=repr(scn), nontrivial=True, n=8, check="KdqTreeBatch rule (random parameters)")
        if msg:
            res.violation("KdqTreeBatch: " + msg, REPLAY % dict(verif=VERIF, scn=scn, which="batch"), known)
        scn = {"seed": seed + r, "n": 150, "window": int(prng.randint(4, 20)), "persistence": float(prng.choice([0.0, 0.05, 0.2, 0.5, 0.9])),
               "alpha": float(prng.choice([0.05, 0.2, 0.4])), "bootstrap": int(prng.randint(5, 30)), "ub": int(prng.randint(1, 5)),
               "oscillate": bool(prng.randint(0, 2))}
        try:
            msg = check_stream(scn)
        except Exception as e:
            msg = "%s: %s" % (type(e).__name__, e)
        res.count(key=repr(scn), nontrivial=True, n=150, check="KdqTreeStreaming rule (random parameters)")
        if msg:
            res.violation("KdqTreeStreaming: " + msg, REPLAY % dict(verif=VERIF, scn=scn, which="stream"), known)
    res.sample({"check": "KdqTreeStreaming rule", "scenario": {"window": 12, "persistence": 0.1, "alpha": 0.2, "n": 150}})
    return res.finish()
