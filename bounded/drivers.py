"""Differential oracles of the bounded tier over the catalogue of real detectors.

Each ``check_*`` function takes one JSON-able scenario, runs the *real* classes and returns
(evaluations, nontrivial, message-or-None).  Scenarios are deterministic, so a failing one is its own replay.
These are bounded stand-ins / cross-checks: never counted as proved.
"""
import copy
import itertools
import json
import math
import warnings

import numpy as np
import pandas as pd

from bounded import catalog as C
from bounded.lib import VERIF

ACCEPTED_EXC = (ValueError,)


def feed(det, name, args, step, seed):
    C.seed_schedule(name, seed, step)
    det.update(*args)


def start(name, variant, seed, stream, override=None):
    det, params = C.construct(name, variant, **(override or {}))
    pos = 0
    if C.needs_reference(name):
        C.seed_schedule(name, seed, -1)
        det.set_reference(stream[0][0])
        pos = 1
    return det, params, pos


def run_trace(name, variant, seed, n, override=None, transform=None, stream=None):
    st = stream if stream is not None else C.stream(name, seed, n)
    det, params, pos = start(name, variant, seed, st, override)
    out = []
    for i in range(pos, len(st)):
        args = st[i]
        if transform is not None:
            args = transform(i, args)
        feed(det, name, args, i, seed)
        out.append(C.snapshot(det, name))
    return out, det


# ----------------------------------------------------------------------------------------------- C01
def warmup_ok(name, params, det, snap, epoch_len, first_epoch):
    """documented minimum amount of data of the current epoch before any warning / drift"""
    state, total, since, recs = snap
    if state is None:
        return True
    p = params
    if name == "DDM":
        return since >= p.get("n_threshold", 30)
    if name == "EDDM":
        return since >= p.get("n_threshold", 30)      # at least n_threshold errors need n_threshold samples
    if name == "STEPD":
        return since >= 2 * p.get("window_size", 30)
    if name == "PageHinkley":
        return since > p.get("burn_in", 30)
    if name == "CUSUM":
        return since > p.get("burn_in", 30)
    if name == "LinearFourRates":
        return since > p.get("burn_in", 10) and since % p.get("subsample", 1) == 0
    if name in ("ADWIN", "ADWINAccuracy"):
        return total % p.get("new_sample_thresh", 32) == 0
    if name == "KdqTreeStreaming":
        return epoch_len >= 2 * p["window_size"]
    if name == "PCACD":
        return epoch_len >= (2 * p["window_size"] if first_epoch else p["window_size"])
    if name in ("HDDDM", "CDBD"):
        db = p.get("detect_batch", 1)
        return since >= (2 if db != 3 else 3)
    return True


def check_lifecycle(scn):
    name, variant, seed, n = scn["det"], scn["variant"], scn["seed"], scn["n"]
    d = C.DETECTORS[name]
    st = C.stream(name, seed, n)
    det, params, pos = start(name, variant, seed, st)
    prev = C.snapshot(det, name)
    ev = 0
    drifts = 0
    epoch_len = 0
    first_epoch = True
    for i in range(pos, len(st)):
        feed(det, name, st[i], i, seed)
        cur = C.snapshot(det, name)
        ev += 1
        state, total, since, recs = cur
        pstate, ptotal, psince, precs = prev
        if state not in (None, "warning", "drift"):
            return ev, drifts > 0, "drift_state %r outside {None, 'warning', 'drift'} at update %d" % (state, i)
        restarted = (pstate == "drift") if d["reset_on"] != "notnone" else (pstate is not None)
        db1 = name in ("HDDDM", "CDBD") and params.get("detect_batch", 1) == 1
        exp_total = ptotal + (2 if (db1 and restarted) else 1)
        if total != exp_total:
            return ev, drifts > 0, "total counter %s after update %d, expected %s" % (total, i, exp_total)
        if restarted:
            epoch_len = 0
            first_epoch = False
        epoch_len += 1
        if name == "PCACD":
            exp_since = None        # restarts on the update that fills the rebuilt window: checked below
        elif restarted:
            exp_since = 2 if db1 else d["restart"]
        else:
            exp_since = psince + 1
        if name == "KdqTreeStreaming" and exp_since is not None and epoch_len == params["window_size"]:
            exp_since = 0           # restarts when its reference window completes
        if name == "KdqTreeBatch" and i == pos:
            exp_since = 0           # the first batch is the reference
        if exp_since is not None and since != exp_since:
            return ev, drifts > 0, "since-reset counter %s after update %d (previous %s, previous state %r), " \
                                   "expected %s" % (since, i, psince, pstate, exp_since)
        if name == "PCACD":
            if not (since == psince + 1 or since == 0):
                return ev, drifts > 0, "PCACD since-reset counter jumped from %s to %s" % (psince, since)
            if since == 0 and pstate != "drift" and ptotal != 0:
                return ev, drifts > 0, "PCACD restarted its epoch counter without a preceding drift at update %d" % i
        if not warmup_ok(name, params, det, cur, epoch_len, first_epoch):
            return ev, drifts > 0, "%r reported at update %d before the documented warm-up (since=%s, epoch length %d)" % (
                state, i, since, epoch_len)
        if d["recs"]:
            if state == "drift":
                if recs[0] is None or recs[1] is None or recs[0] > recs[1] or recs[1] != total - 1:
                    return ev, drifts > 0, "retraining_recs %r on drift at update %d (total %s)" % (recs, i, total)
            if restarted and state != "drift":
                if recs[1] is not None and name != "STEPD":
                    return ev, drifts > 0, "retraining_recs %r not cleared by the update following a drift" % (recs,)
                if name in ("ADWIN", "ADWINAccuracy") and recs != [None, None]:
                    return ev, drifts > 0, "retraining_recs %r not cleared by the update following a drift" % (recs,)
                if state is None and name in ("DDM", "EDDM", "LinearFourRates", "STEPD") and recs != [None, None]:
                    return ev, drifts > 0, "retraining_recs %r not cleared by the update following a drift" % (recs,)
        if state == "drift":
            drifts += 1
        prev = cur
    return ev, drifts > 0, None


# ----------------------------------------------------------------------------------------------- C02
def check_clean_slate(scn):
    """running detector vs a fresh twin per epoch (indices shifted); stochastic detectors under one seed schedule"""
    name, variant, seed, n = scn["det"], scn["variant"], scn["seed"], scn["n"]
    st = C.stream(name, seed, n)
    det, params, pos = start(name, variant, seed, st)
    twin = None
    offset = 0
    ev = 0
    drifts = 0
    hist = []
    for i in range(pos, len(st)):
        was_drift = det.drift_state == "drift"
        if was_drift:
            # build the fresh twin for the epoch that starts with this update
            over = {}
            if name == "CUSUM":
                b = params.get("burn_in", 30)
                last = [float(np.ravel(x)[0]) for x in hist[-b:]] if b else [float(np.ravel(x)[0]) for x in hist]
                over = {"target": float(np.mean(last)), "sd_hat": float(np.std(last))}
            twin, _p = C.construct(name, variant, **over)
            offset = C.snapshot(det, name)[1]
        feed(det, name, st[i], i, seed)
        hist.append(st[i][0])
        if twin is not None:
            # the twin's calls are made contiguously under the same seed as the running detector's update
            C.seed_schedule(name, seed, i)
            if was_drift and name in ("HDDDM", "CDBD", "NNDVI", "KdqTreeBatch"):
                twin.set_reference(st[i - 1][0])
            twin.update(*st[i])
            a, b = C.snapshot(det, name), C.snapshot(twin, name)
            ev += 1
            if a[0] != b[0]:
                return ev, True, "epoch starting at index %d: running detector reports %r, fresh twin %r at update %d" % (
                    offset, a[0], b[0], i)
            if a[3] is not None:
                shifted = [None if x is None else x + (a[1] - b[1]) for x in b[3]]
                if a[3] != shifted:
                    return ev, True, "retraining_recs %r differ from the fresh twin's %r shifted by %d at update %d" % (
                        a[3], b[3], a[1] - b[1], i)
            if name in ("HDDDM", "CDBD"):
                ta = det.thresholds.get(det.total_batches)
                tb = twin.thresholds.get(twin.total_batches)
                if (ta is None) != (tb is None) or (ta is not None and not math.isclose(ta, tb, rel_tol=1e-9, abs_tol=1e-12)):
                    return ev, True, "threshold %r differs from the fresh twin's %r at update %d" % (ta, tb, i)
        if det.drift_state == "drift":
            drifts += 1
    return ev, drifts > 0, None


def check_set_reference(scn):
    """set_reference at any time == starting a new detector on that reference"""
    name, variant, seed, n, at = scn["det"], scn["variant"], scn["seed"], scn["n"], scn["at"]
    st = C.stream(name, seed, n)
    ref2 = C.stream(name, seed + 1000, 1)[0][0]
    det, params, pos = start(name, variant, seed, st)
    for i in range(pos, min(at, len(st))):
        feed(det, name, st[i], i, seed)
    C.seed_schedule(name, seed, -2)
    det.set_reference(ref2)
    twin, _ = C.construct(name, variant)
    C.seed_schedule(name, seed, -2)
    twin.set_reference(ref2)
    ev = 0
    nontrivial = False
    for i in range(at, len(st)):
        feed(det, name, st[i], i, seed)
        feed(twin, name, st[i], i, seed)
        ev += 1
        a, b = C.snapshot(det, name), C.snapshot(twin, name)
        if a[0] is not None:
            nontrivial = True
        if a[0] != b[0]:
            return ev, True, "after set_reference at %d: running %r vs fresh %r at update %d" % (at, a, b, i)
        if name in ("HDDDM", "CDBD"):
            ta = det.thresholds.get(det.total_batches)
            tb = twin.thresholds.get(twin.total_batches)
            if (ta is None) != (tb is None) or (ta is not None and not math.isclose(ta, tb, rel_tol=1e-9, abs_tol=1e-12)):
                return ev, True, "after set_reference at %d: threshold %r vs fresh twin %r at update %d" % (at, ta, tb, i)
    return ev, nontrivial, None


# ----------------------------------------------------------------------------------------------- C14
MALFORMED = {
    "label": [("y with two observations", lambda a: ([a[0], a[0]], a[1])), ("y_pred with three observations", lambda a: (a[0], [a[1]] * 3)),
              # several observations in other shapes: a single 2-D row, a nested list, a one-row frame, a column
              ("y as a 1 x 3 array", lambda a: (np.array([[a[0], a[0], a[0]]]), a[1])),
              ("y_pred as a nested one-row list", lambda a: (a[0], [[a[1], a[1]]])),
              ("y as a 1 x 2 DataFrame", lambda a: (pd.DataFrame([[a[0], a[0]]], columns=["u", "v"]), a[1])),
              ("y_pred as a 3 x 1 column", lambda a: (a[0], np.array([[a[1]], [a[1]], [a[1]]])))],
    "value": [("two observations", lambda a: (np.array([[a[0]], [a[0]]]),)), ("multi-column row", lambda a: (np.array([[a[0], a[0], 1.0]]),)),
              ("multi-column list", lambda a: ([a[0], 2.0],))],
    "row": [("two observations", lambda a: (np.vstack([a[0], a[0]]),)), ("extra column", lambda a: (np.hstack([a[0], [[1.0]]]),)),
            ("renamed columns", lambda a: (pd.DataFrame(a[0], columns=["zz%d" % j for j in range(a[0].shape[1])]),))],
    "batch": [("one observation", lambda a: (a[0].iloc[:1],)), ("extra column", lambda a: (a[0].assign(extra=1.0),)),
              ("renamed columns", lambda a: (a[0].rename(columns={a[0].columns[0]: "zz"}),)),
              ("array with another width", lambda a: (np.hstack([a[0].values, np.ones((len(a[0]), 1))]),)),
              # the whole history is fed as plain arrays (no column names are ever established), then a wider frame arrives
              ("wider DataFrame after a history of arrays", lambda a: (pd.DataFrame(np.hstack([np.asarray(a[0]), np.ones((len(a[0]), 2))]),
                                                                                 columns=["p%d" % j for j in range(np.asarray(a[0]).shape[1] + 2)]),))],
}


def check_rejected_call(scn):
    """one malformed call at position `at` of a valid history: must raise ValueError, not be counted, and all later
    outputs must equal those of a run that never saw it"""
    name, variant, seed, n, at, which = scn["det"], scn["variant"], scn["seed"], scn["n"], scn["at"], scn["which"]
    kind = C.DETECTORS[name]["kind"]
    label, mk = MALFORMED[kind][which % len(MALFORMED[kind])]
    st = C.stream(name, seed, n)
    if kind == "row" and "renamed" in label:
        st = [(pd.DataFrame(a[0], columns=["c%d" % j for j in range(a[0].shape[1])]),) for a in st]
    if kind == "batch" and "history of arrays" in label:
        st = [(np.array(a[0].values, dtype=float),) for a in st]
    ref, _ = run_trace(name, variant, seed, n, stream=st)
    det, params, pos = start(name, variant, seed, st)
    out = []
    ev = 0
    for i in range(pos, len(st)):
        if i == at:
            before = C.snapshot(det, name)
            bad = mk(st[i])
            try:
                C.seed_schedule(name, seed, i)
                det.update(*bad)
                return ev + 1, True, "malformed call (%s) at position %d was accepted" % (label, i)
            except ValueError:
                pass
            except Exception as e:
                return ev + 1, True, "malformed call (%s) at position %d raised %s instead of ValueError" % (
                    label, i, type(e).__name__)
            after = C.snapshot(det, name)
            ev += 1
            allowed = 0
            if before[0] == "drift" and name in ("HDDDM", "CDBD") and params.get("detect_batch", 1) == 1:
                allowed = 1     # the pending reset (performed before validation) counts its proxy batch, once
            if after[1] not in (before[1], before[1] + allowed):
                return ev, True, "rejected call (%s) was counted: total %s -> %s" % (label, before[1], after[1])
        try:
            feed(det, name, st[i], i, seed)
        except Exception as e:
            return ev, True, "after a rejected call (%s) at position %d the valid update %d raised %s: %s" % (
                label, at, i, type(e).__name__, e)
        out.append(C.snapshot(det, name))
        ev += 1
        if out[-1] != ref[len(out) - 1]:
            return ev, True, "after a rejected call (%s) at position %d the outputs differ at update %d: %r vs %r" % (
                label, at, i, out[-1], ref[len(out) - 1])
    return ev, True, None


def check_mixed_width(scn):
    """after a prefix of accepted inputs in mixed containers, an input of another width must be rejected whatever its
    container (property C14: 'whatever mix of DataFrame / ndarray / list inputs preceded it')"""
    name, variant, seed, prefix, bad_kind = scn["det"], scn["variant"], scn["seed"], scn["prefix"], scn["bad"]
    kind = C.DETECTORS[name]["kind"]
    st = C.stream(name, seed, len(prefix) + 2)
    det, params = C.construct(name, variant)

    def conv(x, k, cols=None):
        a = np.asarray(x.values if isinstance(x, pd.DataFrame) else x, dtype=float)
        if k == "df":
            return pd.DataFrame(a, columns=cols or ["c%d" % j for j in range(a.shape[1])])
        if k == "list":
            return a.tolist()
        return a
    ev = 0
    for i, k in enumerate(prefix):
        C.seed_schedule(name, seed, i)
        if i == 0 and C.needs_reference(name):
            det.set_reference(conv(st[i][0], k))
        else:
            det.update(conv(st[i][0], k))
        ev += 1
    x = st[len(prefix)][0]
    a = np.asarray(x.values if isinstance(x, pd.DataFrame) else x, dtype=float)
    wide = np.hstack([a, np.ones((a.shape[0], 1))])
    before = C.snapshot(det, name)
    try:
        C.seed_schedule(name, seed, len(prefix))
        det.update(conv(wide, bad_kind))
    except ValueError:
        return ev + 1, True, None
    except Exception as e:
        if bad_kind == "df" and "df" not in prefix:
            return ev + 1, True, "DataFrame after array inputs with a different width is accepted (%s after %s; later %s)" % (
                bad_kind, "/".join(prefix), type(e).__name__)
        return ev + 1, True, "input with another width (%s after %s) raised %s instead of ValueError" % (
            bad_kind, "/".join(prefix), type(e).__name__)
    if bad_kind == "df" and "df" not in prefix:
        return ev + 1, True, "DataFrame after array inputs with a different width is accepted (%s after %s)" % (
            bad_kind, "/".join(prefix))
    return ev + 1, True, "an input with a different number of columns (%s) was accepted after %s inputs" % (
        bad_kind, "/".join(prefix))


def containers(kind, args, which):
    """equivalent values in another container"""
    if kind == "label":
        f = [lambda v: v, lambda v: [v], lambda v: np.array([v]), lambda v: np.array(v), lambda v: pd.Series([v])][which % 5]
        return (f(args[0]), f(args[1]))
    if kind == "value":
        x = args[0]
        f = [lambda v: v, lambda v: [v], lambda v: np.array([[v]]), lambda v: pd.Series([v]), lambda v: pd.DataFrame([[v]], columns=["x"])][which % 5]
        return (f(x),)
    if kind == "row":
        a = args[0]
        f = [lambda v: v, lambda v: v.ravel(), lambda v: v.ravel().tolist(), lambda v: pd.DataFrame(v, columns=["c%d" % j for j in range(v.shape[1])]),
             lambda v: pd.Series(v.ravel())][which % 5]
        return (f(a),)
    if kind == "batch":
        dfm = args[0]
        f = [lambda v: v, lambda v: v.values, lambda v: v.values.tolist(), lambda v: np.asfortranarray(v.values)][which % 4]
        return (f(dfm),)


def check_containers(scn):
    name, variant, seed, n, which = scn["det"], scn["variant"], scn["seed"], scn["n"], scn["which"]
    kind = C.DETECTORS[name]["kind"]
    ref, _ = run_trace(name, variant, seed, n)
    st = C.stream(name, seed, n)
    if kind == "batch" and name in ("HDDDM", "CDBD", "NNDVI", "KdqTreeBatch"):
        st2 = [containers(kind, a, which) for a in st]
    else:
        st2 = [containers(kind, a, which) for a in st]
    try:
        got, _ = run_trace(name, variant, seed, n, stream=st2)
    except Exception as e:
        return 1, True, "equivalent input in container variant %d raised %s: %s" % (which, type(e).__name__, e)
    for i, (a, b) in enumerate(zip(ref, got)):
        if a != b:
            return len(ref), True, "container variant %d changes the output at update %d: %r vs %r" % (which, i, b, a)
    return len(ref), any(s[0] is not None for s in ref), None


# ----------------------------------------------------------------------------------------------- C16
ENCODINGS = [
    ("ints 0/1", lambda v: v), ("ints 3/7", lambda v: 3 if v == 0 else 7), ("strings", lambda v: "neg" if v == 0 else "pos"),
    ("bools", lambda v: bool(v)), ("floats", lambda v: 0.25 if v == 0 else 0.75), ("minus/plus one", lambda v: -1 if v == 0 else 1),
    ("three classes", None),
    # class names of unequal length, one a proper prefix of the other (fixed-width string dtypes must not truncate one to the other)
    ("prefix strings", lambda v: "cat" if v == 0 else "cats"),
    # the two members of a pair arrive with different numeric types: agreeing pairs (k, float(k)), disagreeing pairs (k, k + 0.5)
    ("int label / float prediction", "mixed"),
    ("numbered class names", "numbered"),
    # distinct float labels that are closer than any sensible tolerance: still different classes
    ("nearly equal floats", lambda v: 0.5 if v == 0 else 0.5 + 1e-9),
]


def check_agreement_only(scn):
    name, variant, seed, n, enc = scn["det"], scn["variant"], scn["seed"], scn["n"], scn["enc"]
    ref, _ = run_trace(name, variant, seed, n)
    label, f = ENCODINGS[enc % len(ENCODINGS)]
    rng = np.random.RandomState(seed + 5)

    def tr(i, args):
        yt, yp = args
        if f is None:
            # another pair with the same agreement, drawn from three classes
            a = int(rng.randint(0, 3))
            b = a if yt == yp else (a + 1 + int(rng.randint(0, 2))) % 3
            return ("c%d" % a, "c%d" % b)
        if f == "mixed":
            k = int(rng.randint(0, 5))
            if i % 2:
                return (k, float(k)) if yt == yp else (k, k + 0.5)
            return (float(k), k) if yt == yp else (k + 0.5, k)
        if f == "numbered":
            # twelve classes "class0" .. "class11": "class1" is a prefix of "class10" and "class11"
            a = int(rng.randint(0, 12))
            b = a if yt == yp else [1, 10, 11, 0, 2][(([1, 10, 11, 0, 2].index(a) + 1) % 5) if a in (1, 10, 11, 0, 2) else 0]
            return (("class%d" % a, "class%d" % b) if i % 2 else ("class%d" % b, "class%d" % a)) if yt != yp else ("class%d" % a, "class%d" % a)
        a_, b_ = f(yt), f(yp)
        # the two labels of a pair may arrive in different (one-element) containers: only agreement matters
        wrap = scn.get("wrap", 0)
        if wrap:
            boxes = [lambda v: v, lambda v: [v], lambda v: (v,), lambda v: np.array([v]), lambda v: np.array([[v]])]
            a_, b_ = boxes[(wrap + i) % 5](a_), boxes[(2 * wrap + i + 1) % 5](b_)
        return (a_, b_)
    if name == "LinearFourRates":
        if enc % 3 == 0:
            tr2 = lambda i, a: (bool(a[0]), bool(a[1]))
        elif enc % 3 == 1:
            tr2 = lambda i, a: (np.array([a[0]]), [a[1]])
        else:
            tr2 = lambda i, a: (np.int64(a[0]), np.int32(a[1]))
        try:
            got, _ = run_trace(name, variant, seed, n, transform=tr2)
        except Exception as e:
            return 1, True, "0/1 labels in another container raised %s: %s" % (type(e).__name__, e)
    else:
        try:
            got, _ = run_trace(name, variant, seed, n, transform=tr)
        except Exception as e:
            return 1, True, "label encoding %s raised %s: %s" % (label, type(e).__name__, e)
    for i, (a, b) in enumerate(zip(ref, got)):
        if a != b:
            return len(ref), True, "label encoding '%s' changes the output at update %d: %r vs %r" % (label, i, b, a)
    return len(ref), any(s[0] is not None for s in ref), None


def check_unused_args(scn):
    name, variant, seed, n = scn["det"], scn["variant"], scn["seed"], scn["n"]
    kind = C.DETECTORS[name]["kind"]
    ref, _ = run_trace(name, variant, seed, n)
    st = C.stream(name, seed, n)
    rng = np.random.RandomState(seed + 9)
    det, params, pos = start(name, variant, seed, st)
    for i in range(pos, len(st)):
        C.seed_schedule(name, seed, i)
        junk = [rng.randn(), "junk", [1, 2, 3], np.array([[9.0, 9.0]])][i % 4]
        try:
            if kind == "label":
                det.update(st[i][0], st[i][1], junk)
            else:
                det.update(st[i][0], junk, junk)
        except Exception as e:
            return i + 1, True, "unused argument value %r made update raise %s: %s" % (junk, type(e).__name__, e)
        s = C.snapshot(det, name)
        if s != ref[i - pos]:
            return i + 1, True, "an argument documented as unused changed the output at update %d: %r vs %r" % (i, s, ref[i - pos])
    return len(ref), any(s[0] is not None for s in ref), None


# ----------------------------------------------------------------------------------------------- C17
THRESHOLDS = {
    # name: (parameter, strict value, loose value)   strict must never alarm earlier than loose
    "ADWIN": [("delta", 0.05, 0.5), ("delta", 0.001, 0.3)],
    "ADWINAccuracy": [("delta", 0.05, 0.5)],
    "CUSUM": [("threshold", 8.0, 3.0), ("threshold", 20.0, 4.0)],
    "PageHinkley": [("threshold", 8.0, 2.0), ("threshold", 30.0, 5.0)],
    "DDM": [("drift_scale", 3.0, 1.0), ("drift_scale", 1.5, 0.8)],
    "EDDM": [("drift_thresh", 0.85, 0.93), ("drift_thresh", 0.5, 0.9)],
    "STEPD": [("alpha_drift", 0.01, 0.2), ("alpha_drift", 0.05, 0.1)],
    # (levels above 0.5 are legal: the lower percentile bound then lies above the upper one and nearly everything alarms -
    # the loosest settings; the order must hold across the whole range, also across 0.5)
    "LinearFourRates": [("detect_level", 0.02, 0.2), ("detect_level", 0.4, 0.9), ("detect_level", 0.55, 0.75), ("detect_level", 0.1, 0.6)],
    "KdqTreeStreaming": [("alpha", 0.02, 0.4)], "KdqTreeBatch": [("alpha", 0.02, 0.4), ("alpha", 0.004, 0.2)],
    # (NNDVI: also close pairs under larger numbers of re-assignments - the critical value must be monotone in alpha
    # however it is estimated)
    "NNDVI": [("alpha", 0.01, 0.3), ("alpha", 0.015, 0.02, {"sampling_times": 500}), ("alpha", 0.04, 0.06, {"sampling_times": 200}),
              ("alpha", 0.09, 0.11, {"sampling_times": 100}), ("alpha", 0.019, 0.021, {"sampling_times": 500}),
              ("alpha", 0.01, 0.05, {"sampling_times": 300})],
    "HDDDM": [("significance", 0.01, 0.3), ("significance", 0.05, 0.6), ("significance", 0.2, 0.9)],
    "CDBD": [("significance", 0.01, 0.3), ("significance", 0.05, 0.6), ("significance", 0.2, 0.9)],
}
WARNINGS = {
    "DDM": [("warning_scale", 2.0, 0.3)], "EDDM": [("warning_thresh", 0.9, 0.99)],
    "STEPD": [("alpha_warning", 0.02, 0.4), ("alpha_warning", 0.0001, 0.2)],
    "LinearFourRates": [("warning_level", 0.05, 0.4), ("warning_level", 0.4, 0.9), ("warning_level", 0.55, 0.8)],
}


def first_index(trace, state):
    for i, s in enumerate(trace):
        if s[0] == state:
            return i
    return None


def check_threshold(scn):
    name, variant, seed, n, k = scn["det"], scn["variant"], scn["seed"], scn["n"], scn["k"]
    entry = THRESHOLDS[name][k % len(THRESHOLDS[name])]
    par, strict, loose = entry[:3]
    extra = dict(entry[3]) if len(entry) > 3 else {}
    over_s, over_l = dict(extra, **{par: strict}), dict(extra, **{par: loose})
    if scn.get("slow"):
        # a slowly drifting batch history: distances creep up, so that they pass between close critical values
        kw_stream = {"levels": tuple(0.25 * i for i in range(n + 1)), "rows": 30}
        st_ = C.stream(name, seed, n, vary_rows=False, **kw_stream)
        ts, _ = run_trace(name, variant, seed, n, override=over_s, stream=st_)
        tl, _ = run_trace(name, variant, seed, n, override=over_l, stream=st_)
        fs, fl = first_index(ts, "drift"), first_index(tl, "drift")
        if fs is not None and (fl is None or fs < fl):
            return len(ts) * 2, True, "stricter %s=%r alarms first at %s, looser %s=%r at %s (slowly drifting history, %r)" % (
                par, over_s[par], fs, par, over_l[par], fl, extra)
        return len(ts) * 2, fl is not None, None
    if name in ("HDDDM", "CDBD") and C.DETECTORS[name]["variants"][variant % len(C.DETECTORS[name]["variants"])].get("statistic") == "stdev":
        # number of standard deviations: larger is stricter (also fractional counts below one deviation)
        over_s, over_l = [({par: 3.0}, {par: 0.5}), ({par: 0.6}, {par: 0.05}), ({par: 0.9}, {par: 0.2})][k % 3]
    ts, _ = run_trace(name, variant, seed, n, override=over_s)
    tl, _ = run_trace(name, variant, seed, n, override=over_l)
    fs, fl = first_index(ts, "drift"), first_index(tl, "drift")
    if fs is not None and (fl is None or fs < fl):
        return len(ts) * 2, True, "stricter %s=%r alarms first at %s, looser %s=%r at %s" % (par, over_s[par], fs, par, over_l[par], fl)
    return len(ts) * 2, fl is not None, None


def check_hdm_stdev(scn):
    """HDDDM / CDBD with statistic='stdev' (threshold = mean + significance * standard deviation of the earlier epsilons,
    detect_batch=3: no bootstrap) on a history that is stationary for a few batches and then creeps: a larger number of
    standard deviations - also a fractional one - must never alarm on an earlier batch"""
    from menelaus.data_drift import HDDDM, CDBD
    seed, strict, loose, name = scn["seed"], scn["strict"], scn["loose"], scn["det"]
    d = 1 if name == "CDBD" else 2
    firsts = []
    for sig in (strict, loose):
        rng = np.random.RandomState(seed)
        ref = pd.DataFrame(rng.normal(size=(120, d)), columns=["c%d" % j for j in range(d)])
        det = (CDBD if name == "CDBD" else HDDDM)(detect_batch=3, statistic="stdev", significance=sig)
        det.set_reference(ref)
        first = None
        for i in range(scn["n"]):
            shift = 0.0 if i < 4 else scn["slope"] * (i - 3)
            b = pd.DataFrame(rng.normal(shift, 1.0, size=(120, d)), columns=list(ref.columns))
            det.update(b)
            if det.drift_state == "drift":
                first = i
                break
        firsts.append(first)
    fs, fl = firsts
    if fs is not None and (fl is None or fs < fl):
        return scn["n"] * 2, True, "%s (stdev): stricter significance=%r alarms first at batch %s, looser significance=%r at %s" % (
            name, strict, fs, loose, fl)
    return scn["n"] * 2, fl is not None, None


def check_nndvi_alpha(scn):
    """NN-DVI on a very slowly drifting history (the distance creeps up to the critical value): a smaller alpha must never
    alarm on an earlier batch, also for close alpha pairs and many re-assignments"""
    from menelaus.data_drift import NNDVI
    seed, strict, loose, st, k, rows, slope = scn["seed"], scn["strict"], scn["loose"], scn["sampling_times"], scn["k"], scn["rows"], scn["slope"]
    firsts = []
    for alpha in (strict, loose):
        rng = np.random.RandomState(seed)
        ref = rng.normal(size=(rows, 2))
        batches = [rng.normal(slope * i, 1, size=(rows, 2)) for i in range(1, scn["n"] + 1)]
        det = NNDVI(k_nn=k, sampling_times=st, alpha=alpha)
        np.random.seed(seed + 7)
        det.set_reference(ref)
        first = None
        for i, b in enumerate(batches):
            np.random.seed(seed * 131 + i)
            det.update(b)
            if det.drift_state == "drift":
                first = i
                break
        firsts.append(first)
    fs, fl = firsts
    if fs is not None and (fl is None or fs < fl):
        return scn["n"] * 2, True, "stricter alpha=%r alarms first at batch %s, looser alpha=%r at %s (k_nn=%d, sampling_times=%d)" % (
            strict, fs, loose, fl, k, st)
    return scn["n"] * 2, fl is not None, None


def check_warning_threshold(scn):
    name, variant, seed, n, k = scn["det"], scn["variant"], scn["seed"], scn["n"], scn["k"]
    par, tight, loose = WARNINGS[name][k % len(WARNINGS[name])]
    tt, _ = run_trace(name, variant, seed, n, override={par: tight})
    tl, _ = run_trace(name, variant, seed, n, override={par: loose})
    ft, fl = first_index(tt, "drift"), first_index(tl, "drift")
    if ft != fl:
        return len(tt) * 2, True, "changing only %s (%r -> %r) moved the first drift from %s to %s" % (par, tight, loose, ft, fl)
    upto = len(tt) if ft is None else ft
    for i in range(upto):
        if tt[i][0] == "warning" and tl[i][0] != "warning":
            return len(tt) * 2, True, "loosening %s (%r -> %r) removed the warning at update %d" % (par, tight, loose, i)
    return len(tt) * 2, fl is not None or any(s[0] == "warning" for s in tl), None


# ----------------------------------------------------------------------------------------------- C18
def measured(det, name):
    if name in ("HDDDM", "CDBD"):
        return float(det.current_distance)
    if name == "KdqTreeBatch":
        return None if det._test_dist is None else float(det._test_dist)
    return None


def check_row_order(scn):
    name, variant, seed, n = scn["det"], scn["variant"], scn["seed"], scn["n"]
    kw = {"levels": tuple(scn["levels"])} if scn.get("levels") else {}
    st = C.stream(name, seed, n, vary_rows=False, blocky=bool(scn.get("blocky")), **kw)
    rng = np.random.RandomState(seed + 77)
    idx = scn.get("index")
    if idx:
        # row labels that are not unique (frames stitched together with pd.concat, repeated timestamps): the labels are
        # no part of the data, a batch is its rows whatever they are called
        st = [(b[0].set_axis(np.arange(len(b[0])) // 3, axis=0),) for b in st]
    if idx == "travel":
        st2 = [(b[0].iloc[rng.permutation(len(b[0]))],) for b in st]                 # labels move with their rows
    elif idx == "stay":
        st2 = [(b[0].iloc[rng.permutation(len(b[0]))].set_axis(b[0].index, axis=0),) for b in st]
    else:
        st2 = [(b[0].iloc[rng.permutation(len(b[0]))].reset_index(drop=True),) for b in st]
    decisions = scn.get("decisions", True)
    out = []
    for stream in (st, st2):
        det, params, pos = start(name, variant, seed, stream)
        tr = []
        for i in range(pos, len(stream)):
            feed(det, name, stream[i], i, seed)
            thr = None
            if decisions and name in ("HDDDM", "CDBD"):
                # detect_batch = 3: the threshold does not depend on row positions either
                thr = det.thresholds.get(det.total_batches)
            if name == "NNDVI":
                from menelaus.partitioners import NNSpacePartitioner
                tr.append((det.drift_state, None, None))
            else:
                tr.append((det.drift_state, measured(det, name), thr))
        out.append(tr)
    a, b = out
    for i, (x, y) in enumerate(zip(a, b)):
        if x[1] is not None and y[1] is not None and not math.isclose(x[1], y[1], rel_tol=1e-9, abs_tol=1e-12):
            return len(a) * 2, True, "row permutation changes the measured divergence at batch %d: %r vs %r" % (i, x[1], y[1])
        if decisions and x[0] != y[0]:
            return len(a) * 2, True, "row permutation changes the decision at batch %d: %r vs %r" % (i, x[0], y[0])
        if decisions and (x[2] is None) != (y[2] is None):
            return len(a) * 2, True, "row permutation changes whether a threshold is computed at batch %d" % i
        if decisions and x[2] is not None and not (math.isclose(x[2], y[2], rel_tol=1e-9, abs_tol=1e-12) or (math.isnan(x[2]) and math.isnan(y[2]))):
            return len(a) * 2, True, "row permutation changes the threshold at batch %d: %r vs %r" % (i, x[2], y[2])
        if not decisions and (x[0] == "drift" or y[0] == "drift" or x[0] != y[0]):
            # the threshold may legitimately depend on row positions here: once either run alarms the references differ
            break
    return len(a) * 2, any(x[0] == "drift" for x in a), None


def check_row_order_large(scn):
    """one large test batch (above typical block / chunk sizes), sorted vs shuffled: measured divergence must coincide"""
    name, seed, rows = scn["det"], scn["seed"], scn["rows"]
    rng = np.random.RandomState(seed)
    ref = pd.DataFrame(rng.randn(400, 2), columns=["a", "b"])
    big = rng.randn(rows, 2) * 1.3 + 0.4
    big = big[np.argsort(big[:, 0])]                     # sorted by the first column: blocks differ systematically
    shuffled = big[rng.permutation(rows)]
    vals = []
    for batch in (big, shuffled):
        np.random.seed(seed)
        if name == "KdqTreeBatch":
            from menelaus.data_drift import KdqTreeBatch
            det = KdqTreeBatch(bootstrap_samples=20, count_ubound=40)
            det.set_reference(ref)
            det.update(pd.DataFrame(batch, columns=["a", "b"]))
            vals.append((det.drift_state, float(det._test_dist)))
        elif name == "HDDDM":
            from menelaus.data_drift import HDDDM
            det = HDDDM(detect_batch=3, subsets=3)
            det.set_reference(ref)
            det.update(pd.DataFrame(batch, columns=["a", "b"]))
            vals.append((det.drift_state, float(det.current_distance)))
        else:
            from menelaus.partitioners import KDQTreePartitioner
            kp = KDQTreePartitioner(count_ubound=40)
            kp.build(ref.values)
            kp.fill(batch, "t", reset=True)
            kp.fill(batch, "u", reset=False)
            vals.append((tuple(kp.leaf_counts("t")), float(kp.kl_distance("build", "t")) + float(kp.kl_distance("build", "u"))))
    (s1, d1), (s2, d2) = vals
    if s1 != s2:
        return 2, True, "row permutation of a %d-row batch changes %s: %r vs %r" % (rows, "the leaf counts" if name == "KDQTreePartitioner" else "the decision", s1, s2)
    if not math.isclose(d1, d2, rel_tol=1e-9, abs_tol=1e-12):
        return 2, True, "row permutation of a %d-row batch changes the measured divergence: %r vs %r" % (rows, d1, d2)
    if name == "KDQTreePartitioner" and sum(s1) != rows:
        return 2, True, "leaf counts of a %d-row fill add up to %d" % (rows, sum(s1))
    return 2, True, None


def check_row_order_long(scn):
    """a long drift-free history: the accumulated reference (reference batch + every batch since) grows far beyond typical caps /
    chunk sizes; reference and batches stored sorted vs row-permuted must give the same distances and decisions at every batch"""
    from menelaus.data_drift import HDDDM, CDBD
    name, seed, rows, nb = scn["det"], scn["seed"], scn["rows"], scn["batches"]
    rng = np.random.RandomState(seed)
    w = 1 if name == "CDBD" else 2
    cols = ["a", "b"][:w]
    ref = rng.randn(2 * rows, w)
    ref = ref[np.argsort(ref[:, 0])]
    batches = [rng.randn(rows, w) * (1 + 0.02 * i) for i in range(nb)]
    batches = [b[np.argsort(b[:, 0])] for b in batches]
    out = []
    for permute in (False, True):
        prng = np.random.RandomState(seed + 1)
        pm = (lambda a: a[prng.permutation(len(a))]) if permute else (lambda a: a)
        det = (CDBD if name == "CDBD" else HDDDM)(detect_batch=3, subsets=3)
        det.set_reference(pd.DataFrame(pm(ref), columns=cols))
        rec = []
        for b in batches:
            det.update(pd.DataFrame(pm(b), columns=cols))
            rec.append((det.drift_state, float(det.current_distance), int(det.reference_n)))
        out.append(rec)
    for i, (x, y) in enumerate(zip(*out)):
        if x[0] != y[0] or x[2] != y[2] or not math.isclose(x[1], y[1], rel_tol=1e-9, abs_tol=1e-12):
            return nb, True, ("%s, batch %d of a drift-free history (%d reference rows accumulated): rows stored sorted give (state, distance, "
                              "reference size) %r, the same rows permuted give %r" % (name, i + 1, x[2], x, y))
        exp_n = 2 * rows + (i + 1) * rows
        if all(r[0] is None for r in out[0][:i + 1]) and x[2] != exp_n:
            return nb, True, "%s, batch %d without drift: reference size %d, reference and all batches since hold %d rows" % (name, i + 1, x[2], exp_n)
    return nb, True, None


def check_row_order_coarse(scn):
    """kdq-tree with a coarse minimum cell size (cutpoint_proportion_lbound = 0.1 ...) on wide-range features: the cells, the
    leaf divergence and the KdqTreeBatch decisions must not depend on the order of the rows of the reference / test batch"""
    from menelaus.partitioners import KDQTreePartitioner
    from menelaus.data_drift import KdqTreeBatch
    seed, rows, lb, cu = scn["seed"], scn["rows"], scn["lb"], scn["count_ubound"]
    rng = np.random.RandomState(seed)
    scale = np.array([1000.0, 40.0, 3.0])[:scn.get("d", 3)]
    ref = rng.rand(rows, len(scale)) * scale
    tests = [rng.rand(rows, len(scale)) * scale + (0.15 * i) * scale for i in range(3)]
    perm = lambda a: a[rng.permutation(len(a))]
    out = []
    for permute in (False, True):
        r = perm(ref) if permute else ref
        kp = KDQTreePartitioner(count_ubound=cu, cutpoint_proportion_lbound=lb)
        kp.build(r)
        t = perm(tests[1]) if permute else tests[1]
        kp.fill(t, "t", reset=True)
        part = (len(kp.leaves), sorted(kp.leaf_counts("build")), float(kp.kl_distance("build", "t")))
        det = KdqTreeBatch(count_ubound=cu, cutpoint_proportion_lbound=lb, bootstrap_samples=25)
        np.random.seed(seed)
        det.set_reference(r)
        dec = []
        for i, b in enumerate(tests):
            np.random.seed(seed * 7 + i)
            det.update(perm(b) if permute else b)
            dec.append(det.drift_state)
        out.append((part, dec))
    (p1, d1), (p2, d2) = out
    if p1[0] != p2[0] or p1[1] != p2[1]:
        return 2, True, "kdq-tree (cutpoint_proportion_lbound=%r): permuting the rows of the build data changes the cells: %d leaves %r... vs %d leaves %r..." % (
            lb, p1[0], p1[1][:6], p2[0], p2[1][:6])
    if not math.isclose(p1[2], p2[2], rel_tol=1e-9, abs_tol=1e-12):
        return 2, True, "kdq-tree (cutpoint_proportion_lbound=%r): row permutation changes the leaf divergence: %r vs %r" % (lb, p1[2], p2[2])
    if d1 != d2:
        return 2, True, "KdqTreeBatch (cutpoint_proportion_lbound=%r): row permutation changes the decisions: %r vs %r" % (lb, d1, d2)
    return 2, True, None


def check_row_order_replay(scn):
    """NN-DVI with numpy seeded ONCE for the whole sequence, on a history that replays the reference batch verbatim: the
    run on row-permuted batches must take the same decisions (any shortcut that depends on the row order, or that changes
    how much randomness one order consumes, shows up in the later decisions)"""
    from menelaus.data_drift import NNDVI
    seed, nb = scn["seed"], scn["n"]
    rng = np.random.RandomState(seed)
    ref = rng.randn(25, 2)
    batches = []
    for i in range(nb):
        if i in (1, 4):
            batches.append(ref.copy())                       # the reference again, same rows in the same order
        else:
            batches.append(0.09 * i + rng.randn(25, 2))      # creeping shift: borderline decisions
    prm = np.random.RandomState(seed + 99)
    runs = []
    for permute in (False, True):
        det = NNDVI(k_nn=scn.get("k", 5), sampling_times=scn.get("sampling_times", 20), alpha=scn.get("alpha", 0.2))
        np.random.seed(seed)
        det.set_reference(ref[prm.permutation(len(ref))] if permute else ref)
        out = []
        cur_ref_is_initial = True
        for b in batches:
            det.update(b[prm.permutation(len(b))] if permute else b)
            out.append(det.drift_state)
        runs.append(out)
    a, b = runs
    for i, (x, y) in enumerate(zip(a, b)):
        if x != y:
            return nb * 2, True, "NNDVI (seed set once): decisions differ from batch %d on when the rows of every batch are permuted: %r vs %r" % (i, a, b)
    return nb * 2, any(x == "drift" for x in a), None


def check_nnps_order(scn):
    from menelaus.partitioners import NNSpacePartitioner
    seed, n1, n2, k, lattice = scn["seed"], scn["n1"], scn["n2"], scn["k"], scn.get("lattice", False)
    rng = np.random.RandomState(seed)
    if lattice:
        s1, s2 = rng.randint(0, 4, (n1, 2)).astype(float), rng.randint(1, 5, (n2, 2)).astype(float)
    else:
        s1, s2 = rng.randn(n1, 2), rng.randn(n2, 2) + 0.5
    p = NNSpacePartitioner(k)
    p.build(s1, s2)
    d = NNSpacePartitioner.compute_nnps_distance(p.nnps_matrix, p.v1, p.v2)
    q = NNSpacePartitioner(k)
    q.build(s1[rng.permutation(n1)], s2[rng.permutation(n2)])
    e = NNSpacePartitioner.compute_nnps_distance(q.nnps_matrix, q.v1, q.v2)
    if not math.isclose(d, e, rel_tol=1e-9, abs_tol=1e-12):
        return 2, True, "NNPS distance depends on the row order: %r vs %r" % (d, e)
    return 2, True, None


# ----------------------------------------------------------------------------------------------- C15
def check_no_alias(scn):
    """the caller overwrites what it passed right after each call: outputs must equal a run on private copies, and
    the call itself must not modify its argument"""
    name, variant, seed, n, mode = scn["det"], scn["variant"], scn["seed"], scn["n"], scn["mode"]
    kind = C.DETECTORS[name]["kind"]
    if kind == "label":
        return 0, False, None
    ref, _ = run_trace(name, variant, seed, n)
    st = C.stream(name, seed, n)

    def as_mode(x):
        a = np.array(x.values if isinstance(x, pd.DataFrame) else x, dtype=float)
        if np.ndim(a) == 0:
            a = a.reshape(1)
        if mode == "c":
            return np.ascontiguousarray(a)
        if mode == "f":
            return np.asfortranarray(a.reshape(a.shape[0], -1)) if a.ndim > 1 else a
        if mode == "view":
            big = np.zeros((a.shape[0] + 2,) + a.shape[1:])
            big[1:-1] = a
            return big[1:-1]
        if mode == "df":
            return pd.DataFrame(a.reshape(a.shape[0], -1) if a.ndim > 1 else a.reshape(1, -1),
                                columns=["c%d" % j for j in range(a.reshape(a.shape[0], -1).shape[1] if a.ndim > 1 else a.shape[0])])
        return a
    det, params = C.construct(name, variant)
    pos = 0
    ev = 0
    if C.needs_reference(name):
        r = as_mode(st[0][0])
        before = copy.deepcopy(r)
        C.seed_schedule(name, seed, -1)
        det.set_reference(r)
        if not _same(r, before):
            return 1, True, "set_reference modified the object passed to it (%s input)" % mode
        _scribble(r)
        pos = 1
    for i in range(pos, len(st)):
        x = as_mode(st[i][0])
        before = copy.deepcopy(x)
        try:
            feed(det, name, (x,), i, seed)
        except Exception as e:
            return ev + 1, True, "%s input raised %s: %s" % (mode, type(e).__name__, e)
        ev += 1
        if not _same(x, before):
            return ev, True, "update modified the object passed to it (%s input) at update %d" % (mode, i)
        _scribble(x)
        s = C.snapshot(det, name)
        if s != ref[i - pos]:
            return ev, True, "caller-side overwrite of a previously passed %s input changed the output at update %d: " \
                             "%r vs %r" % (mode, i, s, ref[i - pos])
    return ev, any(s[0] is not None for s in ref), None


def check_no_alias_reref(scn):
    """batch detectors that take a reference: the user re-references the same detector in mid-stream (a second, third
    set_reference call) and overwrites the array it passed; a twin that was given private copies must stay in step"""
    name, variant, seed, n, mode = scn["det"], scn["variant"], scn["seed"], scn["n"], scn["mode"]
    if C.DETECTORS[name]["kind"] != "batch":
        return 0, False, None
    st = C.stream(name, seed, n)

    def as_mode(x):
        a = np.array(x.values if isinstance(x, pd.DataFrame) else x, dtype=float)
        if mode == "f":
            return np.asfortranarray(a)
        if mode == "view":
            big = np.zeros((a.shape[0] + 2,) + a.shape[1:])
            big[1:-1] = a
            return big[1:-1]
        if mode == "df":
            return pd.DataFrame(a, columns=["c%d" % j for j in range(a.shape[1])])
        return np.ascontiguousarray(a)
    twin, _ = C.construct(name, variant)
    det, _ = C.construct(name, variant)
    ev = 0
    drifted = False
    for i in range(len(st)):
        reref = i == 0 or i in scn.get("reref", (3, 6))
        for d, private in ((twin, True), (det, False)):
            x = as_mode(st[i][0])
            before = copy.deepcopy(x)
            C.seed_schedule(name, seed, i if not reref else -1 - i)
            try:
                if reref:
                    d.set_reference(x)
                else:
                    feed(d, name, (x,), i, seed)
            except Exception as e:
                return ev + 1, True, "%s input raised %s: %s" % (mode, type(e).__name__, e)
            if not private:
                if not _same(x, before):
                    return ev + 1, True, "%s modified the object passed to it (%s input) at step %d" % (
                        "set_reference" if reref else "update", mode, i)
                _scribble(x)
        ev += 1
        a, b = C.snapshot(twin, name), C.snapshot(det, name)
        drifted = drifted or a[0] is not None
        if a != b:
            return ev, True, "caller-side overwrite of an array passed to %s (%s input, step %d; re-referenced at %r) changed the " \
                             "output: %r vs %r for a twin given private copies" % ("set_reference" if reref else "update", mode, i,
                                                                                   tuple(scn.get("reref", (3, 6))), b, a)
    return ev, drifted, None


def _same(a, b):
    if isinstance(a, pd.DataFrame):
        return a.equals(b)
    return np.array_equal(a, b)


def _scribble(x):
    try:
        if isinstance(x, pd.DataFrame):
            x.iloc[:, :] = -12345.0
        else:
            x[...] = -12345.0
    except Exception:
        pass


CHECKS = {
    "lifecycle": check_lifecycle, "clean_slate": check_clean_slate, "set_reference": check_set_reference,
    "rejected_call": check_rejected_call, "containers": check_containers, "mixed_width": check_mixed_width, "agreement_only": check_agreement_only,
    "unused_args": check_unused_args, "threshold": check_threshold, "warning_threshold": check_warning_threshold,
    "nndvi_alpha": check_nndvi_alpha, "hdm_stdev": check_hdm_stdev, "row_order": check_row_order, "row_order_replay": check_row_order_replay, "row_order_large": check_row_order_large, "row_order_long": check_row_order_long, "row_order_coarse": check_row_order_coarse, "nnps_order": check_nnps_order, "no_alias": check_no_alias, "no_alias_reref": check_no_alias_reref,
}

REPLAY = '''import sys, warnings
warnings.filterwarnings("ignore")
sys.path.insert(0, %(verif)r)
from bounded import drivers
scn = %(scn)r
ev, nontrivial, msg = drivers.CHECKS[%(check)r](scn)
assert msg is None, msg
print("scenario holds")
'''


def run_scenarios(res, check, scenarios, known=None):
    fn = CHECKS[check]
    for scn in scenarios:
        with warnings.catch_warnings():
            warnings.simplefilter("ignore")
            try:
                ev, nontrivial, msg = fn(scn)
            except Exception as e:       # an exception inside the real library during a valid history is a finding
                import traceback
                ev, nontrivial, msg = 1, True, "%s during a valid history: %s" % (type(e).__name__, e)
                tb = traceback.format_exc()
                if "bounded/" in tb.splitlines()[-3] if len(tb.splitlines()) > 3 else False:
                    raise
        res.count(key=json.dumps(scn, sort_keys=True), nontrivial=nontrivial, n=max(ev, 1), check=check)
        res.sample({"check": check, "scenario": scn}, limit=6)
        if msg is not None:
            res.violation("%s %s: %s" % (check, scn.get("det", ""), msg),
                          REPLAY % dict(verif=VERIF, scn=scn, check=check), known)
