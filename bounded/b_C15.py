"""C15 bounded stand-in: callers overwrite what they passed after every call; injectors leave their input unchanged."""
import copy

import numpy as np
import pandas as pd

from bounded.lib import Result, load_known, VERIF
from bounded import drivers, catalog as C

REPLAY = '''import sys, warnings
warnings.filterwarnings("ignore")
sys.path.insert(0, %(verif)r)
from bounded import b_C15
msg = b_C15.check_injector(%(scn)r)
assert msg is None, msg
print("injector leaves its input alone")
'''

INJECTORS = ["FeatureShiftInjector", "FeatureSwapInjector", "FeatureCoverInjector", "LabelSwapInjector",
             "LabelJoinInjector", "LabelProbabilityInjector", "LabelDirichletInjector", "BrownianNoiseInjector"]


def make_data(seed, as_df, n=30):
    rng = np.random.RandomState(seed)
    a = np.column_stack([rng.randn(n), rng.randn(n) * 2 + 1, rng.randint(0, 3, n).astype(float), rng.randint(0, 2, n).astype(float)])
    if as_df:
        return pd.DataFrame(a, columns=["a", "b", "cls", "grp"])
    return a


def call_injector(name, inj, data, as_df, lo, hi, extra=None):
    col = (lambda s, i: s if as_df else i)
    np.random.seed(7)
    if name == "FeatureShiftInjector":
        return inj(data, lo, hi, col("a", 0), 0.5)
    if name == "FeatureSwapInjector":
        return inj(data, lo, hi, col("a", 0), col("b", 1))
    if name == "FeatureCoverInjector":
        return inj(data, col("grp", 3), 10, random_state=3)
    if name == "LabelSwapInjector":
        return inj(data, lo, hi, col("cls", 2), 0, 1)
    if name == "LabelJoinInjector":
        return inj(data, lo, hi, col("cls", 2), 0, 1, 7)
    if name == "LabelProbabilityInjector":
        return inj(data, lo, hi, col("cls", 2), extra)
    if name == "LabelDirichletInjector":
        return inj(data, lo, hi, col("cls", 2), extra)
    if name == "BrownianNoiseInjector":
        return inj(data, lo, hi, col("a", 0), 2.0, random_state=5)


def check_injector(scn):
    import menelaus.injection as I
    name, as_df, lo, hi, seed, reuse = scn["inj"], scn["df"], scn["lo"], scn["hi"], scn["seed"], scn.get("reuse", False)
    inj = getattr(I, name)()
    if reuse:
        # the same injector instance was used before with the other container type
        try:
            call_injector(name, inj, make_data(seed + 1, not as_df), not as_df, 2, 9,
                          {0.0: 0.5} if name == "LabelProbabilityInjector" else {0.0: 4, 1.0: 1, 2.0: 1})
        except Exception:
            pass
    data = make_data(seed, as_df)
    before = copy.deepcopy(data)
    extra = None
    if name == "LabelProbabilityInjector":
        extra = {0.0: 0.5}
    if name == "LabelDirichletInjector":
        extra = {0.0: 4, 1.0: 1, 2.0: 1}
    extra_before = copy.deepcopy(extra)
    out = call_injector(name, inj, data, as_df, lo, hi, extra)
    same = data.equals(before) if as_df else np.array_equal(data, before)
    if not same:
        return "%s modified its input (%s)" % (name, "DataFrame" if as_df else "ndarray")
    if extra != extra_before:
        return "%s modified the dictionary passed to it: %r -> %r" % (name, extra_before, extra)
    if out is data:
        return "%s returned its input object" % name
    if type(out) is not type(data):
        return "%s returned %s for %s input" % (name, type(out).__name__, type(data).__name__)
    if not as_df and np.shares_memory(out, data):
        return "%s returned an array sharing memory with its input" % name
    return None


def run(tier, seed, repo, focus=None):
    quick = tier == "quick"
    res = Result("C15", "bounded/b_C15.py",
                 "every non-label detector x {C-order, Fortran-order, view-of-larger-array, DataFrame} inputs: the caller "
                 "overwrites each object right after handing it over (reference batches, test batches, single "
                 "observations; batch detectors are also re-referenced in mid-stream); outputs must equal a run on private copies and the call must not modify its argument; "
                 "every injector x {ndarray, DataFrame} x windows: input bit-for-bit unchanged, new object of the same "
                 "type, caller dictionaries untouched; non-trivial = every scenario", {"seeds": 1 if quick else 3})
    known = load_known()
    scns = []
    for name, d in C.DETECTORS.items():
        if d["kind"] == "label":
            continue
        n = {"value": 70, "row": 70, "batch": 8}[d["kind"]]
        if name == "PCACD":
            n = 90
        for v in range(len(d["variants"]) if not quick else 1):
            for mode in ("c", "f", "view", "df"):
                for s in range(1 if quick else 3):
                    scns.append({"det": name, "variant": v, "seed": seed + s, "n": n, "mode": mode})
    drivers.run_scenarios(res, "no_alias", scns, known)
    # re-referencing in mid-stream: second and third set_reference calls on the same detector, array overwritten afterwards
    scns = []
    for name, d in C.DETECTORS.items():
        if d["kind"] != "batch":
            continue
        for v in range(len(d["variants"]) if not quick else 1):
            for mode in ("c", "f", "view", "df"):
                for s in range(1 if quick else 3):
                    scns.append({"det": name, "variant": v, "seed": seed + s, "n": 9, "mode": mode, "reref": [3, 6]})
    drivers.run_scenarios(res, "no_alias_reref", scns, known)
    for name in INJECTORS:
        for as_df in (False, True):
            for lo, hi in ((0, 30), (5, 20), (10, 10), (29, 30)):
                for reuse in (False, True):
                    scn = {"inj": name, "df": as_df, "lo": lo, "hi": hi, "seed": seed, "reuse": reuse}
                    try:
                        msg = check_injector(scn)
                    except Exception as e:
                        msg = "%s raised %s: %s" % (name, type(e).__name__, e)
                    res.count(key=repr(scn), nontrivial=True, check="injector input untouched")
                    if msg:
                        res.violation("injector: " + msg, REPLAY % dict(verif=VERIF, scn=scn), known)
    res.sample({"check": "injector input untouched", "scenario": {"inj": "LabelProbabilityInjector", "df": True, "lo": 5, "hi": 20}})
    return res.finish()
