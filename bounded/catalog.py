"""Catalogue of the 15 public detectors for the bounded tier: small configurations that reach warning / drift
quickly, deterministic input streams with several drifts, and a uniform way to feed them.

Every scenario is a plain dict (JSON-able) so that a failing one can be replayed exactly:
  {"det": name, "variant": i, "seed": s, "n": length, ...}
"""
import copy
import math

import numpy as np
import pandas as pd


class StubClf:
    """deterministic classifier for MD3: predicts 1 iff the first feature is positive; margin = |x0| < 0.5"""

    def fit(self, X, y):
        return self

    def predict(self, X):
        a = np.asarray(X)
        return (a[:, 0] > 0).astype(int)

    def get_params(self, deep=False):
        return {}

    def set_params(self, **kw):
        return self


def stub_margin(detector, sample, clf):
    return 1 if abs(float(np.ravel(sample)[0])) < 0.5 else 0


def _labels(rng, n, seg=None, accs=(0.95, 0.3, 0.9, 0.2, 0.85)):
    """piecewise-stationary correct/incorrect sequence -> list of (y_true, y_pred)"""
    seg = seg or max(8, n // len(accs))
    out = []
    for i in range(n):
        acc = accs[min(i // seg, len(accs) - 1)]
        yt = int(rng.randint(0, 2))
        ok = rng.rand() < acc
        out.append((yt, yt if ok else 1 - yt))
    return out


def _values(rng, n, seg=None, levels=(0.0, 6.0, -4.0, 8.0, 1.0), sd=1.0):
    seg = seg or max(8, n // len(levels))
    return [float(levels[min(i // seg, len(levels) - 1)] + sd * rng.randn()) for i in range(n)]


def _rows(rng, n, d=2, seg=None, levels=(0.0, 5.0, -5.0, 7.0)):
    seg = seg or max(10, n // len(levels))
    return [np.array([[levels[min(i // seg, len(levels) - 1)] + rng.randn() for _ in range(d)]]) for i in range(n)]


def _batches(rng, n, d=2, rows=40, levels=(0.0, 0.0, 4.0, 4.0, -3.0, -3.0, 0.0, 5.0), cols=None, vary_rows=True, blocky=False):
    out = []
    for i in range(n):
        r = rows + (int(rng.randint(0, 9)) if vary_rows else 0)
        lev = levels[i % len(levels)] if i >= len(levels) else levels[i]
        a = lev + rng.randn(r, d)
        if blocky:
            # a quantised block stored first (few distinct values), continuous rows afterwards
            a[: (2 * r) // 3] = lev + rng.randint(0, 2, ((2 * r) // 3, d))
        out.append(pd.DataFrame(a, columns=cols or ["f%d" % j for j in range(d)]))
    return out


DETECTORS = {}


def reg(name, kind, variants, **kw):
    DETECTORS[name] = dict(name=name, kind=kind, variants=variants, **kw)


# kind: 'label' update(y_true, y_pred) | 'value' update(x) | 'row' update(1xd array) | 'batch' set_reference+update
reg("DDM", "label", [dict(n_threshold=3, warning_scale=0.5, drift_scale=1.0), dict(n_threshold=5, warning_scale=1, drift_scale=2),
                     dict(n_threshold=1, warning_scale=0.2, drift_scale=0.4), dict()],
    imp="from menelaus.concept_drift import DDM", recs=True, reset_on="drift", restart=1)
reg("EDDM", "label", [dict(n_threshold=3, warning_thresh=0.97, drift_thresh=0.92), dict(n_threshold=2, warning_thresh=0.99, drift_thresh=0.95),
                      dict(n_threshold=5, warning_thresh=0.95, drift_thresh=0.9)],
    imp="from menelaus.concept_drift import EDDM", recs=True, reset_on="drift", restart=1)
reg("STEPD", "label", [dict(window_size=3, alpha_warning=0.3, alpha_drift=0.1), dict(window_size=5, alpha_warning=0.2, alpha_drift=0.05),
                       dict(window_size=2, alpha_warning=0.4, alpha_drift=0.2)],
    imp="from menelaus.concept_drift import STEPD", recs=True, reset_on="drift", restart=1)
reg("ADWINAccuracy", "label", [dict(delta=0.3, max_buckets=2, new_sample_thresh=4, window_size_thresh=4, subwindow_size_thresh=2),
                               dict(delta=0.5, max_buckets=1, new_sample_thresh=2, window_size_thresh=3, subwindow_size_thresh=1),
                               dict(delta=0.2, max_buckets=5, new_sample_thresh=8, window_size_thresh=6, subwindow_size_thresh=3,
                                    conservative_bound=True)],
    imp="from menelaus.concept_drift import ADWINAccuracy", recs=True, reset_on="notnone", restart=1)
reg("LinearFourRates", "label", [dict(burn_in=6, num_mc=60, subsample=1, time_decay_factor=0.6, warning_level=0.2, detect_level=0.1),
                                 dict(burn_in=4, num_mc=40, subsample=2, time_decay_factor=0.7, warning_level=0.3, detect_level=0.15,
                                      rates_tracked=["tpr", "ppv"])],
    imp="from menelaus.concept_drift import LinearFourRates", recs=True, reset_on="drift", restart=1, slow=True)
reg("ADWIN", "value", [dict(delta=0.3, max_buckets=2, new_sample_thresh=4, window_size_thresh=4, subwindow_size_thresh=2),
                       dict(delta=0.5, max_buckets=1, new_sample_thresh=2, window_size_thresh=3, subwindow_size_thresh=1),
                       dict(delta=0.05, max_buckets=5, new_sample_thresh=8, window_size_thresh=6, subwindow_size_thresh=3),
                       dict(delta=0.3, max_buckets=3, new_sample_thresh=4, window_size_thresh=5, subwindow_size_thresh=2,
                            conservative_bound=True)],
    imp="from menelaus.change_detection import ADWIN", recs=True, reset_on="notnone", restart=1)
reg("PageHinkley", "value", [dict(delta=0.01, threshold=3, burn_in=5), dict(delta=0.1, threshold=2, burn_in=3, direction="negative"),
                             dict(delta=0.01, threshold=10, burn_in=8)],
    imp="from menelaus.change_detection import PageHinkley", recs=False, reset_on="drift", restart=1)
reg("CUSUM", "value", [dict(burn_in=6, delta=0.01, threshold=4), dict(burn_in=5, delta=0.005, threshold=6, direction="positive"),
                       dict(target=0.0, sd_hat=1.0, burn_in=4, delta=0.01, threshold=5, direction="negative"),
                       dict(burn_in=8, delta=0.01, threshold=8)],
    imp="from menelaus.change_detection import CUSUM", recs=False, reset_on="drift", restart=1)
reg("KdqTreeStreaming", "row", [dict(window_size=12, persistence=0.1, alpha=0.2, bootstrap_samples=20, count_ubound=3),
                                dict(window_size=8, persistence=0.3, alpha=0.1, bootstrap_samples=15, count_ubound=2)],
    imp="from menelaus.data_drift import KdqTreeStreaming", recs=False, reset_on="drift", restart=1, seeded=True)
reg("PCACD", "row", [dict(window_size=25, sample_period=0.08, delta=0.05, divergence_metric="intersection"),
                     dict(window_size=30, sample_period=0.1, delta=0.05, divergence_metric="kl"),
                     dict(window_size=25, sample_period=0.08, delta=0.05, divergence_metric="intersection", online_scaling=False)],
    imp="from menelaus.data_drift import PCACD", recs=False, reset_on="special", restart=0, dim=3)
reg("KdqTreeBatch", "batch", [dict(alpha=0.1, bootstrap_samples=25, count_ubound=5), dict(alpha=0.3, bootstrap_samples=15, count_ubound=8)],
    imp="from menelaus.data_drift import KdqTreeBatch", recs=False, reset_on="drift", restart=1, seeded=True)
reg("HDDDM", "batch", [dict(detect_batch=1, subsets=3), dict(detect_batch=2, subsets=3), dict(detect_batch=3),
                       dict(detect_batch=3, statistic="stdev", significance=1.0), dict(detect_batch=2, divergence="KL", subsets=3)],
    imp="from menelaus.data_drift import HDDDM", recs=False, reset_on="drift", restart=1, seeded=True)
reg("CDBD", "batch", [dict(detect_batch=1, subsets=3), dict(detect_batch=2, subsets=3), dict(detect_batch=3),
                      dict(detect_batch=3, divergence="H")],
    imp="from menelaus.data_drift import CDBD", recs=False, reset_on="drift", restart=1, seeded=True, dim=1)
reg("NNDVI", "batch", [dict(k_nn=3, sampling_times=30, alpha=0.1), dict(k_nn=2, sampling_times=20, alpha=0.05)],
    imp="from menelaus.data_drift import NNDVI", recs=False, reset_on="drift", restart=1, seeded=True)


def get_class(name):
    import importlib
    d = DETECTORS[name]
    mod = d["imp"].split()[1]
    return getattr(importlib.import_module(mod), name)


def construct(name, variant, **override):
    d = DETECTORS[name]
    params = dict(d["variants"][variant % len(d["variants"])])
    params.update(override)
    return get_class(name)(**params), params


def stream(name, seed, n, **kw):
    """deterministic input stream of length n: list of positional-argument tuples for update()"""
    d = DETECTORS[name]
    rng = np.random.RandomState(seed)
    kind = d["kind"]
    if kind == "label":
        return [(a, b) for a, b in _labels(rng, n, **kw)]
    if kind == "value":
        return [(x,) for x in _values(rng, n, **kw)]
    if kind == "row":
        return [(r,) for r in _rows(rng, n, d=d.get("dim", 2), **kw)]
    if kind == "batch":
        return [(b,) for b in _batches(rng, n, d=d.get("dim", 2), **kw)]
    raise ValueError(kind)


def needs_reference(name):
    return DETECTORS[name]["kind"] == "batch" and name != "KdqTreeBatch"


def snapshot(det, name):
    """observable outputs after an update"""
    recs = None
    if hasattr(det, "retraining_recs"):
        r = det.retraining_recs
        recs = [None if x is None else int(x) for x in list(r)]
    tot = getattr(det, "total_samples", None)
    if tot is None:
        tot = getattr(det, "total_batches", None)
    since = getattr(det, "samples_since_reset", None)
    if since is None:
        since = getattr(det, "batches_since_reset", None)
    return (det.drift_state, tot, since, recs)


def seed_schedule(name, seed, step):
    """fixed numpy seed schedule for stochastic detectors: re-seed before every call"""
    if DETECTORS[name].get("seeded") or name == "LinearFourRates":
        np.random.seed((seed * 7919 + step * 104729 + 17) % (2 ** 31 - 1))
