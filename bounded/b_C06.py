"""C06 bounded stand-in: LinearFourRates vs a plain-Python specification (same numpy seed schedule for the
Monte-Carlo bounds)."""
import math

import numpy as np

from bounded.lib import Result, load_known, VERIF

REPLAY = '''import sys, warnings
warnings.filterwarnings("ignore")
sys.path.insert(0, %(verif)r)
from bounded import b_C06
msg = b_C06.check(%(scn)r)
assert msg is None, msg
print("LFR follows its specification")
'''
RATES = ["tpr", "tnr", "ppv", "npv"]


def rates(c):
    tn, fn, fp, tp = c[0][0], c[0][1], c[1][0], c[1][1]
    return ({"tpr": tp / (tp + fn), "tnr": tn / (tn + fp), "ppv": tp / (fp + tp), "npv": tn / (tn + fn)},
            {"tpr": tp + fn, "tnr": tn + fp, "ppv": fp + tp, "npv": tn + fn})


def sim_bounds(p, denom, eta, wl, dl, num_mc):
    w = np.array([eta ** (denom - i) for i in range(1, denom + 1)])
    vals = []
    for _ in range(num_mc):
        b = np.random.binomial(n=1, p=p, size=denom)
        vals.append((1 - eta) * float(np.sum(w * b)))
    return {"lb_warn": np.percentile(vals, wl * 100), "ub_warn": np.percentile(vals, 100 - wl * 100),
            "lb_detect": np.percentile(vals, dl * 100), "ub_detect": np.percentile(vals, 100 - dl * 100)}


def check(scn):
    from menelaus.concept_drift import LinearFourRates
    p = dict(time_decay_factor=0.6, warning_level=0.2, detect_level=0.1, burn_in=6, num_mc=60, subsample=1, rates_tracked=list(RATES),
             round_val=4)
    p.update(scn["params"])
    seed, n = scn["seed"], scn["n"]
    det = LinearFourRates(**p)
    rng = np.random.RandomState(seed)
    eta = p["time_decay_factor"]
    conf = [[1, 1], [1, 1]]
    R = {r: 0.5 for r in RATES}
    cache = {}
    state = None
    recs = [None, None]
    total = since = 0
    hist = []
    for i in range(n):
        acc = [0.9, 0.35, 0.9, 0.2][(i * 4) // n]
        yt = int(rng.randint(0, 2))
        yp = yt if rng.rand() < acc else 1 - yt
        np.random.seed(seed * 1000 + i)
        enc = {"int": int, "bool": bool, "npbool": np.bool_, "boolarr": (lambda v: np.array([bool(v)])),
               "npint": np.int64, "float": float}[scn.get("labels", "int")]
        det.update(enc(yt), enc(yp))
        np.random.seed(seed * 1000 + i)
        if state == "drift":
            conf = [[1, 1], [1, 1]]
            R = {r: 0.5 for r in RATES}
            since = 0
            state, recs = None, [None, None]
        total += 1
        since += 1
        old, _ = rates(conf)
        conf[yp][yt] += 1
        new, den = rates(conf)
        alarm = warn = False
        for r in p["rates_tracked"]:
            if new[r] != old[r]:
                R[r] = eta * R[r] + (1 - eta) * (1 if yt == yp else 0)
            if since > p["burn_in"] and since % p["subsample"] == 0:
                key = (round(new[r], p["round_val"]), round(den[r], p["round_val"]))
                if key not in cache:
                    cache[key] = sim_bounds(new[r], den[r], eta, p["warning_level"], p["detect_level"], p["num_mc"])
                b = cache[key]
                if R[r] < b["lb_detect"] or R[r] > b["ub_detect"]:
                    alarm = True
                if R[r] < b["lb_warn"] or R[r] > b["ub_warn"]:
                    warn = True
        state = "drift" if alarm else ("warning" if warn else None)
        if state == "warning" and recs[0] is None:
            recs[0] = total - 1
        if state == "drift":
            recs[1] = total - 1
            if recs[0] is None:
                recs[0] = total - 1
        hist.append(state)
        if det.drift_state != state:
            return "sample %d: state %r, specification %r (tracked %r)" % (i, det.drift_state, state, p["rates_tracked"])
        got = [None if x is None else int(x) for x in list(det.retraining_recs)]
        if got != recs:
            return "sample %d: retraining_recs %r, specification %r" % (i, got, recs)
        if not np.array_equal(np.asarray(det._confusion), np.asarray(conf)):
            return "sample %d: confusion matrix %r, expected %r (cell [y_pred][y_true] incremented, one pseudo-count per cell)" % (
                i, det._confusion.tolist(), conf)
        if det.all_drift_states[-1] != state or len(det.all_drift_states) < total:
            return "sample %d: all_drift_states not appended" % i
    return None


def check_rates(scn):
    from menelaus.concept_drift import LinearFourRates
    rng = np.random.RandomState(scn["seed"])
    c = rng.randint(1, 30, (2, 2))
    r = LinearFourRates._get_four_rates(c)
    dn = LinearFourRates._get_four_denominators(c)
    er, ed = rates(c.tolist())
    for k in RATES:
        if not math.isclose(r[k], er[k], rel_tol=1e-12) or dn[k + "_N"] != ed[k]:
            return "rates of %r: %s = %r / %r, expected %r / %r" % (c.tolist(), k, r[k], dn[k + "_N"], er[k], ed[k])
    return None


def run(tier, seed, repo, focus=None):
    quick = tier == "quick"
    res = Result("C06", "bounded/b_C06.py",
                 "real LinearFourRates vs a plain-Python specification (confusion matrix with one pseudo-count per cell, four "
                 "rates, statistic updated only when the rate changed, Monte-Carlo quantile bounds re-drawn under the same "
                 "numpy seed schedule with the cache keyed by rounded rate / denominator, burn_in, subsample, tracked "
                 "subsets, also parallelize=True with a single tracked rate, retraining_recs) on 0/1 label sequences with accuracy shifts; non-trivial = a warning or drift "
                 "occurs", {"seeds": 2 if quick else 8})
    known = load_known()
    grids = [dict(), dict(rates_tracked=["tpr", "ppv"], subsample=2, burn_in=4), dict(rates_tracked=["tnr"], time_decay_factor=0.8),
             dict(round_val=1, subsample=2, num_mc=40), dict(burn_in=0, num_mc=30, warning_level=0.3, detect_level=0.15),
             # parallelize=True with ONE tracked rate: a single joblib task, so the run is deterministic under the seed schedule
             # and must follow the same specification (with several tracked rates the threads race on numpy's global generator:
             # excluded, A-SEQ)
             dict(rates_tracked=["tnr"], parallelize=True), dict(rates_tracked=["ppv"], parallelize=True, subsample=2, burn_in=3),
             dict(rates_tracked=["tpr"], parallelize=True, time_decay_factor=0.8), dict(rates_tracked=["npv"], parallelize=True, num_mc=40)]
    for params in grids:
        for s in range(2 if quick else 8):
            scn = {"params": params, "seed": seed + s, "n": 70 if quick else 140}
            try:
                msg = check(scn)
            except Exception as e:
                msg = "%s: %s" % (type(e).__name__, e)
            res.count(key=repr(scn), nontrivial=True, n=scn["n"], check="LFR vs specification")
            if msg:
                res.violation("LFR: " + msg, REPLAY % dict(verif=VERIF, scn=scn), known)
    # the same 0/1 labels in other encodings (booleans, numpy scalars, one-element arrays): same matrix, same decisions
    for enc in ("bool", "npbool", "boolarr", "npint"):
        scn = {"params": grids[1], "seed": seed, "n": 70 if quick else 140, "labels": enc}
        try:
            msg = check(scn)
        except Exception as e:
            msg = "%s: %s" % (type(e).__name__, e)
        res.count(key=repr(scn), nontrivial=True, n=scn["n"], check="LFR vs specification (label encodings)")
        if msg:
            res.violation("LFR (%s labels): %s" % (enc, msg), REPLAY % dict(verif=VERIF, scn=scn), known)
    prng = np.random.RandomState(seed + 606)
    for r in range(3 if quick else 30):
        tracked = [x for x in RATES if prng.rand() < 0.6] or ["tpr"]
        params = dict(time_decay_factor=float(prng.choice([0.3, 0.6, 0.9, 0.99])), warning_level=float(prng.choice([0.05, 0.2, 0.4])),
                      burn_in=int(prng.randint(0, 12)), num_mc=int(prng.randint(20, 80)), subsample=int(prng.randint(1, 5)),
                      rates_tracked=tracked, round_val=int(prng.randint(1, 5)))
        params["detect_level"] = params["warning_level"] * float(prng.choice([0.1, 0.5, 1.0]))
        scn = {"params": params, "seed": seed + r, "n": 70 if quick else 140}
        try:
            msg = check(scn)
        except Exception as e:
            msg = "%s: %s" % (type(e).__name__, e)
        res.count(key=repr(scn), nontrivial=True, n=scn["n"], check="LFR vs specification (random parameters)")
        if msg:
            res.violation("LFR: " + msg, REPLAY % dict(verif=VERIF, scn=scn), known)
    for s in range(50):
        msg = check_rates({"seed": seed + s})
        res.count(key=("rates", s), nontrivial=True, check="four rates")
        if msg:
            res.violation("LFR: " + msg, "import sys\nsys.path.insert(0, %r)\nfrom bounded import b_C06\nm = b_C06.check_rates(%r)\nassert m is None, m\n" % (VERIF, {"seed": seed + s}), known)
    res.sample({"check": "LFR vs specification", "scenario": {"params": grids[1], "n": 70}})
    return res.finish()
