"""C13 bounded stand-in: the election contracts as run-time monitors, exhaustively over small vote patterns."""
import itertools
import random
import types

from bounded.lib import Result
from bounded.common import Driver

IMP = ("from menelaus.ensemble.election import *\nclass D:\n    def __init__(self, s):\n        self.drift_state = s\n"
       "    def __repr__(self):\n        return 'D(%r)' % (self.drift_state,)")


class D:
    def __init__(self, s):
        self.drift_state = s

    def __repr__(self):
        return "D(%r)" % (self.drift_state,)


def run(tier, seed, repo, focus=None):
    from menelaus.ensemble import election as E
    nmax = 4 if tier == "quick" else 6
    res = Result("C13", "bounded/b_C13.py", "all state vectors in {None,'warning','drift'}^n for n <= %d x all "
                 "parameter values 1..n+1; ConfirmedElection: all call sequences of length <= L from the "
                 "constructor; non-trivial = at least one member not None" % nmax,
                 {"n_max": nmax, "confirmed_depth": 3 if tier == "quick" else 4})
    drv = Driver("C13", ["C13"], res)
    states = (None, "warning", "drift")
    for n in range(0, nmax + 1):
        for vec in itertools.product(states, repeat=n):
            dets = "[%s]" % ", ".join("D(%r)" % s for s in vec)
            hist = [("__call__", ([D(s) for s in vec],), {})]
            drv.run_history(E.SimpleMajorityElection, IMP, "SimpleMajorityElection()", E.SimpleMajorityElection, hist,
                            key=("maj", vec), nontrivial=any(vec))
            for a in range(1, n + 2):
                drv.run_history(E.MinimumApprovalElection, IMP, "MinimumApprovalElection(%d)" % a,
                                lambda a=a: E.MinimumApprovalElection(a), hist, key=("min", a, vec),
                                nontrivial=any(vec))
                for c in range(0, n + 2 - a):
                    drv.run_history(E.OrderedApprovalElection, IMP, "OrderedApprovalElection(%d, %d)" % (a, c),
                                    lambda a=a, c=c: E.OrderedApprovalElection(a, c), hist, key=("ord", a, c, vec),
                                    nontrivial=any(vec))
    res.sample({"election": "MinimumApprovalElection(2)", "states": ["drift", None, "drift"], "expected": "drift"})
    # ConfirmedElection: sequences of calls
    depth = 3 if tier == "quick" else 4
    nconf = 2 if tier == "quick" else 3
    rng = random.Random(seed)
    for n in range(1, nconf + 1):
        vecs = list(itertools.product(states, repeat=n))
        for sens in range(1, n + 1):
            for wait in range(0, 3):
                seqs = itertools.product(vecs, repeat=depth)
                seqs = list(seqs)
                if len(seqs) > 400:
                    seqs = rng.sample(seqs, 400)
                for seq in seqs:
                    hist = [("__call__", ([D(s) for s in vec],), {}) for vec in seq]
                    drv.run_history(E.ConfirmedElection, IMP, "ConfirmedElection(%d, %d)" % (sens, wait),
                                    lambda s=sens, w=wait: E.ConfirmedElection(s, w), hist, key=("conf", sens, wait, seq),
                                    nontrivial=any(any(v) for v in seq))
    res.sample({"election": "ConfirmedElection(1, 2)", "calls": [["drift"], [None], ["warning"], [None]]})
    return res.finish()
