"""generic history driver: real classes + contract monitors over a bounded space of call histories"""
import itertools
import random

from pyvc import concrete
from bounded.lib import Result, load_known, VERIF

SCRIPT = '''import sys
sys.path.insert(0, %(verif)r)
from pyvc import concrete
%(imp)s
reg = concrete.load_registry()
mon = concrete.Monitors(reg, tags=%(tags)r)
for c in %(classes)s:
    mon.install(c)
obj = %(ctor)s
history = %(history)r
for step in history:
    meth, args, kwargs = step
    try:
        getattr(obj, meth)(*args, **kwargs)
    except concrete.ClauseFailure as f:
        raise AssertionError(str(f))
    except (ValueError, TypeError, AttributeError, IndexError, KeyError, ZeroDivisionError, UnboundLocalError) as e:
        pass
print("history ran without a contract violation")
'''


def state_of(obj):
    return getattr(obj, "drift_state", None)


class Driver:
    def __init__(self, pid, tags, res, known=None):
        self.pid = pid
        self.tags = tags
        self.res = res
        self.reg = concrete.load_registry()
        self.known = known if known is not None else load_known()

    def run_history(self, cls, imp, ctor_src, ctor, history, classes=None, key=None, nontrivial=False):
        """history: list of (method, args, kwargs).  Returns True if the history was non-trivial."""
        mon = concrete.Monitors(self.reg, tags=self.tags)
        classes = classes or [cls]
        for c in classes:
            mon.install(c)
        fail = None
        try:
            try:
                obj = ctor()
            except concrete.ClauseFailure as f:
                fail = f
                obj = None
            if obj is not None:
                for meth, args, kwargs in history:
                    try:
                        getattr(obj, meth)(*args, **kwargs)
                    except concrete.ClauseFailure as f:
                        fail = f
                        break
                    except (ValueError, TypeError, AttributeError, IndexError, KeyError, ZeroDivisionError,
                            UnboundLocalError):
                        nontrivial = True
                    if state_of(obj) is not None:
                        nontrivial = True
        finally:
            mon.uninstall()
        self.res.count(key=key if key is not None else repr((ctor_src, history)), nontrivial=nontrivial,
                       n=max(1, mon.evaluations), check="%s monitors" % cls.__name__)
        if fail is not None:
            script = SCRIPT % dict(verif=VERIF, imp=imp, tags=list(self.tags),
                                   classes="[%s]" % ", ".join(c.__name__ for c in classes),
                                   ctor=ctor_src, history=history)
            self.res.violation("%s: %s" % (cls.__name__, fail), script, self.known)
        return nontrivial
