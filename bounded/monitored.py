"""contract monitors (the sidecar clauses, evaluated concretely) on the scalar detectors over bounded histories"""
import itertools
import random

import numpy as np

from bounded.common import Driver
from bounded import catalog as C


def monitored_histories(res, pid, tags, tier, seed, known, names=("DDM", "EDDM", "STEPD", "PageHinkley", "CUSUM"),
                        with_faults=False):
    drv = Driver(pid, tags, res, known)
    quick = tier == "quick"
    nexh = 8 if quick else 12
    rng = random.Random(seed)
    for name in names:
        d = C.DETECTORS[name]
        cls = C.get_class(name)
        for v, params in enumerate(d["variants"]):
            ctor_src = "%s(**%r)" % (name, params)
            ctor = (lambda cls=cls, params=params: cls(**params))
            hists = []
            if d["kind"] == "label":
                # exhaustive outcome sequences up to nexh (1 = correct), then long piecewise-stationary ones
                if v == 0:
                    for bits in itertools.product((0, 1), repeat=nexh):
                        hists.append([("update", (1, 1 if b else 0), {}) for b in bits])
                    if quick:
                        hists = rng.sample(hists, 96)
                for s in range(2 if quick else 6):
                    hists.append([("update", a, {}) for a in C.stream(name, seed + s, 90)])
            else:
                for s in range(3 if quick else 10):
                    hists.append([("update", (float(a[0]),), {}) for a in C.stream(name, seed + s, 90)])
            if with_faults:
                extra = []
                for h in hists[-2:]:
                    for at in (0, 1, len(h) // 2, len(h) - 2):
                        h2 = list(h)
                        bad = ("update", ([1, 1], 1), {}) if d["kind"] == "label" else ("update", ([[1.0, 2.0, 3.0]],), {})
                        h2.insert(at, bad)
                        extra.append(h2)
                        if d["kind"] != "label":
                            h3 = list(h)
                            h3.insert(at, ("update", ([[1.0], [2.0]],), {}))
                            extra.append(h3)
                hists += extra
            for h in hists:
                drv.run_history(cls, d["imp"], ctor_src, ctor, h, key=(name, v, repr(h)[:4000]))
    res.sample({"check": "contract monitors", "detector": "DDM", "history": "all 2^%d outcome sequences + long streams" % nexh})
