"""C05 bounded stand-in: contract monitors (C05 clauses) + independent executable specifications of DDM/EDDM/STEPD."""
import itertools
import math

from bounded.lib import Result, load_known, VERIF
from bounded import catalog as C, refspecs
from bounded.monitored import monitored_histories

REPLAY = '''import sys, warnings
warnings.filterwarnings("ignore")
sys.path.insert(0, %(verif)r)
from bounded import b_C05
msg = b_C05.compare(%(name)r, %(params)r, %(outcomes)r)
assert msg is None, msg
print("matches the executable specification")
'''


def compare(name, params, outcomes):
    det = C.get_class(name)(**params)
    if name == "DDM":
        ref = refspecs.ddm_reference([1 - c for c in outcomes], params["n_threshold"], params["warning_scale"], params["drift_scale"])
    elif name == "EDDM":
        ref = refspecs.eddm_reference([1 - c for c in outcomes], params["n_threshold"], params["warning_thresh"], params["drift_thresh"])
    else:
        ref = refspecs.stepd_reference(outcomes, params["window_size"], params["alpha_warning"], params["alpha_drift"])
    for i, c in enumerate(outcomes):
        det.update(1, 1 if c else 0)
        got_recs = [None if x is None else int(x) for x in list(det.retraining_recs)]
        if det.drift_state != ref[i][0]:
            return "%s%r: state %r after sample %d, specification %r (outcomes %r)" % (name, params, det.drift_state, i, ref[i][0], outcomes[:i + 1])
        if got_recs != ref[i][1]:
            return "%s%r: retraining_recs %r after sample %d, specification %r" % (name, params, got_recs, i, ref[i][1])
        if name == "STEPD":
            for f, k in (("recent_accuracy", 2), ("past_accuracy", 3), ("overall_accuracy", 4)):
                v = getattr(det, f)()
                if not math.isclose(float(v), float(ref[i][k]), rel_tol=1e-9, abs_tol=1e-12):
                    return "STEPD%r: %s() == %r after sample %d, specification %r" % (params, f, v, i, ref[i][k])
    return None


def run(tier, seed, repo, focus=None):
    quick = tier == "quick"
    nexh = 10 if quick else 14
    res = Result("C05", "bounded/b_C05.py",
                 "real DDM/EDDM/STEPD vs plain-Python executable specifications (state, retraining_recs, STEPD "
                 "accuracies) on all 2^n outcome sequences (n=%d) and long piecewise-stationary sequences, plus the "
                 "C05 contract clauses as run-time monitors; non-trivial = reaches warning or drift" % nexh,
                 {"exhaustive_n": nexh, "variants": "catalogue"})
    known = load_known()
    import numpy as np
    for name in ("DDM", "EDDM", "STEPD"):
        for v, params in enumerate(C.DETECTORS[name]["variants"]):
            if name == "DDM" and not params:
                params = dict(n_threshold=30, warning_scale=2, drift_scale=3)
            seqs = []
            if v < 2:
                seqs = list(itertools.product((0, 1), repeat=nexh))
                if quick and v == 1:
                    seqs = seqs[::4]
            for s in range(3 if quick else 12):
                seqs.append(tuple(1 if a == b else 0 for a, b in C.stream(name, seed + s, 150 if quick else 400)))
            for o in seqs:
                msg = compare(name, params, list(o))
                res.count(key=(name, v, o), nontrivial=True, n=len(o), check="%s vs executable specification" % name)
                if msg:
                    res.violation("specification mismatch: " + msg, REPLAY % dict(verif=VERIF, name=name, params=params, outcomes=list(o)), known)
                    break
    res.sample({"check": "STEPD vs executable specification", "params": C.DETECTORS["STEPD"]["variants"][0], "outcomes": "all 2^%d" % nexh})
    monitored_histories(res, "C05", ["C05"], tier, seed, known, names=("DDM", "EDDM", "STEPD"))
    return res.finish()
