"""C14 bounded stand-in: fault injection (one malformed call at every sampled position of valid histories, compared
with a twin that never saw it), container permutations, and the C14 contract clauses as monitors."""
from bounded.lib import Result, load_known
from bounded import drivers, catalog as C
from bounded.monitored import monitored_histories


def run(tier, seed, repo, focus=None):
    quick = tier == "quick"
    res = Result("C14", "bounded/b_C14.py",
                 "for every detector x variant: a malformed call (wrong row count, wrong column count, renamed "
                 "columns, multi-column data to a univariate detector, y with several observations) injected at "
                 "positions {0, 1, mid, after-a-drift, end}; must raise ValueError, not be counted, and leave all later "
                 "outputs identical to a run without it; equivalent values in 4-5 container types; "
                 "non-trivial = every scenario", {"seeds": 1 if quick else 4})
    known = load_known()
    scns = []
    for name, d in C.DETECTORS.items():
        kind = d["kind"]
        n = {"label": 60, "value": 60, "row": 60, "batch": 8}[kind]
        if d.get("slow"):
            n = 30
        if name == "PCACD":
            n = 80
        for v in range(len(d["variants"]) if not quick else min(2, len(d["variants"]))):
            for s in range(1 if quick else 4):
                pos0 = 1 if C.needs_reference(name) else 0
                ats = sorted(set([pos0, pos0 + 1, n // 2, n - 2]))
                for at in ats:
                    for which in range(len(drivers.MALFORMED[kind])):
                        if at == 0 and kind in ("row", "batch") and which >= 1:
                            continue        # nothing is established before the first accepted input
                        scns.append({"det": name, "variant": v, "seed": seed + s, "n": n, "at": at, "which": which})
    drivers.run_scenarios(res, "rejected_call", scns, known)
    scns = []
    for name, d in C.DETECTORS.items():
        kind = d["kind"]
        n = {"label": 60, "value": 60, "row": 60, "batch": 8}[kind]
        if d.get("slow"):
            n = 30
        if name == "PCACD":
            n = 80
        for which in range(1, 5 if kind != "batch" else 4):
            if name == "CDBD" and which == 3:
                continue
            scns.append({"det": name, "variant": 0, "seed": seed, "n": n, "which": which})
    drivers.run_scenarios(res, "containers", scns, known)
    scns = []
    for name in ("KdqTreeStreaming", "PCACD", "KdqTreeBatch", "HDDDM", "NNDVI"):
        for prefix in (["df"], ["arr"], ["list"], ["df", "arr"], ["arr", "df"], ["df", "df"], ["list", "arr", "df"]):
            for bad in ("df", "arr", "list"):
                scns.append({"det": name, "variant": 0, "seed": seed, "prefix": prefix, "bad": bad})
    drivers.run_scenarios(res, "mixed_width", scns, known)
    monitored_histories(res, "C14", ["C14"], tier, seed, known, with_faults=True)
    # 'the same values, whatever the container': a caller that overwrites the ndarray / frame it passed must get the outputs of
    # a caller that passed private copies (the aliasing scenarios of C15 - an array kept by reference behaves differently
    # from the same values given as a list)
    _scns = []
    for _name, _d in C.DETECTORS.items():
        if _d["kind"] == "label":
            continue
        _n = {"value": 60, "row": 60, "batch": 8}[_d["kind"]]
        if _name == "PCACD":
            _n = 90
        for _mode in ("c", "view", "df"):
            _scns.append({"det": _name, "variant": 0, "seed": seed, "n": _n, "mode": _mode})
    drivers.run_scenarios(res, "no_alias", _scns, known)
    return res.finish()
