"""bounded tier entry point: /venv/bin/python bounded/run.py <PID> --tier T --repo DIR --out FILE"""
import argparse
import importlib
import json
import os
import sys
import traceback

VERIF = os.path.dirname(os.path.dirname(os.path.abspath(__file__)))
sys.path.insert(0, VERIF)


def main():
    ap = argparse.ArgumentParser()
    ap.add_argument("pid")
    ap.add_argument("--tier", default="quick")
    ap.add_argument("--repo", default="/repo")
    ap.add_argument("--out", required=True)
    ap.add_argument("--focus")
    a = ap.parse_args()
    sys.path.insert(0, a.repo)
    os.environ["VERIF_REPO"] = a.repo
    import warnings
    warnings.filterwarnings("ignore")
    seed = int(os.environ.get("VERIF_SEED", "0") or 0)
    try:
        mod = importlib.import_module("bounded.b_" + a.pid)
    except ModuleNotFoundError:
        res = {"driver": None, "evaluations": 0, "distinct_nontrivial": 0, "rule": "no bounded driver", "samples": [],
               "violations": [], "known": []}
    else:
        try:
            res = mod.run(a.tier, seed, a.repo, a.focus)
        except Exception:
            res = {"error": traceback.format_exc(), "evaluations": 0}
    with open(a.out, "w") as fh:
        json.dump(res, fh, default=str)


if __name__ == "__main__":
    main()
