"""C07 bounded stand-in: HDDDM / CDBD distances, epsilons, thresholds and decisions recomputed independently."""
import math

import numpy as np
import pandas as pd
import scipy.stats
from scipy.spatial.distance import jensenshannon

from bounded.lib import Result, load_known, VERIF
from bounded import catalog as C

REPLAY = '''import sys, warnings
warnings.filterwarnings("ignore")
sys.path.insert(0, %(verif)r)
from bounded import b_C07
msg = b_C07.check(%(scn)r)
assert msg is None, msg
print("HDDDM/CDBD follow the adaptive-threshold rule")
'''


def hellinger(r, t):
    r, t = np.asarray(r, float), np.asarray(t, float)
    return float(np.sqrt(np.sum((np.sqrt(t / t.sum()) - np.sqrt(r / r.sum())) ** 2)))


def hists(ref, test, bins):
    out = []
    for f in range(ref.shape[1]):
        lo = min(ref[:, f].min(), test[:, f].min())
        hi = max(ref[:, f].max(), test[:, f].max())
        out.append((np.histogram(ref[:, f], bins=bins, range=(lo, hi))[0], np.histogram(test[:, f], bins=bins, range=(lo, hi))[0]))
    return out


def check(scn):
    from menelaus.data_drift import HDDDM, CDBD
    name, db, stat, sig, div, d, seed, nb = scn["det"], scn["detect_batch"], scn["statistic"], scn["significance"], \
        scn["divergence"], scn["d"], scn["seed"], scn["batches"]
    rng = np.random.RandomState(seed)
    levels = scn.get("levels", [0, 0, 0, 4, 4, 4, 4, -3, -3, -3, 0, 0])
    sizes = [40 + int(rng.randint(0, 15)) for _ in range(nb + 1)]
    if scn.get("equal_sizes"):
        sizes = [48] * (nb + 1)
    batches = [levels[i % len(levels)] * (np.arange(d) == 0) + rng.randn(sizes[i], d) for i in range(nb + 1)]
    if scn.get("repeat_ref"):
        batches[1] = batches[0].copy()
    cls = HDDDM if name == "HDDDM" else CDBD
    det = cls(detect_batch=db, statistic=stat, significance=sig, divergence=div, subsets=scn.get("subsets", 3))
    cols = ["f%d" % j for j in range(d)]
    np.random.seed(seed)
    det.set_reference(pd.DataFrame(batches[0], columns=cols))
    dist_fn = hellinger if div == "H" else (lambda r, t: float(jensenshannon(r, t)))
    # ---- specification state
    ref = batches[0]
    epoch = []           # epsilons of the current epoch (incl. the bootstrap estimate where used)
    since = 0
    prev = None
    prev_feat = None
    state = None

    def start_epoch():
        nonlocal ref, since, epoch, prev, prev_feat
        since, epoch, prev = 0, [], None

    pending_proxy = db == 1
    i = 1
    total = 0
    queue = []
    first = True
    while i <= nb:
        X = batches[i]
        # --- the detector
        np.random.seed(seed * 1000 + i)
        det.update(pd.DataFrame(X, columns=cols))
        # --- the specification
        if state == "drift" or first:
            if not first:
                start_epoch()
            first = False
            if db == 1:
                half = int(len(ref) / 2)
                proxy, ref = ref[half:], ref[:half]
                queue = [proxy]
            else:
                queue = []
        else:
            queue = []
        state = None
        for Y in queue + [X]:
            total += 1
            since += 1
            bins = int(np.floor(np.sqrt(len(ref))))
            hs = hists(ref, Y, bins)
            feat = [dist_fn(r, t) for r, t in hs]
            cur = sum(feat) / d
            is_real = Y is X
            eps = None
            beta = None
            if since >= 2:
                boot = None
                if since == 2 and db != 3:
                    boot = float(det.epsilon[0]) if len(det.epsilon) else None     # the bootstrap estimate is an input of the specification
                    if is_real:
                        epoch.append(boot)
                eps = abs(cur - prev)
                epoch.append(eps)
                if (since >= 2 and db != 3) or (since >= 3 and db == 3):
                    past = list(epoch[:-1])
                    if since >= 3 and db != 3:
                        past = past[1:]             # the bootstrap estimate is dropped from the third batch on
                        scale = since - 1
                    elif since == 2:
                        scale = 1
                    else:
                        scale = since - 1
                    ehat = sum(past) / scale
                    sd = math.sqrt(sum((e - ehat) ** 2 for e in past) / scale)
                    if stat == "tstat":
                        beta = ehat + scipy.stats.t.ppf(1 - sig / 2, len(ref) + len(Y) - 2) * sd / math.sqrt(scale)
                    else:
                        beta = ehat + sig * sd
                    if eps > beta:
                        state = "drift"
            if is_real:
                if not math.isclose(float(det.current_distance), cur, rel_tol=1e-9, abs_tol=1e-12):
                    return "batch %d: recorded distance %r, feature-averaged %s distance on common bin edges with floor(sqrt(%d)) bins is %r" % (
                        i, det.current_distance, "Hellinger" if div == "H" else "Jensen-Shannon", len(ref), cur)
                if eps is not None:
                    got = det.epsilon_values.get(det.total_batches)
                    if got is None or not math.isclose(float(got), eps, rel_tol=1e-9, abs_tol=1e-12):
                        return "batch %d: epsilon %r, |change of distance| is %r" % (i, got, eps)
                if beta is not None:
                    got = det.thresholds.get(det.total_batches)
                    if got is None or not math.isclose(float(got), beta, rel_tol=1e-7, abs_tol=1e-10):
                        return "batch %d (batch %d of its epoch): threshold %r, documented mean-plus-scaled-deviation of the epoch's epsilons is %r" % (
                            i, since, got, beta)
                if det.drift_state != state:
                    return "batch %d (batch %d of its epoch): state %r, rule epsilon > threshold gives %r" % (i, since, det.drift_state, state)
                if state == "drift" and d > 1:
                    fi = det.feature_info
                    fe = [a - b for a, b in zip(feat, prev_feat)] if prev_feat is not None else None
                    if not np.allclose(fi["Feature_Distances"], feat, rtol=1e-9, atol=1e-12):
                        return "batch %d: feature_info distances %r, per-feature distances are %r" % (i, fi["Feature_Distances"], feat)
                    if fe is not None and fi["Significant_drift_in_variable "] != int(np.argmax(fe)):
                        return "batch %d: feature_info names feature %r, the feature whose distance grew most is %d (%r)" % (
                            i, fi["Significant_drift_in_variable "], int(np.argmax(fe)), fe)
                if det.batches_since_reset != since or det.total_batches != total:
                    return "batch %d: counters (%r, %r), expected (%r, %r)" % (i, det.total_batches, det.batches_since_reset, total, since)
            if state == "drift":
                ref = Y
            else:
                prev, prev_feat = cur, feat
                ref = np.vstack([ref, Y])
            if int(det.reference_n) != len(ref) and is_real and state != "drift":
                return "batch %d: reference size %r, expected %d" % (i, det.reference_n, len(ref))
        if scn.get("repeat_ref") and i == 1 and db != 1 and abs(float(det.current_distance)) > 1e-12:
            return "distance of a batch identical to the reference is %r, not 0" % det.current_distance
        i += 1
    return None


def check_metric(scn):
    """0 for identical histograms, symmetric for equal sizes, bounded"""
    from menelaus.data_drift import HDDDM
    rng = np.random.RandomState(scn["seed"])
    h = HDDDM()
    h._bins = scn["bins"]
    a = rng.randint(0, 20, scn["bins"]) + 1
    b = rng.permutation(a)
    d1, d2 = h._hellinger_distance(a, b), h._hellinger_distance(b, a)
    if not math.isclose(d1, d2, rel_tol=1e-12, abs_tol=1e-12):
        return "Hellinger distance not symmetric for equal sizes: %r vs %r" % (d1, d2)
    if abs(h._hellinger_distance(a, a)) > 1e-12:
        return "Hellinger distance of identical histograms is not 0"
    if d1 > math.sqrt(2) + 1e-12:
        return "Hellinger distance %r above sqrt(2)" % d1
    j = h._KL_divergence(a, b)
    if j > math.sqrt(math.log(2)) + 1e-12 or abs(h._KL_divergence(a, a)) > 1e-9:
        return "Jensen-Shannon distance out of bounds / not 0 on identical histograms"
    return None


def run(tier, seed, repo, focus=None):
    quick = tier == "quick"
    res = Result("C07", "bounded/b_C07.py",
                 "real HDDDM / CDBD vs an independent recomputation (aligned histograms with floor(sqrt(reference size)) bins, "
                 "feature-averaged Hellinger / JS distance, epsilon, adaptive threshold with t-statistic or number of "
                 "standard deviations, decision from the detect_batch-th batch, reference append / replace, feature_info, "
                 "counters) over batch sequences with several drifts x detect_batch in {1,2,3} x 1-3 features; the "
                 "bootstrap estimate is taken from the detector as an input; non-trivial = at least one drift",
                 {"seeds": 3 if quick else 12})
    known = load_known()
    for name, divs, ds in (("HDDDM", ("H", "KL"), (1, 2, 3)), ("CDBD", ("KL", "H"), (1,))):
        for db in (1, 2, 3):
            for stat, sig in (("tstat", 0.05), ("stdev", 1.0), ("tstat", 0.3)):
                for div in divs:
                    for d in ds:
                        for s in range(3 if quick else 12):
                            if quick and (stat, sig) == ("tstat", 0.3) and s > 0:
                                continue
                            scn = {"det": name, "detect_batch": db, "statistic": stat, "significance": sig, "divergence": div,
                                   "d": d, "seed": seed + s, "batches": 12, "repeat_ref": s == 1, "equal_sizes": s == 2}
                            try:
                                msg = check(scn)
                            except Exception as e:
                                import traceback
                                msg = "%s: %s" % (type(e).__name__, e)
                            res.count(key=repr(scn), nontrivial=True, n=12, check="%s recomputation" % name)
                            if msg:
                                res.violation("%s: %s" % (name, msg), REPLAY % dict(verif=VERIF, scn=scn), known)
    # randomly drawn parameters and longer histories (more batches per epoch, more epochs)
    prng = np.random.RandomState(seed + 707)
    for r in range(6 if quick else 60):
        name = "HDDDM" if prng.rand() < 0.6 else "CDBD"
        stat = "tstat" if prng.rand() < 0.5 else "stdev"
        scn = {"det": name, "detect_batch": int(prng.randint(1, 4)), "statistic": stat,
               "significance": float(prng.choice([0.01, 0.05, 0.2, 0.4]) if stat == "tstat" else prng.choice([0.5, 1.0, 2.0, 3.0])),
               "divergence": str(prng.choice(["H", "KL"])), "d": 1 if name == "CDBD" else int(prng.randint(1, 4)),
               "seed": seed + r, "batches": 20, "subsets": int(prng.randint(2, 6)),
               "levels": [0, 0, 0, 0, 0, 4, 4, 4, 4, 4, 4, -3, -3, -3, -3, -3, 0, 0, 0, 0, 0]}
        try:
            msg = check(scn)
        except Exception as e:
            msg = "%s: %s" % (type(e).__name__, e)
        res.count(key=repr(scn), nontrivial=True, n=20, check="%s recomputation (random parameters)" % name)
        if msg:
            res.violation("%s: %s" % (name, msg), REPLAY % dict(verif=VERIF, scn=scn), known)
    for s in range(20 if quick else 200):
        scn = {"seed": seed + s, "bins": 3 + s % 7}
        msg = check_metric(scn)
        res.count(key=repr(scn), nontrivial=True, check="distance properties")
        if msg:
            res.violation("HDM distance: " + msg, "import sys\nsys.path.insert(0, %r)\nfrom bounded import b_C07\nm = b_C07.check_metric(%r)\nassert m is None, m\n" % (VERIF, scn), known)
    res.sample({"check": "HDDDM recomputation", "scenario": {"detect_batch": 2, "statistic": "tstat", "d": 2, "batches": 12}})
    # the decisions are about the observations that were SUPPLIED: a caller that re-uses / overwrites its buffers after each
    # call must get the same outputs as one that passes private copies (the aliasing scenarios of C15, run here for HDDDM / CDBD)
    from bounded import drivers as _drv
    _scns = []
    for _name in ['HDDDM', 'CDBD']:
        _d = C.DETECTORS[_name]
        for _v in range(len(_d["variants"]) if not quick else 1):
            for _mode in ("c", "view", "df"):
                _scns.append({"det": _name, "variant": _v, "seed": seed, "n": 8, "mode": _mode})
    _drv.run_scenarios(res, "no_alias", _scns, known)
    _drv.run_scenarios(res, "no_alias_reref", [dict(x, n=9, reref=[3, 6]) for x in _scns], known)
    return res.finish()
