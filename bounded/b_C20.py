"""C20 bounded stand-in: every injector on ndarray / DataFrame data sets over all windows 0 <= from <= to <= n."""
import itertools
import math

import numpy as np
import pandas as pd

from bounded.lib import Result, load_known, VERIF

REPLAY = '''import sys, warnings
warnings.filterwarnings("ignore")
sys.path.insert(0, %(verif)r)
from bounded import b_C20
msg = b_C20.check(%(scn)r)
assert msg is None, msg
print("injector effect is exactly the documented one")
'''


def data(seed, n, as_df):
    rng = np.random.RandomState(seed)
    a = np.column_stack([rng.randn(n) * 3 + 1, rng.randn(n) - 2, rng.randint(0, 3, n).astype(float), rng.randint(0, 2, n).astype(float)])
    if as_df == "int":
        return pd.DataFrame(a, columns=INT_LABELS)        # integer labels that are NOT the positions
    if as_df == "mixed":
        # columns of different dtypes: the targeted feature column is integer-typed, its neighbours are floats
        df = pd.DataFrame(a, columns=["a", "b", "cls", "grp"])
        df["a"] = np.round(df["a"]).astype("int64")
        df["cls"] = df["cls"].astype("int64")
        return df
    return pd.DataFrame(a, columns=["a", "b", "cls", "grp"]) if as_df else a


INT_LABELS = [3, 0, 7, 1]


def arr(x):
    return x.values if isinstance(x, pd.DataFrame) else x


def check(scn):
    import menelaus.injection as I
    name, as_df, lo, hi, seed, n, reuse = scn["inj"], scn["df"], scn["lo"], scn["hi"], scn["seed"], scn["n"], scn.get("reuse")
    col = (lambda s, i: INT_LABELS[i] if as_df == "int" else (s if as_df else i))
    inj = getattr(I, name)()
    if reuse:
        try:
            other = data(seed + 3, n, not as_df)
            c2 = (lambda s, i: s if not as_df else i)
            if as_df == "int":
                other = data(seed + 3, n, False)
                c2 = (lambda s, i: i)
            if name == "FeatureSwapInjector":
                inj(other, 0, 2, c2("a", 0), c2("b", 1))
            elif name == "FeatureShiftInjector":
                inj(other, 0, 2, c2("a", 0), 0.5)
            elif name == "LabelSwapInjector":
                inj(other, 0, 2, c2("cls", 2), 0, 1)
            elif name == "LabelJoinInjector":
                inj(other, 0, 2, c2("cls", 2), 0, 1, 7)
            elif name == "BrownianNoiseInjector":
                inj(other, 0, 2, c2("a", 0), 1.0, random_state=1)
        except Exception:
            pass
    d = data(seed, n, as_df)
    A = arr(d).astype(float).copy()
    np.random.seed(seed)
    x0 = scn.get("x0", 2.0)
    if name == "FeatureSwapInjector":
        out = inj(d, lo, hi, col("a", 0), col("b", 1))
        exp = A.copy()
        exp[lo:hi, 0], exp[lo:hi, 1] = A[lo:hi, 1], A[lo:hi, 0]
        twice = inj(out, lo, hi, col("a", 0), col("b", 1))
        if not np.array_equal(arr(twice), A):
            return "FeatureSwapInjector applied twice does not restore the input (window %d:%d)" % (lo, hi)
    elif name == "FeatureShiftInjector":
        sf, alpha = scn.get("shift", 0.5), 0.001
        out = inj(d, lo, hi, col("a", 0), sf, alpha)
        exp = A.copy()
        if hi > lo:
            exp[lo:hi, 0] = A[lo:hi, 0] + sf * (alpha + A[lo:hi, 0].mean())
    elif name == "LabelSwapInjector":
        out = inj(d, lo, hi, col("cls", 2), 0, 1)
        exp = A.copy()
        w = A[lo:hi, 2]
        exp[lo:hi, 2] = np.where(w == 0, 1, np.where(w == 1, 0, w))
        twice = inj(out, lo, hi, col("cls", 2), 0, 1)
        if not np.array_equal(arr(twice), A):
            return "LabelSwapInjector is not an involution on window %d:%d" % (lo, hi)
    elif name == "LabelJoinInjector":
        out = inj(d, lo, hi, col("cls", 2), 0, 1, 7)
        exp = A.copy()
        w = A[lo:hi, 2]
        exp[lo:hi, 2] = np.where((w == 0) | (w == 1), 7, w)
    elif name == "BrownianNoiseInjector":
        out = inj(d, lo, hi, col("a", 0), x0, random_state=11)
        O = arr(out)
        exp = None
        noise = O[lo:hi, 0] - A[lo:hi, 0]
        steps = hi - lo
        mask = np.ones_like(A, dtype=bool)
        mask[lo:hi, 0] = False
        if not np.array_equal(O[mask], A[mask]):
            return "BrownianNoiseInjector changed cells outside the window / column"
        if steps >= 1 and not math.isclose(noise[0], x0, rel_tol=1e-9, abs_tol=1e-9):
            return "BrownianNoiseInjector: noise starts at %r, not at x0=%r" % (noise[0], x0)
        for i in range(1, steps):
            if not math.isclose(abs(noise[i] - noise[i - 1]), 1 / math.sqrt(steps), rel_tol=1e-6, abs_tol=1e-9):
                return "BrownianNoiseInjector: step %d of the walk is %r, expected +-%r (x0=%r, window %d:%d)" % (
                    i, noise[i] - noise[i - 1], 1 / math.sqrt(steps), x0, lo, hi)
    elif name == "LabelProbabilityInjector":
        probs = {0.0: 0.6}
        out = inj(d, lo, hi, col("cls", 2), probs)
        O = arr(out)
        exp = None
        if not (np.array_equal(O[:lo], A[:lo]) and np.array_equal(O[hi:], A[hi:])):
            return "LabelProbabilityInjector changed rows outside the window %d:%d" % (lo, hi)
        win = {tuple(r) for r in A[lo:hi]}
        for r in O[lo:hi]:
            if tuple(r) not in win:
                return "LabelProbabilityInjector: row %r in the result window is not a row of the input window" % (r,)
    elif name == "LabelDirichletInjector":
        out = inj(d, lo, hi, col("cls", 2), {0.0: 4, 1.0: 1, 2.0: 1})
        O = arr(out)
        exp = None
        if not (np.array_equal(O[:lo], A[:lo]) and np.array_equal(O[hi:], A[hi:])):
            return "LabelDirichletInjector changed rows outside the window"
        win = {tuple(r) for r in A[lo:hi]}
        if any(tuple(r) not in win for r in O[lo:hi]):
            return "LabelDirichletInjector: resampled rows do not come from the window"
    elif name == "FeatureCoverInjector":
        ss = scn.get("sample_size", 10)
        vals, cnts = np.unique(A[:, 3], return_counts=True)
        if ss // len(vals) > cnts.min():
            return None     # outside the injector's domain: a group is smaller than the requested sample per group
        out = inj(d, col("grp", 3), ss, random_state=3)
        O = arr(out)
        exp = None
        groups = len(np.unique(A[:, 3]))
        if O.shape != ((ss // groups) * groups, 3):
            return "FeatureCoverInjector: result shape %r, expected %r" % (O.shape, ((ss // groups) * groups, 3))
        if as_df and list(out.columns) != (INT_LABELS[:3] if as_df == "int" else ["a", "b", "cls"]):
            return "FeatureCoverInjector: columns %r" % (list(out.columns),)
        rows = {tuple(r[:3]) for r in A}
        if any(tuple(r) not in rows for r in O):
            return "FeatureCoverInjector: a result row is not an input row with the column hidden"
    if type(out) is not type(d):
        return "%s returned %s for %s input" % (name, type(out).__name__, type(d).__name__)
    if name != "FeatureCoverInjector":
        if arr(out).shape != A.shape:
            return "%s changed the shape: %r -> %r" % (name, A.shape, arr(out).shape)
        if as_df and list(out.columns) != list(d.columns):
            return "%s changed the column labels" % name
    if not np.array_equal(arr(d), A):
        return "%s modified its input" % name
    if exp is not None and not np.allclose(arr(out), exp, rtol=1e-12, atol=1e-12):
        bad = np.argwhere(~np.isclose(arr(out), exp, rtol=1e-12, atol=1e-12))[0]
        return "%s: cell %r is %r, documented effect gives %r (window %d:%d)" % (name, tuple(bad), arr(out)[tuple(bad)], exp[tuple(bad)], lo, hi)
    return None


def expected_class_probs(labels_window, all_classes, probs):
    """documented resampling law of LabelProbabilityInjector as class probabilities inside the window: a specified class
    gets its probability, the unspecified classes share the rest equally; the mass of classes that do not occur in the
    window is spread uniformly over the rows of the window (so over classes in proportion to their row counts)"""
    unspecified = [c for c in all_classes if c not in probs]
    rest = 1.0 - sum(probs.values())
    p = {c: probs[c] for c in all_classes if c in probs}
    for c in unspecified:
        p[c] = rest / len(unspecified)
    counts = {c: int(np.sum(labels_window == c)) for c in all_classes}
    present = {c: p[c] for c in all_classes if counts[c] > 0}
    lost = 1.0 - sum(present.values())
    total = sum(counts.values())
    return {c: (present.get(c, 0.0) + lost * counts[c] / total) if total else 0.0 for c in all_classes}


def check_frequencies(scn):
    """class frequencies of the resampled window against the documented law; a class whose probability is exactly 0
    must never appear (exact), the others within 6 standard deviations over all repetitions"""
    import menelaus.injection as I
    seed, reps, probs, as_df, name = scn["seed"], scn["reps"], {float(k): v for k, v in scn["probs"]}, scn["df"], scn["inj"]
    rng = np.random.RandomState(seed)
    n, lo, hi = 30, 5, 25
    cls = np.array([0.0, 1.0, 2.0] * 10)
    rng.shuffle(cls)
    a = np.column_stack([rng.randn(n), cls])
    d = pd.DataFrame(a, columns=["a", "cls"]) if as_df else a
    all_classes = [0.0, 1.0, 2.0]
    exp = expected_class_probs(a[lo:hi, 1], all_classes, probs)
    got = {c: 0 for c in all_classes}
    for r in range(reps):
        np.random.seed(seed * 1000 + r)
        out = getattr(I, name)()(d, lo, hi, "cls" if as_df else 1, dict(probs))
        w = arr(out)[lo:hi, 1]
        for c in all_classes:
            got[c] += int(np.sum(w == c))
    N = reps * (hi - lo)
    for c in all_classes:
        f = got[c] / N
        if exp[c] == 0.0 and got[c] > 0:
            return "%s: class %r has requested probability 0 but makes up %.3f of the resampled window (probabilities %r)" % (
                name, c, f, probs)
        tol = 6 * math.sqrt(max(exp[c] * (1 - exp[c]), 1e-12) / N) + 1e-9
        if abs(f - exp[c]) > tol:
            return "%s: class %r frequency %.4f over %d draws, documented law gives %.4f (+-%.4f) for probabilities %r" % (
                name, c, f, N, exp[c], tol, probs)
    return None


def check_dirichlet(scn):
    """LabelDirichletInjector: alpha maps every class to its concentration; over many draws the class frequencies of the
    resampled window follow the Dirichlet mean alpha_c / sum(alpha) (6 sigma: Dirichlet variance over the repetitions plus
    multinomial variance of the draws), whatever order the dictionary lists the classes in; never raises on valid input"""
    import menelaus.injection as I
    seed, reps, alpha, as_df = scn["seed"], scn["reps"], [(float(k), v) for k, v in scn["alpha"]], scn["df"]
    rng = np.random.RandomState(seed)
    n, lo, hi = 40, 4, 37
    cls = np.array([0.0, 1.0, 2.0] * 14)[:n]
    rng.shuffle(cls)
    a = np.column_stack([rng.randn(n), cls])
    d = pd.DataFrame(a, columns=["a", "cls"]) if as_df else a
    a0 = float(sum(v for _, v in alpha))
    got = {c: 0 for c, _ in alpha}
    for r in range(reps):
        np.random.seed(seed * 1000 + r)
        try:
            out = I.LabelDirichletInjector()(d, lo, hi, "cls" if as_df else 1, dict(alpha))
        except Exception as e:
            return "LabelDirichletInjector raised %s: %s (alpha %r, numpy seed %d)" % (type(e).__name__, e, dict(alpha), seed * 1000 + r)
        w = arr(out)[lo:hi, 1]
        for c in got:
            got[c] += int(np.sum(w == c))
    N = reps * (hi - lo)
    for c, v in alpha:
        m = v / a0
        var_dir = v * (a0 - v) / (a0 * a0 * (a0 + 1))
        tol = 6 * math.sqrt(var_dir / reps + m * (1 - m) / N) + 1e-9
        f = got[c] / N
        if abs(f - m) > tol:
            return "LabelDirichletInjector: class %r makes up %.4f of %d resampled rows, alpha %r asks for %.4f on average (+-%.4f)" % (
                c, f, N, dict(alpha), m, tol)
    return None


REPLAY_F = REPLAY.replace("b_C20.check(", "b_C20.check_frequencies(").replace(
    "injector effect is exactly the documented one", "class frequencies follow the requested probabilities")


def run(tier, seed, repo, focus=None):
    quick = tier == "quick"
    n = 8 if quick else 12
    res = Result("C20", "bounded/b_C20.py",
                 "every injector x {ndarray, DataFrame} x all windows 0 <= from <= to <= n (n=%d, exhaustive) x fresh / "
                 "re-used injector instance x several x0 / shift values: type, shape, column labels, cells outside the "
                 "window and other columns unchanged, documented effect inside (swap twice = identity, label swap "
                 "involution, join, shift by factor*(alpha+window mean), random walk from x0 with steps 1/sqrt(steps), "
                 "resampled rows come from the window); LabelProbabilityInjector class frequencies over %d repetitions of a 20-row "
                 "window against the documented law (zero-probability classes never appear; others within 6 sigma); LabelDirichletInjector "
                 "class frequencies against the Dirichlet mean for dictionaries listing the classes in any order (6 sigma), never raising; "
                 "non-trivial = non-empty window" % (n, 60 if quick else 300), {"n": n})
    known = load_known()
    names = ["FeatureSwapInjector", "FeatureShiftInjector", "LabelSwapInjector", "LabelJoinInjector", "BrownianNoiseInjector",
             "LabelProbabilityInjector", "LabelDirichletInjector", "FeatureCoverInjector"]
    for name in names:
        for as_df in (False, True, "int", "mixed"):
            windows = [(a, b) for a in range(n + 1) for b in range(a, n + 1)]
            if as_df in ("int", "mixed"):
                windows = [(0, n), (2, 5), (3, 3)]
            if name == "FeatureCoverInjector":
                windows = [(0, n)]
            for lo, hi in windows:
                for reuse in (False, True):
                    variants = [{}]
                    if name == "BrownianNoiseInjector":
                        variants = [{"x0": 0.0}, {"x0": 5.0}, {"x0": -1.5}]
                    if name == "FeatureShiftInjector":
                        variants = [{"shift": 0.5}, {"shift": -2.0}]
                    if name == "FeatureCoverInjector":
                        variants = [{"sample_size": 4}, {"sample_size": 7}]
                    for v in variants:
                        scn = {"inj": name, "df": as_df, "lo": lo, "hi": hi, "seed": seed, "n": n, "reuse": reuse}
                        scn.update(v)
                        try:
                            msg = check(scn)
                        except Exception as e:
                            msg = "%s raised %s: %s" % (name, type(e).__name__, e)
                        res.count(key=repr(scn), nontrivial=hi > lo, check=name)
                        if msg:
                            res.violation("injector: " + msg, REPLAY % dict(verif=VERIF, scn=scn), known)
    # resampling law of LabelProbabilityInjector (statistical, with an exact part for zero probabilities)
    reps = 60 if quick else 300
    for as_df in (False, True):
        for probs in ([(0, 0.0), (1, 0.5)], [(0, 0.7)], [(0, 0.2), (1, 0.3), (2, 0.5)], [(1, 1.0)], [(2, 0.0)], []):
            scn = {"inj": "LabelProbabilityInjector", "df": as_df, "seed": seed, "reps": reps, "probs": probs}
            try:
                msg = check_frequencies(scn)
            except Exception as e:
                msg = "LabelProbabilityInjector raised %s: %s" % (type(e).__name__, e)
            res.count(key=repr(scn), nontrivial=True, check="LabelProbabilityInjector frequencies")
            if msg:
                res.violation("injector: " + msg, REPLAY_F % dict(verif=VERIF, scn=scn), known)
    # LabelDirichletInjector: class frequencies follow alpha, whatever the order of the dictionary's keys
    REPLAY_D = REPLAY_F.replace("b_C20.check_frequencies(", "b_C20.check_dirichlet(")
    for as_df in (False, True):
        for alpha in ([(0, 4), (1, 1), (2, 1)], [(2, 30), (0, 1), (1, 3)], [(1, 2), (2, 9), (0, 2)], [(2, 1), (1, 1), (0, 6)],
                      [(0, 3), (1, 2), (2, 4)]):
            scn = {"df": as_df, "seed": seed, "reps": reps, "alpha": alpha}
            msg = check_dirichlet(scn)
            res.count(key=repr(scn), nontrivial=True, check="LabelDirichletInjector frequencies")
            if msg:
                res.violation("injector: " + msg, REPLAY_D % dict(verif=VERIF, scn=scn), known)
    res.sample({"check": "FeatureSwapInjector", "scenario": {"df": True, "lo": 2, "hi": 5, "n": n}})
    return res.finish()
