"""C16 bounded stand-in: label re-encodings / same-agreement replacements, and junk in the unused arguments."""
from bounded.lib import Result, load_known
from bounded import drivers, catalog as C


def run(tier, seed, repo, focus=None):
    quick = tier == "quick"
    res = Result("C16", "bounded/b_C16.py",
                 "DDM/EDDM/STEPD/ADWINAccuracy under 11 label encodings (ints, strings, bools, floats, -1/+1, three "
                 "classes with same agreement, class names that are prefixes of one another, int label vs float prediction, floats 1e-9 apart), LinearFourRates under 0/1 container variants, and every detector with "
                 "arbitrary values in its documented-unused arguments; full output traces must coincide; "
                 "non-trivial = trace reaches warning or drift", {"seeds": 2 if quick else 6})
    known = load_known()
    scns = []
    for name in ("DDM", "EDDM", "STEPD", "ADWINAccuracy", "LinearFourRates"):
        d = C.DETECTORS[name]
        for v in range(len(d["variants"])):
            for s in range(2 if quick else 6):
                for enc in range(1, len(drivers.ENCODINGS)):
                    if name == "LinearFourRates" and enc > 3:
                        continue
                    scns.append({"det": name, "variant": v, "seed": seed + s, "n": 50 if d.get("slow") else 120, "enc": enc})
    # the same encodings with the two labels of a pair in different one-element containers (scalar / list / tuple / arrays)
    for name in ("DDM", "EDDM", "STEPD", "ADWINAccuracy"):
        d = C.DETECTORS[name]
        for wrap in (1, 2, 3):
            for enc in (0, 2, 4):
                scns.append({"det": name, "variant": 0, "seed": seed, "n": 120, "enc": enc, "wrap": wrap})
    drivers.run_scenarios(res, "agreement_only", scns, known)
    scns = []
    for name, d in C.DETECTORS.items():
        n = {"label": 60, "value": 60, "row": 60, "batch": 8}[d["kind"]]
        if d.get("slow"):
            n = 30
        if name == "PCACD":
            n = 80
        scns.append({"det": name, "variant": 0, "seed": seed, "n": n})
    drivers.run_scenarios(res, "unused_args", scns, known)
    return res.finish()
