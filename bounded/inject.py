"""Replay of a refuted obligation's counter-model on the real code by state injection.

The model (pre-state fields incl. ghost, arguments) is written into a real object created with ``cls.__new__``;
the real method is called under the concrete contract monitor; the replay is *confirmed* when the same clause
(or, for loop-invariant / callee obligations, any clause of the same function) fails concretely.
"""
import importlib
import math
import re
import types

import numpy as np

from pyvc import concrete


def conv(v):
    if isinstance(v, dict):
        if "float" in v and ("frac" in v or "algebraic" in v or len(v) == 1):
            f = v["float"]
            return float("inf") if f == "inf" else float(f)
        if "array1" in v:
            x = conv(v["array1"])
            return np.array(x).reshape([1] * int(v.get("ndim", 1)))
        if "opaque" in v:
            return Opaque(v)
        if "matrix" in v:
            a = np.array(v["matrix"], dtype=float).reshape(int(v["rows"]), int(v["width"]))
            if "labels" in v:
                import pandas as pd
                return pd.DataFrame(a, columns=list(v["labels"]))
            return a
        if "matrix_shape" in v:
            raise CannotRealise("matrix of shape %s" % (v["matrix_shape"],))
        if "seq_len" in v:
            raise CannotRealise("sequence of symbolic length %s" % v["seq_len"])
        return {k: conv(x) for k, x in v.items()}
    if isinstance(v, list):
        return [conv(x) for x in v]
    return v


class CannotRealise(Exception):
    pass


class Opaque:
    def __init__(self, d):
        self.d = d


def label_of(s):
    m = re.search(r"(\d+)$", str(s))
    return int(m.group(1)) if m else 0


def realise_arg(v):
    """RawY / RawX abstract inputs -> concrete python values"""
    if isinstance(v, list):
        return [realise_arg(x) for x in v]
    if isinstance(v, Opaque):
        d = v.d
        meta = d.get("meta", {})
        if d["opaque"] == "RawY":
            size = meta.get("size", 1)
            first = meta.get("first")
            lab = first if isinstance(first, int) else label_of(first)
            if size == 1:
                return lab
            return [lab] * int(size)
        if d["opaque"] == "RawX":
            vals = str(meta.get("vals", ""))
            nd, d0, d1 = meta.get("ndim", 0), meta.get("d0", 1), meta.get("d1", 1)

            def val(i, j):
                m = re.search(r"Store\([^()]*?,\s*%d,\s*%d,\s*(-?[\d./]+)\)" % (i, j), vals)
                if m is None:
                    m2 = re.search(r"K\(Int,\s*(-?[\d./]+)\)", vals)
                    s = m2.group(1) if m2 else "0"
                else:
                    s = m.group(1)
                if "/" in s:
                    a, b = s.split("/")
                    return float(a) / float(b)
                return float(s)
            if meta.get("is_df") is True and d1 == 0:
                d1 = 1      # a frame has at least one column in practice; keep the row count of the model
            if d0 > 50 or d1 > 50:
                raise CannotRealise("input of shape (%s,%s)" % (d0, d1))
            if meta.get("is_df") is True:
                import pandas as pd
                return pd.DataFrame([[val(i, j) for j in range(d1)] for i in range(d0)],
                                    columns=["c%d" % j for j in range(d1)])
            if nd == 0:
                return val(0, 0)
            if nd == 1:
                return np.array([val(0, j) for j in range(d0)])
            return np.array([[val(i, j) for j in range(d1)] for i in range(d0)]).reshape(d0, d1)
        if d["opaque"] == "Cols2":
            import pandas as pd
            return pd.Index(list(meta.get("labels", [0])))
        if d["opaque"] == "Det":
            return types.SimpleNamespace(drift_state=meta.get("drift_state"))
        raise CannotRealise("opaque %s" % d["opaque"])
    return v


def find_class(name):
    import menelaus  # noqa: F401
    for modname in ("menelaus.change_detection", "menelaus.concept_drift", "menelaus.data_drift", "menelaus.ensemble",
                    "menelaus.injection", "menelaus.partitioners", "menelaus.detector",
                    "menelaus.ensemble.election", "menelaus.change_detection.adwin",
                    "menelaus.partitioners.KDQTreePartitioner"):
        try:
            m = importlib.import_module(modname)
        except Exception:
            continue
        if hasattr(m, name):
            return getattr(m, name)
    raise CannotRealise("class %s" % name)


def replay_obligation(doc):
    cex = doc.get("counterexample")
    if not cex:
        return {"confirmed": False, "reason": "the solver gave no model"}
    qual = doc["function"]
    rest = qual.split(":")[1]
    if "." not in rest:
        return {"confirmed": False, "reason": "free function"}
    cname, fname = rest.split(".")
    try:
        cls = find_class(cname)
        selfd = cex.get("self")
        args = {}
        for k, v in cex.items():
            if k == "self":
                continue
            args[k] = realise_arg(conv(v))
        reg = concrete.load_registry()
        mon = concrete.Monitors(reg, tags=[doc["property"]])
        mon.raise_on_failure = False
        if fname == "__init__":
            mon.install(cls, cname)
            try:
                obj = cls(**args)
            except Exception as e:
                mon.uninstall()
                return {"confirmed": bool(mon.failures), "mode": "constructor", "exception": repr(e),
                        "failed": [f.clause for f in mon.failures]}
        else:
            if getattr(cls, "__abstractmethods__", None):
                # abstract base class: a concrete subclass that only forwards to the base methods
                cls = type(cname, (cls,), {m: (lambda self, *a, _m=m, _c=cls, **k: getattr(_c, _m)(self, *a, **k))
                                           for m in cls.__abstractmethods__})
            obj = cls.__new__(cls)
            ghost = types.SimpleNamespace()
            for f, v in (selfd or {}).items():
                if f == "__class__":
                    continue
                if f == "__ghost__":
                    for g, gv in v.items():
                        setattr(ghost, g, realise_arg(conv(gv)))
                    continue
                val = realise_arg(conv(v))
                if isinstance(val, Opaque):
                    val = None
                setattr(obj, f, val)
            obj._verif_ghost = ghost
            mon.install(cls, cname)
            try:
                getattr(obj, fname)(**args)
                exc = None
            except Exception as e:
                exc = e
        mon.uninstall()
        same = [f for f in mon.failures if f.clause == doc.get("clause")]
        real = [f for f in mon.failures if f.kind != "exception"]
        res = {"confirmed": bool(same) or (bool(real) and doc["obligation"].split("/")[-1] in (
            "entry", "preserved")), "mode": "pre-state injected",
               "failed_clauses": [f.clause[:200] for f in mon.failures][:5], "arguments": {k: repr(v)[:200] for k, v in args.items()},
               "clauses_evaluated": mon.evaluations}
        if fname != "__init__" and exc is not None:
            res["exception"] = repr(exc)[:300]
        return res
    except CannotRealise as e:
        return {"confirmed": False, "reason": "cannot realise the model concretely: %s" % e}
