"""helpers of the bounded tier (runs under /venv/bin/python next to the real library)"""
import hashlib
import json
import os
import sys
import time

VERIF = os.path.dirname(os.path.dirname(os.path.abspath(__file__)))


class Result:
    def __init__(self, pid, driver, rule, bounds):
        self.pid = pid
        self.d = {"driver": driver, "rule": rule, "bounds": bounds, "evaluations": 0, "distinct_nontrivial": 0,
                  "samples": [], "violations": [], "known": [], "checks": {}}
        self.distinct = set()
        self.t0 = time.time()

    def count(self, key=None, nontrivial=False, n=1, check=None):
        self.d["evaluations"] += n
        if check:
            self.d["checks"][check] = self.d["checks"].get(check, 0) + n
        if nontrivial and key is not None:
            self.distinct.add(key)

    def sample(self, s, limit=5):
        if len(self.d["samples"]) < limit:
            self.d["samples"].append(s)

    def violation(self, what, script, known=None):
        """script: self-contained python source that exits non-zero on the real code when the violation is there"""
        for k in (known or []):
            pats = ([k["bounded_match"]] if k.get("bounded_match") else []) + list(k.get("bounded_match_any", []))
            if k.get("status") == "known" and k.get("property") == self.pid and any(p_ in what for p_ in pats):
                if not any(x["id"] == k["id"] for x in self.d["known"]):
                    self.d["known"].append({"id": k["id"], "what": k["what"]})
                return
        if len(self.d["violations"]) >= 5:
            return
        os.makedirs(os.path.join(VERIF, "replays"), exist_ok=True)
        h = hashlib.sha1((what + script).encode()).hexdigest()[:10]
        path = os.path.join(VERIF, "replays", "%s-b-%s.json" % (self.pid, h))
        with open(path, "w") as fh:
            json.dump({"property": self.pid, "kind": "history", "what": what, "script": script,
                       "repo": os.environ.get("VERIF_REPO", "/repo")}, fh, indent=1)
        self.d["violations"].append({"what": what, "replay": path})

    def finish(self):
        self.d["distinct_nontrivial"] = len(self.distinct)
        self.d["wall_s"] = round(time.time() - self.t0, 2)
        return self.d


def load_known():
    p = os.path.join(VERIF, "known_findings.json")
    if not os.path.exists(p):
        return []
    with open(p) as fh:
        return json.load(fh)["findings"]
