"""C03 bounded stand-in: ADWIN / ADWINAccuracy vs a reference model that keeps the raw inputs of every bucket."""
import math

import numpy as np

from bounded.lib import Result, load_known, VERIF
from bounded import catalog as C

REPLAY = '''import sys, warnings
warnings.filterwarnings("ignore")
sys.path.insert(0, %(verif)r)
from bounded import b_C03
msg = b_C03.check(%(scn)r)
assert msg is None, msg
print("ADWIN keeps exact statistics of its window and cuts by its rule")
'''


class RefADWIN:
    def __init__(self, delta=0.002, max_buckets=5, new_sample_thresh=32, window_size_thresh=10, subwindow_size_thresh=5,
                 conservative_bound=False):
        self.delta, self.M, self.nst, self.wst, self.sst, self.cons = delta, max_buckets, new_sample_thresh, \
            window_size_thresh, subwindow_size_thresh, conservative_bound
        self.rows = [[]]
        self.state = None
        self.recs = [None, None]
        self.total = 0
        self.since = 0

    def window(self):
        out = []
        for row in reversed(self.rows):
            for b in row:
                out.extend(b)
        return out

    def eps_exceeded(self, n0, t0, n1, t1, W, var):
        diff = t0 / n0 - t1 / n1
        nh = 1 / (n0 - self.sst + 1) + 1 / (n1 - self.sst + 1)
        with np.errstate(all="ignore"):
            if not self.cons:
                dp = np.log(2 * np.log(W) / self.delta)
                eps = np.sqrt(2 * nh * var * dp) + (2 / 3) * nh * dp
            else:
                dp = np.log(4 * np.log(W) / self.delta)
                eps = np.sqrt(0.5 * nh * dp)
        return abs(diff) > eps

    def splits_exceeding(self):
        """all admissible bucket-boundary splits (older | newer) whose mean difference exceeds the cut"""
        w = self.window()
        W = len(w)
        if W == 0:
            return []
        var = float(np.var(w))
        out = []
        n0 = 0
        t0 = 0.0
        tot = float(np.sum(w))
        buckets = [b for row in reversed(self.rows) for b in row]
        for bi, b in enumerate(buckets[:-1]):
            n0 += len(b)
            t0 += float(np.sum(b))
            n1, t1 = W - n0, tot - t0
            if n0 >= self.sst and n1 >= self.sst and self.eps_exceeded(n0, t0, n1, t1, W, var):
                out.append(bi)
        return out

    def update(self, x):
        if self.state is not None:
            self.state, self.since, self.recs = None, 0, [None, None]
        self.total += 1
        self.since += 1
        self.rows[0].append([x])
        i = 0
        while i < len(self.rows):
            if len(self.rows[i]) == self.M + 1:
                if i + 1 == len(self.rows):
                    self.rows.append([])
                merged = self.rows[i][0] + self.rows[i][1]
                self.rows[i + 1].append(merged)
                del self.rows[i][:2]
                if len(self.rows[i + 1]) <= self.M:
                    break
            else:
                break
            i += 1
        if self.total % self.nst == 0 and len(self.window()) > self.wst:
            while True:
                ex = self.splits_exceeding()
                if not ex:
                    break
                self.state = "drift"
                # drop the oldest bucket
                # (rows emptied by a merge - max_buckets = 1 - hold nothing: the oldest bucket is in the last non-empty row)
                while len(self.rows) > 1 and not self.rows[-1]:
                    self.rows.pop()
                top = len(self.rows) - 1
                del self.rows[top][0]
                while len(self.rows) > 1 and not self.rows[-1]:
                    self.rows.pop()
                W = len(self.window())
                self.recs = [self.total - W, self.total - 1]


def check(scn):
    name, params, seed, n, kind = scn["det"], scn["params"], scn["seed"], scn["n"], scn["kind"]
    cls = C.get_class(name)
    det = cls(**params)
    ref = RefADWIN(**params)
    for f in ("delta", "max_buckets", "new_sample_thresh", "window_size_thresh", "subwindow_size_thresh", "conservative_bound"):
        exp = params.get(f, getattr(RefADWIN(), {"max_buckets": "M", "new_sample_thresh": "nst", "window_size_thresh": "wst",
                                                  "subwindow_size_thresh": "sst", "conservative_bound": "cons"}.get(f, f)))
        if getattr(det, f) != exp:
            return "%s was constructed with %s=%r but uses %r" % (name, f, exp, getattr(det, f))
    rng = np.random.RandomState(seed)
    levels = [0.0, 3.0, -2.0, 5.0, 1.0]
    prev_W = 0
    for i in range(n):
        lev = levels[(i * len(levels)) // n]
        if name == "ADWINAccuracy":
            acc = [0.95, 0.2, 0.9, 0.1, 0.8][(i * 5) // n]
            yt = int(rng.randint(0, 3))
            yp = yt if rng.rand() < acc else (yt + 1) % 3
            det.update(["a", "b", "c"][yt] if kind == "str" else yt, ["a", "b", "c"][yp] if kind == "str" else yp)
            x = 1 if yt == yp else 0
        else:
            x = float(lev + rng.randn()) if kind == "real" else float(round(lev + rng.randn()))
            det.update(x)
        ref.update(x)
        w = ref.window()
        W = len(w)
        if det._window_size != W:
            return "update %d: window holds %d inputs, reference window %d" % (i, det._window_size, W)
        mean, var = (float(np.mean(w)), float(np.var(w))) if W else (0.0, 0.0)
        if not math.isclose(det.mean(), mean, rel_tol=1e-8, abs_tol=1e-8):
            return "update %d: mean() == %r, mean of the %d most recent inputs is %r" % (i, det.mean(), W, mean)
        if not math.isclose(det.variance(), var, rel_tol=1e-7, abs_tol=1e-7):
            return "update %d: variance() == %r, population variance of the %d most recent inputs is %r" % (i, det.variance(), W, var)
        if det.drift_state != ref.state:
            return "update %d: state %r, cut rule gives %r" % (i, det.drift_state, ref.state)
        if W < prev_W + 1 and det.drift_state != "drift":
            return "update %d: the window shrank (%d -> %d) without a reported drift" % (i, prev_W, W)
        recs = [None if r is None else int(r) for r in list(det.retraining_recs)]
        if recs != ref.recs:
            return "update %d: retraining_recs %r, expected %r (= [total - W, total - 1])" % (i, recs, ref.recs)
        if det.total_samples != ref.total:
            return "update %d: total_samples %r" % (i, det.total_samples)
        prev_W = W
    return None


def run(tier, seed, repo, focus=None):
    quick = tier == "quick"
    res = Result("C03", "bounded/b_C03.py",
                 "real ADWIN / ADWINAccuracy vs a reference model whose buckets keep their raw inputs: after every update "
                 "window size, mean(), variance() (population variance of exactly the W most recent inputs), drift iff an "
                 "admissible bucket-boundary split exceeds the epsilon-cut (oldest buckets dropped until none does), "
                 "retraining_recs == [total - W, total - 1], constructor parameters honoured; streams with several level "
                 "shifts; non-trivial = at least one drift", {"seeds": 4 if quick else 20})
    known = load_known()
    grids = list(C.DETECTORS["ADWIN"]["variants"]) + [dict(delta=0.3, max_buckets=2, new_sample_thresh=4, window_size_thresh=3, subwindow_size_thresh=1),
                                                      dict(delta=0.9, max_buckets=3, new_sample_thresh=1, window_size_thresh=2, subwindow_size_thresh=1),
                                                      dict()]
    for name in ("ADWIN", "ADWINAccuracy"):
        for params in grids:
            for s in range(4 if quick else 20):
                for kind in (("real", "int") if name == "ADWIN" else ("int", "str")):
                    scn = {"det": name, "params": params, "seed": seed + s, "n": 160 if params else 400, "kind": kind}
                    try:
                        msg = check(scn)
                    except Exception as e:
                        msg = "%s: %s" % (type(e).__name__, e)
                    res.count(key=repr(scn), nontrivial=True, n=scn["n"], check="%s vs raw-bucket reference" % name)
                    if msg:
                        res.violation("%s: %s" % (name, msg), REPLAY % dict(verif=VERIF, scn=scn), known)
    # randomly drawn constructor parameters (documented domains): layouts the fixed grid does not contain
    import numpy as _np
    prng = _np.random.RandomState(seed + 4242)
    for r in range(8 if quick else 80):
        params = dict(delta=float(prng.choice([0.002, 0.05, 0.2, 0.5, 0.9])), max_buckets=int(prng.randint(1, 10)),
                      new_sample_thresh=int(prng.randint(1, 20)), window_size_thresh=int(prng.randint(1, 14)),
                      subwindow_size_thresh=int(prng.randint(1, 7)), conservative_bound=bool(prng.randint(0, 2)))
        for name, kind in (("ADWIN", "real"), ("ADWINAccuracy", "int")):
            scn = {"det": name, "params": params, "seed": seed + r, "n": 200, "kind": kind}
            try:
                msg = check(scn)
            except Exception as e:
                msg = "%s: %s" % (type(e).__name__, e)
            res.count(key=repr(scn), nontrivial=True, n=scn["n"], check="%s vs raw-bucket reference (random parameters)" % name)
            if msg:
                res.violation("%s: %s" % (name, msg), REPLAY % dict(verif=VERIF, scn=scn), known)
    res.sample({"check": "ADWIN vs raw-bucket reference", "scenario": {"params": grids[0], "n": 160, "kind": "real"}})
    return res.finish()
