"""C17 bounded stand-in: first-alarm index under ordered pairs of threshold values, same seed schedule."""
from bounded.lib import Result, load_known
from bounded import drivers, catalog as C


def run(tier, seed, repo, focus=None):
    quick = tier == "quick"
    res = Result("C17", "bounded/b_C17.py",
                 "for every detector family: pairs (strict, loose) of the detection threshold on identical streams and "
                 "seed schedules; the strict run's first drift index must not be earlier; warning thresholds: first "
                 "drift unchanged and no warning removed; non-trivial = the looser run alarms", {"seeds": 3 if quick else 12})
    known = load_known()
    scns = []
    for name, pairs in drivers.THRESHOLDS.items():
        d = C.DETECTORS[name]
        for v in range(len(d["variants"])):
            for s in range(3 if quick else 12):
                for k in range(len(pairs)):
                    n = {"label": 150, "value": 150, "row": 170, "batch": 12}[d["kind"]]
                    if d.get("slow"):
                        n = 60
                    scns.append({"det": name, "variant": v, "seed": seed + s, "n": n, "k": k})
    # NNDVI: close alpha pairs on slowly drifting histories (the distance creeps through the critical values)
    for s in range(4 if quick else 20):
        for k in range(1, len(drivers.THRESHOLDS["NNDVI"])):
            scns.append({"det": "NNDVI", "variant": 0, "seed": seed + s, "n": 10, "k": k, "slow": True})
    drivers.run_scenarios(res, "threshold", scns, known)
    scns = []
    for s in range(3 if quick else 12):
        for (strict, loose, st) in ((0.015, 0.02, 500), (0.019, 0.02, 500), (0.04, 0.06, 200), (0.01, 0.05, 300)):
            scns.append({"seed": seed + s + 3, "strict": strict, "loose": loose, "sampling_times": st, "k": 30, "rows": 100, "slope": 0.04, "n": 12})
    drivers.run_scenarios(res, "nndvi_alpha", scns, known)
    # HDDDM / CDBD in 'number of standard deviations' mode, also with fractional counts, on creeping histories
    scns = []
    for name in ("HDDDM", "CDBD"):
        for s in range(3 if quick else 12):
            for (strict, loose) in ((3.0, 0.5), (0.6, 0.05), (0.9, 0.2), (1.5, 0.4), (2.0, 0.8)):
                for slope in (0.12, 0.3):
                    scns.append({"det": name, "seed": seed + s, "strict": strict, "loose": loose, "n": 14, "slope": slope})
    drivers.run_scenarios(res, "hdm_stdev", scns, known)
    scns = []
    for name, pairs in drivers.WARNINGS.items():
        d = C.DETECTORS[name]
        for v in range(len(d["variants"])):
            for s in range(3 if quick else 12):
                for k in range(len(pairs)):
                    scns.append({"det": name, "variant": v, "seed": seed + s, "n": 60 if d.get("slow") else 150, "k": k})
    drivers.run_scenarios(res, "warning_threshold", scns, known)
    return res.finish()
