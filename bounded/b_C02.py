"""C02 bounded stand-in: running detector vs a fresh twin per epoch, and set_reference vs a new detector."""
from bounded.lib import Result, load_known
from bounded import drivers, catalog as C

NAMES = ("DDM", "EDDM", "STEPD", "PageHinkley", "CUSUM", "KdqTreeStreaming", "KdqTreeBatch", "HDDDM", "CDBD", "NNDVI")


def run(tier, seed, repo, focus=None):
    quick = tier == "quick"
    res = Result("C02", "bounded/b_C02.py",
                 "twin run: at every reported drift a fresh detector (documented carry-over: CUSUM mean/sd of the last "
                 "burn_in observations; batch detectors: drifted batch as reference) is started and compared, update by "
                 "update, with the running one (state, retraining_recs shifted, HDM thresholds) under one numpy seed "
                 "schedule; set_reference at arbitrary positions vs a new detector; non-trivial = at least one drift",
                 {"seeds": 2 if quick else 8})
    known = load_known()
    seeds = [seed + s for s in range(2 if quick else 8)]
    scns = []
    for name in NAMES:
        d = C.DETECTORS[name]
        for v in range(len(d["variants"])):
            for s in seeds:
                n = {"label": 150, "value": 150, "row": 170, "batch": 14}[d["kind"]]
                scns.append({"det": name, "variant": v, "seed": s, "n": n})
    drivers.run_scenarios(res, "clean_slate", scns, known)
    scns = []
    for name in ("HDDDM", "CDBD", "KdqTreeBatch", "NNDVI"):
        d = C.DETECTORS[name]
        for v in range(len(d["variants"])):
            for s in seeds[: (1 if quick else 4)]:
                for at in (1, 3, 6):
                    scns.append({"det": name, "variant": v, "seed": s, "n": 12, "at": at})
    drivers.run_scenarios(res, "set_reference", scns, known)
    return res.finish()
