"""C10 bounded stand-in: NNSpacePartitioner membership / adjacency / distance properties and NNDVI's decision rule."""
import math

import numpy as np
from scipy.stats import norm

from bounded.lib import Result, load_known, VERIF
from bounded import catalog as C

REPLAY = '''import sys, warnings
warnings.filterwarnings("ignore")
sys.path.insert(0, %(verif)r)
from bounded import b_C10
msg = b_C10.CHECKS[%(which)r](%(scn)r)
assert msg is None, msg
print("holds")
'''


def samples(scn):
    rng = np.random.RandomState(scn["seed"])
    n1, n2, kind = scn["n1"], scn["n2"], scn["kind"]
    if kind == "lattice":
        return rng.randint(0, 4, (n1, 2)).astype(float), rng.randint(1, 5, (n2, 2)).astype(float)
    if kind == "overlap":
        base = rng.randn(max(n1, n2) + 3, 2)
        return base[rng.randint(0, len(base), n1)], base[rng.randint(0, len(base), n2)]
    return rng.randn(n1, 2), rng.randn(n2, 2) + scn.get("shift", 0.5)


def check_partition(scn):
    from menelaus.partitioners import NNSpacePartitioner
    s1, s2 = samples(scn)
    k = scn["k"]
    p = NNSpacePartitioner(k)
    p.build(s1, s2)
    D = [tuple(r) for r in p.D]
    if len(set(D)) != len(D):
        return "D contains duplicate points"
    if set(D) != {tuple(r) for r in np.vstack([s1, s2])}:
        return "D is not the de-duplicated union of the two samples"
    in1, in2 = {tuple(r) for r in s1}, {tuple(r) for r in s2}
    for i, pt in enumerate(D):
        if (p.v1[i] == 1) != (pt in in1):
            return "v1 marks %r as %r but membership in the first sample is %r (sizes %d, %d)" % (pt, p.v1[i], pt in in1, len(s1), len(s2))
        if (p.v2[i] == 1) != (pt in in2):
            return "v2 marks %r as %r but membership in the second sample is %r (sizes %d, %d)" % (pt, p.v2[i], pt in in2, len(s1), len(s2))
    A = p.adjacency_matrix
    if scn["kind"] == "cont":
        Dm = np.array(D)
        dist = np.sqrt(((Dm[:, None, :] - Dm[None, :, :]) ** 2).sum(-1))
        for i in range(len(D)):
            nn = set(np.argsort(dist[i], kind="stable")[:k])
            if set(np.nonzero(A[i])[0]) != nn:
                return "adjacency row %d is not the %d nearest neighbours (self included)" % (i, k)
    if not np.all(np.diag(A) == 1):
        return "a point is not its own neighbour in the adjacency matrix"
    d12 = NNSpacePartitioner.compute_nnps_distance(p.nnps_matrix, p.v1, p.v2)
    d21 = NNSpacePartitioner.compute_nnps_distance(p.nnps_matrix, p.v2, p.v1)
    if not math.isclose(d12, d21, rel_tol=1e-12, abs_tol=1e-12):
        return "NNPS distance is not symmetric: %r vs %r" % (d12, d21)
    q = NNSpacePartitioner(k)
    q.build(s2, s1)
    dq = NNSpacePartitioner.compute_nnps_distance(q.nnps_matrix, q.v1, q.v2)
    if not math.isclose(d12, dq, rel_tol=1e-9, abs_tol=1e-12):
        return "NNPS distance changes when the two samples are exchanged: %r vs %r" % (d12, dq)
    if not (-1e-12 <= d12 <= 1 + 1e-12):
        return "NNPS distance %r outside [0, 1]" % d12
    r = NNSpacePartitioner(k)
    perm = np.random.RandomState(scn["seed"] + 1).permutation(len(s1))
    r.build(s1, s1[perm])
    d0 = NNSpacePartitioner.compute_nnps_distance(r.nnps_matrix, r.v1, r.v2)
    if abs(d0) > 1e-12:
        return "NNPS distance of two samples that are the same set is %r, not 0" % d0
    return None


def check_nndvi(scn):
    from menelaus.data_drift import NNDVI
    from menelaus.partitioners import NNSpacePartitioner
    seed, nb, k, st, alpha = scn["seed"], scn["batches"], scn["k"], scn["sampling_times"], scn["alpha"]
    rng = np.random.RandomState(seed)
    levels = [0, 0, 3, 3, 0, 4, 4]
    batches = [levels[i % len(levels)] + rng.randn(12 + (i % 3) * 5, 2) for i in range(nb + 1)]
    if scn.get("creep"):
        # a slowly drifting history: the distance stays close to the critical value, so the decision is sensitive to how the
        # critical value was estimated (number of re-assignments, fit)
        batches = [scn["creep"] * i + rng.randn(30, 2) for i in range(nb + 1)]
    if scn.get("lattice"):
        batches = [np.round(b) for b in batches]
    if scn.get("intref"):
        # the reference is stored in another dtype (counts, float32) than the float64 batches that follow: every batch is
        # compared as supplied
        batches[0] = np.round(batches[0]).astype([np.int64, np.int32, np.float32, np.int16][seed % 4])
    d = NNDVI(k_nn=k, sampling_times=st, alpha=alpha)
    d.set_reference(batches[0])
    ref = np.array(batches[0])
    for i in range(1, nb + 1):
        b = batches[i]
        np.random.seed(seed * 100 + i)
        d.update(b)
        # specification, same seed
        np.random.seed(seed * 100 + i)
        p = NNSpacePartitioner(k)
        p.build(ref, b)
        dact = NNSpacePartitioner.compute_nnps_distance(p.nnps_matrix, p.v1, p.v2)
        sh = []
        for _ in range(st):
            v1s = np.random.permutation(p.v1)
            sh.append(NNSpacePartitioner.compute_nnps_distance(p.nnps_matrix, v1s, 1 - v1s))
        mu, sd = norm.fit(sh)
        theta = norm.ppf(1 - alpha, mu, sd)
        exp = "drift" if dact > theta else None
        if d.drift_state != exp:
            return "batch %d: NNDVI reports %r, rule (distance %r > (1-alpha) normal quantile %r) gives %r" % (i, d.drift_state, dact, theta, exp)
        if exp == "drift":
            ref = np.array(b)
        if not np.array_equal(np.asarray(d.reference_batch), ref):
            return "batch %d: reference batch is not %s" % (i, "the drifted test batch" if exp else "kept")
    return None


CHECKS = {"partition": check_partition, "nndvi": check_nndvi}


def run(tier, seed, repo, focus=None):
    quick = tier == "quick"
    res = Result("C10", "bounded/b_C10.py",
                 "NNSpacePartitioner on pairs of point sets (equal / unequal sizes, duplicates within and across samples, "
                 "lattice data): v1 / v2 = exact membership over the de-duplicated union, adjacency = brute-force k-NN on "
                 "tie-free data, distance symmetric, in [0,1], 0 for the same set; NNDVI decisions recomputed from the "
                 "rule under the same numpy seed schedule, reference replaced only on drift; non-trivial = unequal sizes "
                 "or a drift", {"seeds": 5 if quick else 30})
    known = load_known()
    for kind in ("cont", "lattice", "overlap"):
        for (n1, n2) in ((6, 6), (9, 4), (3, 1), (5, 12), (10, 10)):
            for k in (2, 3):
                if k > min(n1 + n2, 3) and kind != "cont":
                    pass
                for s in range(5 if quick else 30):
                    scn = {"seed": seed + s, "n1": n1, "n2": n2, "k": k, "kind": kind}
                    try:
                        msg = check_partition(scn)
                    except Exception as e:
                        msg = "%s: %s" % (type(e).__name__, e)
                        if "Expected n_neighbors <=" in msg:
                            continue
                    res.count(key=repr(scn), nontrivial=n1 != n2, check="NN space partitioner")
                    if msg:
                        res.violation("NNSP: " + msg, REPLAY % dict(verif=VERIF, scn=scn, which="partition"), known)
    import numpy as _np
    prng = _np.random.RandomState(seed + 1010)
    for r in range(4 if quick else 40):
        scn = {"seed": seed + r, "batches": 9, "k": int(prng.randint(1, 7)), "sampling_times": int(prng.choice([2, 7, 33, 101, 130, 257, 512])),
               "alpha": float(prng.choice([0.01, 0.05, 0.2, 0.5])), "lattice": bool(prng.randint(0, 2))}
        try:
            msg = check_nndvi(scn)
        except Exception as e:
            msg = "%s: %s" % (type(e).__name__, e)
        res.count(key=repr(scn), nontrivial=True, n=9, check="NNDVI rule (random parameters)")
        if msg:
            res.violation("NNDVI: " + msg, REPLAY % dict(verif=VERIF, scn=scn, which="nndvi"), known)
    for r in range(60 if quick else 300):
        scn = {"seed": seed + r, "batches": 10, "k": 5, "sampling_times": [150, 250, 130][r % 3], "alpha": [0.05, 0.2, 0.4][r % 3],
               "creep": [0.08, 0.12, 0.05][(r // 3) % 3]}
        try:
            msg = check_nndvi(scn)
        except Exception as e:
            msg = "%s: %s" % (type(e).__name__, e)
        res.count(key=repr(scn), nontrivial=True, n=10, check="NNDVI rule (borderline histories)")
        if msg:
            res.violation("NNDVI: " + msg, REPLAY % dict(verif=VERIF, scn=scn, which="nndvi"), known)
    for s in range(3 if quick else 15):
        # (150 / 250 re-assignments: above and off the round numbers an implementation might chunk by)
        for (k, st, alpha) in ((3, 30, 0.1), (2, 20, 0.05), (3, 1, 0.1), (4, 50, 0.01), (3, 150, 0.1), (3, 250, 0.05)):
            for lattice in (False, True):
                scn = {"seed": seed + s, "batches": 7, "k": k, "sampling_times": st, "alpha": alpha, "lattice": lattice}
                try:
                    msg = check_nndvi(scn)
                except Exception as e:
                    msg = "%s: %s" % (type(e).__name__, e)
                res.count(key=repr(scn), nontrivial=True, n=7, check="NNDVI decision rule")
                if msg:
                    res.violation("NNDVI: " + msg, REPLAY % dict(verif=VERIF, scn=scn, which="nndvi"), known)
    for s in range(8 if quick else 40):
        scn = {"seed": seed + s, "batches": 6, "k": [3, 2, 4][s % 3], "sampling_times": [30, 50, 20][s % 3], "alpha": [0.1, 0.05, 0.2][s % 3],
               "intref": True}
        try:
            msg = check_nndvi(scn)
        except Exception as e:
            msg = "%s: %s" % (type(e).__name__, e)
        res.count(key=repr(scn), nontrivial=True, n=6, check="NNDVI decision rule (reference of another dtype)")
        if msg:
            res.violation("NNDVI: " + msg, REPLAY % dict(verif=VERIF, scn=scn, which="nndvi"), known)
    res.sample({"check": "NN space partitioner", "scenario": {"n1": 3, "n2": 1, "k": 2, "kind": "cont"}})
    # the decisions are about the observations that were SUPPLIED: a caller that re-uses / overwrites its buffers after each
    # call must get the same outputs as one that passes private copies (the aliasing scenarios of C15, run here for NNDVI)
    from bounded import drivers as _drv
    _scns = []
    for _name in ['NNDVI']:
        _d = C.DETECTORS[_name]
        for _v in range(len(_d["variants"]) if not quick else 1):
            for _mode in ("c", "view", "df"):
                _scns.append({"det": _name, "variant": _v, "seed": seed, "n": 8, "mode": _mode})
    _drv.run_scenarios(res, "no_alias", _scns, known)
    _drv.run_scenarios(res, "no_alias_reref", [dict(x, n=9, reref=[3, 6]) for x in _scns], known)
    return res.finish()
