"""C18 bounded stand-in: row permutations of every batch (and of the reference)."""
from bounded.lib import Result, load_known
from bounded import drivers, catalog as C


def run(tier, seed, repo, focus=None):
    quick = tier == "quick"
    res = Result("C18", "bounded/b_C18.py",
                 "HDDDM/CDBD (detect_batch 2, 3), KdqTreeBatch, NNDVI on batch sequences vs the same sequences with the rows "
                 "of every batch (and the reference) permuted (also DataFrames with non-unique row labels), same seed schedule: measured divergence equal; decisions "
                 "equal where the threshold is position-free (detect_batch=3, KdqTreeBatch, NNDVI); NNPS distance of "
                 "permuted samples incl. lattice-valued data with ties; single large batches (9000 / 17000 rows, more in the thorough "
                 "tier) sorted vs shuffled for the kdq-tree partitioner, KdqTreeBatch and HDDDM; kdq-tree with coarse minimum cell sizes on wide-range features; "
                 " non-trivial = a drift occurs",
                 {"seeds": 3 if quick else 10})
    known = load_known()
    scns = []
    for name in ("HDDDM", "CDBD", "KdqTreeBatch", "NNDVI"):
        d = C.DETECTORS[name]
        for v, params in enumerate(d["variants"]):
            db = params.get("detect_batch")
            if name in ("HDDDM", "CDBD") and db == 1:
                continue
            for s in range(3 if quick else 10):
                for blocky in (False, True):
                    scns.append({"det": name, "variant": v, "seed": seed + s, "n": 10, "blocky": blocky,
                                 "decisions": not (name in ("HDDDM", "CDBD") and db == 2)})
                    if name in ("HDDDM", "CDBD") and not blocky:
                        # long stationary stretches: later epochs reach their third and later batches
                        scns.append({"det": name, "variant": v, "seed": seed + s, "n": 18, "blocky": False,
                                     "levels": [0, 0, 0, 0, 4, 4, 4, 4, 4, 4, -3, -3, -3, -3, -3, -3, -3, -3],
                                     "decisions": db != 2})
    # DataFrame batches whose row labels are not unique (labels travelling with the permuted rows, or staying in place)
    for name in ("HDDDM", "CDBD", "KdqTreeBatch", "NNDVI"):
        d = C.DETECTORS[name]
        for v, params in enumerate(d["variants"]):
            db = params.get("detect_batch")
            if name in ("HDDDM", "CDBD") and db == 1:
                continue
            for s in range(1 if quick else 4):
                for idx in ("travel", "stay"):
                    scns.append({"det": name, "variant": v, "seed": seed + s, "n": 10, "blocky": False, "index": idx,
                                 "decisions": not (name in ("HDDDM", "CDBD") and db == 2)})
    drivers.run_scenarios(res, "row_order", scns, known)
    scns = []
    for s in range(6 if quick else 30):
        for (n1, n2) in ((12, 12), (15, 7), (6, 14)):
            scns.append({"seed": seed + s, "n1": n1, "n2": n2, "k": 3, "lattice": bool(s % 2)})
    drivers.run_scenarios(res, "nnps_order", scns, known)
    scns = [{"seed": seed + s, "n": 14, "k": 5, "sampling_times": 20, "alpha": 0.2} for s in range(12 if quick else 80)]
    drivers.run_scenarios(res, "row_order_replay", scns, known)
    # large batches (above typical block / chunk sizes: positional chunking must not leak order either)
    scns = [{"det": name, "seed": seed, "rows": rows} for name in ("KDQTreePartitioner", "KdqTreeBatch", "HDDDM")
            for rows in ((9000, 17000) if quick else (5000, 9000, 17000, 33000, 70000))]
    drivers.run_scenarios(res, "row_order_large", scns, known)
    # long drift-free histories: the accumulated reference grows to 6 x rows (above any plausible cap or chunk size)
    scns = [{"det": name, "seed": seed, "rows": rows, "batches": 4} for name in ("HDDDM", "CDBD")
            for rows in ((7000, 21000) if quick else (3000, 7000, 21000, 45000))]
    drivers.run_scenarios(res, "row_order_long", scns, known)
    # coarse minimum cell sizes on wide-range features (the stop rule of the tree then really bites)
    scns = [{"seed": seed + s, "rows": rows, "lb": lb, "count_ubound": cu, "d": d}
            for s in range(2 if quick else 8) for (rows, lb, cu, d) in ((300, 0.1, 8, 3), (200, 0.05, 5, 2), (400, 0.2, 12, 3))]
    drivers.run_scenarios(res, "row_order_coarse", scns, known)
    return res.finish()
