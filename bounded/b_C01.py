"""C01 bounded stand-in: lifecycle oracle over all catalogued detectors + the C01-tagged contract clauses as run-time
monitors on the scalar detectors."""
from bounded.lib import Result, load_known
from bounded import drivers, catalog as C
from bounded.monitored import monitored_histories


def run(tier, seed, repo, focus=None):
    quick = tier == "quick"
    res = Result("C01", "bounded/b_C01.py",
                 "lifecycle oracle (state domain, counters, restart value, documented warm-up, retraining_recs on drift "
                 "and cleared afterwards) on deterministic multi-drift streams for every detector x variant x seed; "
                 "non-trivial = the history contains at least one reported drift",
                 {"seeds": 2 if quick else 8, "length": "40-160 updates / 10-16 batches"})
    known = load_known()
    seeds = [seed + s for s in range(2 if quick else 8)]
    scns = []
    for name, d in C.DETECTORS.items():
        for v in range(len(d["variants"])):
            for s in seeds:
                n = {"label": 120, "value": 120, "row": 160, "batch": 12}[d["kind"]]
                if d.get("slow"):
                    n = 60 if quick else 100
                if name == "PCACD":
                    n = 220
                scns.append({"det": name, "variant": v, "seed": s, "n": n})
    drivers.run_scenarios(res, "lifecycle", scns, known)
    monitored_histories(res, "C01", ["C01"], tier, seed, known)
    return res.finish()
