"""C11 -- PCA-CD scores each component on aligned supports and alarms via Page-Hinkley."""
from .common import A_COMMON
Q = "menelaus.data_drift.pca_cd:PCACD"
TARGETS = [("fn", Q + "._intersection_divergence"), ("lemma", "min_sum_vector_form"), ("lemma", "min_sum_identity"),
           ("lemma", "min_sum_symmetric"), ("lemma", "min_sum_range")]
LEVEL = "exploration"
LEVEL_TEXT = ('Bounded: real PCACD against a reimplementation of the documented procedure with the same sklearn building blocks (windows, scaling on/off, components, per-component aligned histograms / KDE, max score fed to Page-Hinkley, schedule, counters). PCA / KDE numerics are trusted. Deductive (counted separately): _intersection_divergence returns 1 - min_sum(p, q, n) for a recursive spec of the shared histogram area (the numpy expression is shown equal to it by induction); lemmas: the score of a density compared with itself is 1 - its total mass (0 for a distribution), it is symmetric, and lies between 1 - mass and 1 for non-negative densities. The embedded Page-Hinkley monitor is the class proved under C04. update() itself (windows, PCA, KDE / histograms, schedule) is bounded only. Claimed as exploration.')
ASSUMPTIONS = A_COMMON + ["the Page-Hinkley decision is knife-edge for threshold round(0.01*window) == 0: the reference monitor is fed the detector's recorded score after it was checked to equal the recomputed one"]
