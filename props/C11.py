"""C11 -- PCA-CD scores each component on aligned supports and alarms via Page-Hinkley."""
from .common import A_COMMON
TARGETS = []
LEVEL = "exploration"
LEVEL_TEXT = ('Bounded: real PCACD against a reimplementation of the documented procedure with the same sklearn building blocks (windows, scaling on/off, components, per-component aligned histograms / KDE, max score fed to Page-Hinkley, schedule, counters). PCA / KDE numerics are trusted. Claimed as exploration.')
ASSUMPTIONS = A_COMMON + ["the Page-Hinkley decision is knife-edge for threshold round(0.01*window) == 0: the reference monitor is fed the detector's recorded score after it was checked to equal the recomputed one"]
