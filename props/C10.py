"""C10 -- NN-DVI measures neighbourhood density change between exactly the given batches."""
from .common import A_COMMON
NP = "menelaus.partitioners.NNSpacePartitioner:NNSpacePartitioner"
ND = "menelaus.data_drift.nndvi:NNDVI"
TARGETS = [("fn", ND + ".update"), ("fn", ND + ".set_reference"), ("fn", ND + "._compute_drift_threshold"), ("fn", NP + ".compute_nnps_distance"), ("fn", NP + ".build"), ("lemma", "nnps_vector_form"), ("lemma", "nnps_symmetric"),
           ("lemma", "nnps_identity"), ("lemma", "nnps_range")]
LEVEL = "exploration"
LEVEL_TEXT = ("Deductive (new, counted separately): NNSpacePartitioner.build - D holds the pooled points (every point of either sample is a row of D, through the inverse indices), and the membership vectors v1 / v2 are 0/1 marks of EXACTLY the rows of D that occur in sample 1 / sample 2, for any two sample sizes and any multiplicities (content-level models of np.vstack, np.unique(axis=0, return_inverse=True) by its documented contract, np.split, index-vector assignment); the nearest-neighbour part and the NNPS matrix are abstracted (not verified). Bounded: NNSpacePartitioner membership vectors, brute-force k-NN adjacency on tie-free data, distance symmetry / range / identity; NNDVI decisions recomputed under the same seed. The claim that sklearn's kneighbors_graph is the k-NN relation is trusted (probed). Deductive (counted separately): compute_nnps_distance returns nnps_sum(v1.M, v2.M, n)/n "
         "for a recursive spec function nnps_sum (the numpy vector expression is shown equal to it by induction), with "
         "lemmas symmetric / 0 on equal membership vectors (positive denominators) / in [0, n] for non-negative entries. "
         "NNDVI.update / set_reference are proved as a skeleton: the distance recorded for a batch (ghost d_act) is the contract-level distance of "
         "NNSpacePartitioner built from exactly the current reference batch and the batch supplied (matrix and membership vectors are deterministic "
         "uninterpreted functions of the two blocks and k), drift <=> d_act > the threshold computed for this pair (ghost theta; "
         "_compute_drift_threshold is verified with its permutation loop abstracted), the drifted batch becomes the reference cell by cell, otherwise the reference is unchanged. "
         "NNSpacePartitioner.build is bounded only. Claimed as exploration.")
ASSUMPTIONS = A_COMMON + [
    "NNDVI._compute_drift_threshold returns some real number and modifies nothing: verified with its permutation loop ABSTRACTED "
    "(the loop body is not verified; the tail - norm.fit, norm.ppf - is); its monotonicity in alpha is the two-run obligation NNDVI_alpha under C17",
    "NNSpacePartitioner is an opaque object inside NNDVI.update: nnps_matrix, v1, v2 are deterministic uninterpreted functions of (reference block, test block, k); their relation to the k-NN graph is decided by the bounded tier",
]
