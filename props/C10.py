"""C10 -- NN-DVI measures neighbourhood density change between exactly the given batches."""
from .common import A_COMMON
NP = "menelaus.partitioners.NNSpacePartitioner:NNSpacePartitioner"
TARGETS = [("fn", NP + ".compute_nnps_distance"), ("lemma", "nnps_vector_form"), ("lemma", "nnps_symmetric"),
           ("lemma", "nnps_identity"), ("lemma", "nnps_range")]
LEVEL = "exploration"
LEVEL_TEXT = ("Bounded: NNSpacePartitioner membership vectors, brute-force k-NN adjacency on tie-free data, distance symmetry / range / identity; NNDVI decisions recomputed under the same seed. The claim that sklearn's kneighbors_graph is the k-NN relation is trusted (probed). Deductive (counted separately): compute_nnps_distance returns nnps_sum(v1.M, v2.M, n)/n "
         "for a recursive spec function nnps_sum (the numpy vector expression is shown equal to it by induction), with "
         "lemmas symmetric / 0 on equal membership vectors (positive denominators) / in [0, n] for non-negative entries. "
         "NNSpacePartitioner.build and NNDVI.update are bounded only. Claimed as exploration.")
ASSUMPTIONS = A_COMMON + []
