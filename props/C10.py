"""C10 -- NN-DVI measures neighbourhood density change between exactly the given batches."""
from .common import A_COMMON
TARGETS = []
LEVEL = "exploration"
LEVEL_TEXT = ("Bounded: NNSpacePartitioner membership vectors, brute-force k-NN adjacency on tie-free data, distance symmetry / range / identity; NNDVI decisions recomputed under the same seed. The claim that sklearn's kneighbors_graph is the k-NN relation is trusted (probed). Claimed as exploration.")
ASSUMPTIONS = A_COMMON + []
