"""C03 -- ADWIN keeps exact statistics of its adaptive window and cuts it by its rule."""
from .common import A_COMMON
TARGETS = []
LEVEL = "exploration"
LEVEL_TEXT = ('Bounded: real ADWIN / ADWINAccuracy against a reference model whose buckets keep their raw inputs (window size, mean, population variance of exactly the W most recent inputs, cut rule over all admissible bucket-boundary splits, retraining_recs, constructor parameters) on multi-shift streams over a parameter grid incl. max_buckets=1. The deductive stage of DESIGN.md 9/C03 is not built in this round; claimed as exploration.')
ASSUMPTIONS = A_COMMON + []
