"""C03 -- ADWIN keeps exact statistics of its adaptive window and cuts it by its rule."""
from .common import A_COMMON
Q = "menelaus.change_detection.adwin:ADWIN"
QA = "menelaus.concept_drift.adwin_accuracy:ADWINAccuracy"
TARGETS = [("fn", Q + "." + f) for f in ("mean", "variance", "_check_epsilon", "_add_sample", "_remove_last", "update")] + \
          [("fn", QA + ".__init__"), ("fn", QA + ".update"), ("lemma", "remove_bucket_identity"), ("lemma", "merge_buckets_identity")] + \
          [("fn", "menelaus.change_detection.adwin:" + f) for f in ("_BucketRow.shift", "_BucketRow.remove_buckets", "_BucketRow.add_bucket",
                                                                     "_BucketRowList.remove_tail")]
LEVEL = "exploration"
LEVEL_TEXT = ('Bounded: real ADWIN / ADWINAccuracy against a reference model whose buckets keep their raw inputs (window size, mean, population variance of exactly the W most recent inputs, cut rule over all admissible bucket-boundary splits, retraining_recs, constructor parameters) on multi-shift streams over a parameter grid incl. max_buckets=1. Deductive (counted separately): stage 1 of DESIGN.md 9/C03 (Welford step, removal of the oldest bucket with its lemma, mean / variance, _check_epsilon, update, ADWINAccuracy) and the bucket-row primitives (shift = drop the oldest buckets and zero-fill, add_bucket, remove_buckets, remove_tail); stage 2 (row-structure invariant, _compress_buckets, _shrink_window) is not built; claimed as exploration.')
ASSUMPTIONS = A_COMMON + [
    "ASSUMED (unverified) contracts: ADWIN._shrink_window, ADWIN._compress_buckets (both need the invariant over the whole "
    "bucket-row list); the row primitives _BucketRow.shift / remove_buckets / add_bucket and _BucketRowList.remove_tail are verified; "
    "_remove_last's precondition bucket_ok (the oldest bucket's variance entry is Q_b - T_b^2/n_b) "
    "is the row-structure invariant of stage 2, not proved",
    "A-LIST: nodes of the bucket-row list reached through head / tail / next / prev are pairwise distinct, lazily "
    "materialised objects",
    "sqrt / log axioms: sqrt(x)^2 = x for x >= 0, monotone; log 1 = 0, strictly monotone, 1 - 1/x <= log x <= x - 1",
]
