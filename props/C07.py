"""C07 -- HDDDM/CDBD alarm exactly when the distance change exceeds the adaptive bound."""
from .common import A_COMMON
HD = "menelaus.data_drift.hdddm:HDDDM"
TARGETS = [("fn", HD + "._adaptive_threshold"), ("fn", HD + "._hellinger_distance"),
           ("lemma", "hell_identity"), ("lemma", "hell_symmetric"), ("lemma", "hell_nonneg"),
           ("fn", "menelaus.data_drift.histogram_density_method:HistogramDensityMethod.reset"),
           ("fn", "menelaus.data_drift.histogram_density_method:HistogramDensityMethod.set_reference")]
# the update() skeleton takes about three minutes (489 obligations over 29 paths): thorough tier
TARGETS_THOROUGH = [("fn", "menelaus.data_drift.histogram_density_method:HistogramDensityMethod.update")]
LEVEL = "exploration"
LEVEL_TEXT = ("Bounded: real HDDDM / CDBD against an independent recomputation of aligned histograms, distances, epsilons, the adaptive threshold (t-statistic / number of standard deviations), decisions, reference handling, feature_info and counters over multi-drift batch sequences for detect_batch in {1,2,3}, 1-3 features; distance identities sampled. Deductive (counted separately): _adaptive_threshold == the documented mean-plus-scaled-deviation of the epoch's epsilons, _hellinger_distance against a recursive spec with identity / symmetry / non-negativity lemmas, reset() for detect_batch 2 / 3; thorough tier: the update() skeleton for detect_batch 2 and 3 on HDDDM (frames, histograms and the distance function opaque; _build_histograms and _estimate_initial_epsilon assumed; _adaptive_threshold through the list-effect view of its verified contract): epsilon = |distance - previous distance| recorded for the batch and appended to the epoch's list, tested exactly from the detect_batch-th batch of the epoch on, drift <=> epsilon > beta, without drift the batch is appended to the reference (row counts), n and bins follow, with drift it replaces the reference and lambda restarts; class invariants tie the length of the epsilon list to the position in the epoch. detect_batch = 1 (reset() re-enters update()) and CDBD's wrapper are bounded only. Claimed as exploration.")
ASSUMPTIONS = A_COMMON + [
    'ASSUMED (unverified) contracts used by the update() skeleton: HistogramDensityMethod._build_histograms (some histograms, no side effect), _estimate_initial_epsilon (some real, no side effect); DataFrames are opaque values with a row count (pd.DataFrame(validated array), pd.concat, iloc columns, np.concatenate(...).min()/max() as uninterpreted functions); the distance function is a deterministic uninterpreted function of two opaque histograms',
    'the bootstrap estimate of the first epsilon is taken from the detector as an input of the specification']
