"""C07 -- HDDDM/CDBD alarm exactly when the distance change exceeds the adaptive bound."""
from .common import A_COMMON
HD = "menelaus.data_drift.hdddm:HDDDM"
TARGETS = [("fn", HD + "._adaptive_threshold"), ("fn", HD + "._hellinger_distance"),
           ("lemma", "hell_identity"), ("lemma", "hell_symmetric"), ("lemma", "hell_nonneg")]
LEVEL = "exploration"
LEVEL_TEXT = ('Bounded: real HDDDM / CDBD against an independent recomputation of aligned histograms, distances, epsilons, the adaptive threshold (t-statistic / number of standard deviations), decisions, reference handling, feature_info and counters over multi-drift batch sequences for detect_batch in {1,2,3}, 1-3 features; distance identities sampled. Claimed as exploration.')
ASSUMPTIONS = A_COMMON + ['the bootstrap estimate of the first epsilon is taken from the detector as an input of the specification']
