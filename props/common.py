"""shared target lists / assumptions"""
CD = "menelaus.concept_drift"
CH = "menelaus.change_detection"

SCALAR = {
    "DDM": CD + ".ddm:DDM", "EDDM": CD + ".eddm:EDDM", "STEPD": CD + ".stepd:STEPD",
    "PageHinkley": CH + ".page_hinkley:PageHinkley", "CUSUM": CH + ".cusum:CUSUM",
}

A_COMMON = [
    "A-REAL: float arithmetic is treated as mathematical real arithmetic (no rounding, overflow, NaN); float literals "
    "denote their decimal value; a division whose divisor may be 0 yields an unconstrained value",
    "int: Python integers are unbounded mathematical integers (exact)",
    "A-TERM: termination is not proved",
    "A-SEQ: single-threaded use (LinearFourRates(parallelize=True) is outside every proof)",
    "A-NOSUB: no user subclass overrides the methods under contract; A-PARAM: constructor parameters are not mutated "
    "by the user between calls (the proofs show the code never writes them)",
    "A-NDIM: user inputs have at most two dimensions after np.array()",
    "input model: a label argument is abstracted by its number of elements and its first element (an uninterpreted "
    "Label with equality only; 0/1 for LinearFourRates); a feature argument by DataFrame-or-not, its columns object, "
    "shape and cell values; numpy/pandas coercions (np.array, ravel, reshape, DataFrame.values/.columns, Index.equals) "
    "follow the shape-level model in pyvc/arrays.py",
    "trusted: pyvc's encoding of the Python subset (validated by mutation canaries and the concrete re-evaluation of "
    "every contract on the real classes), z3 5.1 / cvc5 1.0",
]
