"""C08 -- the kdq-tree partitions space consistently and conserves counts."""
from .common import A_COMMON
N = "menelaus.partitioners.KDQTreePartitioner:KDQTreeNode"
P = "menelaus.partitioners.KDQTreePartitioner:KDQTreePartitioner"
TARGETS = [("fn", N + ".build"), ("fn", N + ".fill"), ("fn", N + ".reset"), ("fn", P + ".build"), ("fn", P + ".fill"), ("fn", P + ".reset"),
           ("fn", P + "._distn_from_counts"),
           ("lemma", "mcount_range"), ("lemma", "mcount_complement"), ("lemma", "mcount_pos"),
           ("lemma", "corrected_sum"), ("lemma", "vsum_nonneg"), ("lemma", "kl_lower_bound"), ("lemma", "kl_identity")]
LEVEL = "exploration"
LEVEL_TEXT = ('Bounded: KDQTreePartitioner structural invariants and count conservation on point sets over small integer grids, duplicated rows and continuous data, 1-3 dimensions, count_ubound 1-5, fill sequences under three ids with and without reset, distributions, KL, plotly frame incl. KSS. '
              'Deductive (counted separately): the recursive KDQTreeNode.build / fill / reset and KDQTreePartitioner.build (minimum cell size of feature a = int(proportion * (max - min of column a)), then KDQTreeNode.build through its contract; non-empty data) / fill / reset are proved against contracts with the object-invariant methodology for trees '
              '(every node: leaf or internal with both children; for every tree id a node has a count iff both children do and then it is the sum of theirs): build returns a node whose build count is the number of rows, '
              'splits exactly the axis depth mod width at min + range/2, never splits count_ubound rows or fewer, and gives both children at least one row (mask-count lemmas: the <= / > masks are complementary); '
              'fill adds the number of rows to the count of the id at every node it passes (or restarts it when reset / absent), leaves every other id alone and re-establishes the sum invariant; reset(0) likewise. '
              '_distn_from_counts is the +0.5-corrected distribution summing to one; Gibbs inequality (kl_sum >= sum p - sum q, = 0 for p = q) is proved for the recursive spec of the divergence. '
              'Not reached deductively: which leaf a point lands in (cell membership), the leaves list, KDQTreePartitioner.build (the cut-point comprehension), leaf_counts / kl_distance glue (scipy.stats.entropy), the plotly frame. Claimed as exploration.')
ASSUMPTIONS = A_COMMON + [
    "A-TREE-INV: in the pre-state of every call every tree node satisfies the class invariant (assumed for the node passed in and its children; each function under contract re-establishes it for the node it is given, recursive calls for their subtrees)",
    "A-TREE-WIDTH: split axes of an existing tree are valid columns of the data being filled (the tree was built for data of this width)",
    "A-LIST: lazily materialised tree nodes are pairwise distinct objects (subtrees of different children are disjoint, the tree is acyclic); recursion is used through its own contract (partial correctness, A-TERM)",
    "A-MAT2 (see C20); boolean-mask row selection yields a matrix with mcount(mask) rows whose cells are not tracked; np.min / np.max / np.ptp bound every element and are attained; np.unique(data).size is some count >= 1",
    "scipy.stats.entropy(p, q) is not linked to kl_sum deductively (bounded tier compares kl_distance with an independent computation)",
]
