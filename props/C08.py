"""C08 -- the kdq-tree partitions space consistently and conserves counts."""
from .common import A_COMMON
TARGETS = []
LEVEL = "exploration"
LEVEL_TEXT = ('Bounded: KDQTreePartitioner structural invariants and count conservation on point sets over small integer grids, duplicated rows and continuous data, 1-3 dimensions, count_ubound 1-5, fill sequences under three ids with and without reset, distributions, KL, plotly frame incl. KSS. Claimed as exploration.')
ASSUMPTIONS = A_COMMON + []
