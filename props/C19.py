"""C19 -- MD3 follows its warn / ask-the-oracle / confirm protocol."""
from .common import A_COMMON
TARGETS = []
LEVEL = "exploration"
LEVEL_TEXT = ('Bounded: real MD3 (deterministic stub classifier, user margin function) against a plain-Python protocol state machine on all interleavings of legal and illegal calls up to a bounded length, reference statistics against an independent k-fold computation. Claimed as exploration.')
ASSUMPTIONS = A_COMMON + []
