"""C19 -- MD3 follows its warn / ask-the-oracle / confirm protocol."""
from .common import A_COMMON
Q = "menelaus.concept_drift.md3:MD3"
TARGETS = [("fn", Q + ".update"), ("fn", Q + ".give_oracle_label"), ("fn", Q + ".set_reference"), ("fn", Q + ".reset"),
           ("fn", Q + ".calculate_distribution_statistics")]
LEVEL = "exploration"
LEVEL_TEXT = ('Bounded: real MD3 (deterministic stub classifier, user margin function) against a plain-Python protocol state machine on all interleavings of legal and illegal calls up to a bounded length, reference statistics against an independent k-fold computation. '
              'Deductive (counted separately): the protocol skeleton of MD3.update / give_oracle_label / set_reference / reset is proved against contracts over '
              'opaque pandas / sklearn values: update raises exactly when waiting for the oracle or the input is not one row and then changes nothing; the margin density is the '
              'exponentially forgotten value (restarted from the reference after a drift); warning <=> |md - ref.md| > sensitivity*ref.md_std <=> waiting_for_oracle; '
              'give_oracle_label raises exactly when not waiting / not one row / columns differ, collects until exactly oracle_data_length_required samples, then decides drift by '
              'ref.acc - acc > sensitivity*ref.acc_std, adopts the samples as the new reference and stops waiting. calculate_distribution_statistics is verified with its k-fold loop abstracted (the loop body is not verified: the record it returns has len == len(data) and non-negative deviations, whatever the folds give); '
              'classifier, margin function, accuracy_score are deterministic uninterpreted functions. Claimed as exploration because the k-fold statistics are bounded only.')
ASSUMPTIONS = A_COMMON + [
    "A-OPAQUE-PANDAS: DataFrames are opaque values characterised by row count and column objects; .loc / [] / concat / to_numpy are uninterpreted functions with row-count axioms; copy.deepcopy of them is the identity (aliasing of DataFrames not modelled)",
    "assumed contract: MD3.calculate_distribution_statistics returns len == len(data), md_std >= 0, acc_std >= 0 and modifies nothing (bounded tier compares against an independent k-fold computation)",
]
