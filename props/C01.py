"""C01 -- drift state, counters and warm-up follow the detector lifecycle contract."""
from .common import SCALAR, A_COMMON
TARGETS = []
for c in ("DDM", "EDDM", "STEPD", "PageHinkley", "CUSUM"):
    TARGETS += [("fn", SCALAR[c] + ".__init__"), ("fn", SCALAR[c] + ".update"), ("fn", SCALAR[c] + ".reset")]
TARGETS += [("fn", "menelaus.change_detection.adwin:ADWIN.update"), ("fn", "menelaus.data_drift.kdq_tree:KdqTreeStreaming.update"),
            ("fn", "menelaus.data_drift.kdq_tree:KdqTreeStreaming.reset"), ("fn", "menelaus.data_drift.pca_cd:PCACD.update"),
            ("fn", "menelaus.data_drift.kdq_tree:KdqTreeBatch.update"), ("fn", "menelaus.data_drift.nndvi:NNDVI.update"),
            ("fn", "menelaus.concept_drift.md3:MD3.update"), ("fn", "menelaus.concept_drift.md3:MD3.give_oracle_label"),
            ("fn", "menelaus.concept_drift.lfr:LinearFourRates.update@tnr")]
TARGETS_THOROUGH = [("fn", "menelaus.data_drift.histogram_density_method:HistogramDensityMethod.update")]
SUPPORT = [SCALAR[c] + ".reset" for c in SCALAR]
LEVEL = "proof"
ASSUMPTIONS = A_COMMON + [
    "per-detector table (restart value, warm-up bound) is the property's own table",
]
