"""C06 -- Linear Four Rates tracks the four rates and tests them against simulated bounds."""
from .common import A_COMMON
TARGETS = []
LEVEL = "exploration"
LEVEL_TEXT = ('Bounded: real LinearFourRates against a plain-Python specification with the Monte-Carlo bounds re-drawn under the same numpy seed schedule (confusion matrix, rates, statistic update rule, burn_in / subsample, tracked subsets, bounds cache keyed by rounded rate / denominator, retraining_recs). Statistical validity of the bounds is not claimed. Claimed as exploration.')
ASSUMPTIONS = A_COMMON + ['parallelize=True (joblib threads) is excluded (A-SEQ)']
