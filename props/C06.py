"""C06 -- Linear Four Rates tracks the four rates and tests them against simulated bounds."""
from .common import A_COMMON
Q = "menelaus.concept_drift.lfr:LinearFourRates"
TARGETS = [("fn", Q + "._get_four_rates"), ("fn", Q + "._get_four_denominators"), ("fn", Q + ".update@tnr"),
           ("fn", Q + ".update@tpr_ppv"), ("fn", Q + "._update_bounds_dict"), ("fn", Q + "._sim_bounds")]
TARGETS_THOROUGH = [("fn", Q + ".update@all")]
LEVEL = "exploration"
LEVEL_TEXT = ('Bounded: real LinearFourRates against a plain-Python specification with the Monte-Carlo bounds re-drawn under the same numpy seed schedule (confusion matrix, rates, statistic update rule, burn_in / subsample, tracked subsets, bounds cache keyed by rounded rate / denominator, retraining_recs). Statistical validity of the bounds is not claimed. Claimed as exploration.')
ASSUMPTIONS = A_COMMON + ['parallelize=True (joblib threads) is excluded from the deductive tier and, with several tracked rates, from the bounded tier (A-SEQ: the threads race on the global numpy generator); with ONE tracked rate the parallel branch is a single task and is checked boundedly against the same specification',
    "LinearFourRates._update_bounds_dict returns some record of four bounds and may extend the cache, touching nothing else: verified "
    "with the cache as an opaque dictionary of dictionaries of bound records (reads arbitrary, writes dropped); _sim_bounds returns a "
    "record of four reals and modifies nothing: verified with the Monte-Carlo block (exps .. result_vector) ABSTRACTED, i.e. not verified; "
    "WHICH record is used (cached under the rounded key or freshly simulated) and its statistical meaning: bounded tier only",
    "labels are 0/1 integers (the int(1 * y) casts are identities on them); other encodings of 0/1 are checked boundedly (C16)"]
