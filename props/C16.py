"""C16 -- only agreement between label and prediction matters; unused arguments are never read."""
from .common import SCALAR, A_COMMON
TARGETS = [("rel", "%s_agreement_only" % c) for c in ("DDM", "EDDM", "STEPD")] + \
          [("fn", SCALAR[c] + ".update") for c in SCALAR] + \
          [("fn", "menelaus.change_detection.adwin:ADWIN.update"), ("fn", "menelaus.concept_drift.adwin_accuracy:ADWINAccuracy.update"),
           ("fn", "menelaus.data_drift.kdq_tree:KdqTreeStreaming.update"), ("fn", "menelaus.data_drift.kdq_tree:KdqTreeBatch.update"),
           ("fn", "menelaus.data_drift.nndvi:NNDVI.update"), ("fn", "menelaus.data_drift.nndvi:NNDVI.set_reference"), ("fn", "menelaus.data_drift.kdq_tree:KdqTreeBatch.set_reference"),
           ("fn", "menelaus.data_drift.histogram_density_method:HistogramDensityMethod.set_reference"),
           ("fn", "menelaus.concept_drift.lfr:LinearFourRates.update@tnr")]
TARGETS_THOROUGH = [("fn", "menelaus.data_drift.histogram_density_method:HistogramDensityMethod.update")]
LEVEL = "proof"
ASSUMPTIONS = A_COMMON + [
    "labels are values of an uninterpreted sort with equality only: any other use of a label (arithmetic, truthiness, "
    "ordering) is a failed obligation ('LabelArithmetic')",
    "relational obligations: the same real update() is executed from the same symbolic pre-state with two label pairs "
    "of equal agreement; post-states must coincide",
]
