"""C17 -- a stricter confidence setting never makes a detector alarm earlier."""
from .common import A_COMMON
TARGETS = [("rel", n) for n in ("DDM_drift_scale", "EDDM_drift_thresh", "STEPD_alpha_drift", "PageHinkley_threshold",
                                "CUSUM_threshold", "ADWIN_delta", "HDM_significance", "DDM_warning_scale", "EDDM_warning_thresh", "STEPD_alpha_warning")]
LEVEL = "proof"
ASSUMPTIONS = A_COMMON + [
    "two-run obligation per update: identical statistics and input, only the threshold differs; as long as neither run "
    "has alarmed the statistics stay identical and the stricter run alarms only if the looser one does; the induction "
    "over the history (first alarm of the stricter run is never earlier) follows from this simulation step",
    "PageHinkley: thresholds are positive (theta = threshold * mean)",
    "norm.cdf monotone (axiom)",
    "HDDDM / CDBD: relational obligation on _adaptive_threshold (t.ppf monotone in the level: axiom); kdq-tree alpha, "
    "NN-DVI alpha, LFR levels: bounded tier only (their thresholds are quantiles of simulated / bootstrapped samples)",
    "ADWIN: the relational obligation is on _check_epsilon (the only place delta is read): equal window statistics, "
    "delta1 <= delta2 => (cut under delta1 => cut under delta2); window of at least 2 inputs, variance >= 0",
]
