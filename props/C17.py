"""C17 -- a stricter confidence setting never makes a detector alarm earlier."""
from .common import A_COMMON
TARGETS = [("rel", n) for n in ("DDM_drift_scale", "EDDM_drift_thresh", "STEPD_alpha_drift", "PageHinkley_threshold",
                                "CUSUM_threshold", "ADWIN_delta", "HDM_significance", "DDM_warning_scale", "EDDM_warning_thresh", "STEPD_alpha_warning",
                                "NNDVI_alpha", "KdqTreeStreaming_alpha", "KdqTreeBatch_alpha", "LFR_detect_level", "LFR_warning_level")]
LEVEL = "proof"
ASSUMPTIONS = A_COMMON + [
    "two-run obligation per update: identical statistics and input, only the threshold differs; as long as neither run "
    "has alarmed the statistics stay identical and the stricter run alarms only if the looser one does; the induction "
    "over the history (first alarm of the stricter run is never earlier) follows from this simulation step",
    "PageHinkley: thresholds are positive (theta = threshold * mean)",
    "norm.cdf monotone (axiom)",
    "HDDDM / CDBD: relational obligation on _adaptive_threshold (t.ppf monotone in the level: axiom)",
    "kdq-tree alpha, NN-DVI alpha, LFR levels (thresholds that are quantiles of simulated / bootstrapped samples): two-run "
    "obligation on the function that computes the critical value (_get_critical_kld, _compute_drift_threshold, _sim_bounds): "
    "same inputs, only the level differs => the critical value moves the right way (and, LFR, the bounds of the other level "
    "do not move). The sampling part of each function (bootstrap loop, permutation loop, Monte-Carlo block) is ABSTRACTED - "
    "its body is not verified - and shown by a syntactic dependency analysis (pyvc/taint.py) not to read the level, so both "
    "runs draw the same sample under one random seed schedule; the tail (norm.fit + norm.ppf, entropies + np.quantile, four "
    "np.percentile calls) is executed symbolically. Axioms: np.quantile / np.percentile of a fixed sample is monotone in "
    "the level, norm.ppf(q, mu, std) == mu + std * ppf01(q) with ppf01 monotone and std >= 0, a comprehension whose element "
    "mentions only its own variables and non-random library functions is a deterministic function of its list. That the "
    "detector's decision is 'statistic beyond the critical value' is the C06 / C09 / C10 contract of update(); composing "
    "the two (stricter level => decision implies the looser decision) is a meta-step, not mechanised; the bounded tier "
    "checks the composed statement on real runs",
    "ADWIN: the relational obligation is on _check_epsilon (the only place delta is read): equal window statistics, "
    "delta1 <= delta2 => (cut under delta1 => cut under delta2); window of at least 2 inputs, variance >= 0",
]
