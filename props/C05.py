"""C05 -- DDM, EDDM and STEPD decide from the error sequence exactly as specified."""
from .common import SCALAR, A_COMMON
TARGETS = [("fn", SCALAR[c] + ".update") for c in ("DDM", "EDDM", "STEPD")] + \
          [("fn", SCALAR[c] + ".__init__") for c in ("DDM", "EDDM", "STEPD")] + \
          [("fn", SCALAR["STEPD"] + "." + f) for f in ("recent_accuracy", "past_accuracy", "overall_accuracy")] + \
          [("lemma", n) for n in ("welford_nonneg", "vsum_frame", "vsum_split", "vsum_bits")]
SUPPORT = [SCALAR[c] + ".__init__" for c in ("DDM", "EDDM", "STEPD")]
LEVEL = "proof"
ASSUMPTIONS = A_COMMON + [
    "specification source: the property statement and the class docstrings; DDM thresholds use the current deviation "
    "(as the code and the property's mechanism entry do; the class docstring says s_min -- documentation discrepancy)",
    "STEPD: the window content is specified through its length, its sum (_s) and the epoch total (_r + _s == number of "
    "correct predictions); that the window holds exactly the *most recent* outcomes is checked by the bounded tier only",
    "scipy.stats.norm.cdf, sqrt: axiomatised uninterpreted functions",
]
