"""C20 -- drift injectors change only the window and columns they are asked to change."""
from .common import A_COMMON
FM = "menelaus.injection.feature_manipulation:"
LM = "menelaus.injection.label_manipulation:"
NZ = "menelaus.injection.noise:"
TARGETS = [("fn", FM + "FeatureShiftInjector.__call__"), ("fn", FM + "FeatureSwapInjector.__call__"),
           ("fn", LM + "LabelSwapInjector.__call__"), ("fn", LM + "LabelJoinInjector.__call__"),
           ("fn", NZ + "BrownianNoiseInjector._random_walk"), ("fn", NZ + "BrownianNoiseInjector.__call__"),
           ("fn", LM + "LabelProbabilityInjector.__call__"), ("fn", LM + "LabelDirichletInjector.__call__"),
           ("lemma", "swap_class_involution")]
LEVEL = "exploration"
LEVEL_TEXT = ('Bounded: every injector on ndarray / DataFrame data over all windows 0 <= from <= to <= n (exhaustive for small n), fresh and re-used instances: type, shape, labels, untouched cells, documented effect inside the window. Class frequencies of the resampling injectors are a statistical claim and not covered. '
              'Deductive (counted separately): FeatureShift / FeatureSwap / LabelSwap / LabelJoin / BrownianNoise __call__ (with Injector._preprocess / _postprocess inlined, both container cases, arbitrary remembered _columns) '
              'are proved against contracts over content-level 2-D arrays: same container type, shape and labels; every cell outside the window rows or the targeted columns equals the input cell; inside the window exactly the documented effect '
              '(shift by shift_factor*(alpha + window mean); the two columns exchanged; classes exchanged by swap_class, an involution by lemma; classes merged; a random walk from x0 with +-1/sqrt(steps) increments, _random_walk proved with a loop invariant); the input is not modified. '
              'LabelProbabilityInjector / LabelDirichletInjector: same container, rows outside the window unchanged, every row of the window is a copy of some row of the input window (index bag invariant over the class loop), input untouched; their probability bookkeeping is opaque, so the class frequencies are decided by the bounded tier only (exact for zero probabilities, 6 sigma otherwise). '
              'FeatureCoverInjector (pandas groupby / sample) is bounded only, hence exploration.')
ASSUMPTIONS = A_COMMON + [
    "A-MAT2: 2-D numpy arrays are total maps (row, column) -> real with exact lambda-array semantics for slices, column lists, boolean masks and np.where index sets; negative column indices and dtype coercion on assignment are outside the model (obligation col-in-range demands 0 <= c < width)",
    "A-UNIQUE-COLS: DataFrame column labels are integer codes and Index.get_loc is injective on present labels (unique column index)",
    "np.random.choice([1, -1]) is an arbitrary member of the list; np.random.choice(list, n, True, p) an arbitrary sequence of n members; np.random.seed / dirichlet have no modelled effect",
    "A-OPAQUE-COLL: the class-probability dicts / lists of the resampling injectors are opaque collections (reads are arbitrary values, writes dropped); np.unique(vector) is a sequence of arbitrary values no longer than the vector",
]
