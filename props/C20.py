"""C20 -- drift injectors change only the window and columns they are asked to change."""
from .common import A_COMMON
TARGETS = []
LEVEL = "exploration"
LEVEL_TEXT = ('Bounded: every injector on ndarray / DataFrame data over all windows 0 <= from <= to <= n (exhaustive for small n), fresh and re-used instances: type, shape, labels, untouched cells, documented effect inside the window. Class frequencies of the resampling injectors are a statistical claim and not covered. Claimed as exploration.')
ASSUMPTIONS = A_COMMON + []
