"""C12 -- an ensemble is its election applied to members that run exactly as if alone."""
from .common import A_COMMON
M = "menelaus.ensemble.ensemble"
TARGETS = [("fn", M + ":StreamingEnsemble.update"), ("fn", M + ":BatchEnsemble.update"),
           ("fn", M + ":StreamingEnsemble.reset"), ("fn", M + ":BatchEnsemble.reset"),
           ("fn", M + ":BatchEnsemble.set_reference"),
           ("fn", M + ":StreamingEnsemble.drift_states@getter"), ("fn", M + ":BatchEnsemble.drift_states@getter"),
           ("fn", M + ":StreamingEnsemble.retraining_recs@getter"), ("fn", M + ":BatchEnsemble.retraining_recs@getter")]
LEVEL = "proof"
ASSUMPTIONS = A_COMMON + [
    "member model: a member detector is a value of an uninterpreted sort whose state lives in a store; its update / reset "
    "/ set_reference are uninterpreted deterministic state transformers (upd, rst, setref); 'as if alone' is the equation "
    "mstate(member) == upd(old mstate(member), selected X, y_true, y_pred)",
    "A-DISTINCT: the members are pairwise distinct objects (precondition) and distinct from the ensemble",
    "column selectors: defaultdict(identity) updated with the user's dict, modelled as has(key) / apply(key, X)",
    "the election object is a callable whose returned value is elect(election, member list, member states) in "
    "{None, 'warning', 'drift'} (proved for the four election classes under C13)",
    "retraining_recs view (dict built in a loop with hasattr): loop invariant over a keyed map (has / value arrays over member "
    "identifiers): exactly the members for which hasattr(member, 'retraining_recs') holds are keys, each maps to recs_of(member "
    "state), nothing else is a key (kexact: recursive membership function), member states untouched; hasattr and the attribute "
    "value are uninterpreted functions of the member / its state; the truth value of such an opaque attribute is never assumed",
]
