"""C04 -- CUSUM and Page-Hinkley apply their sequential tests to the current observations."""
from .common import SCALAR, A_COMMON
TARGETS = [("fn", SCALAR[c] + ".update") for c in ("PageHinkley", "CUSUM")] + \
          [("fn", SCALAR[c] + ".__init__") for c in ("PageHinkley", "CUSUM")]
SUPPORT = [SCALAR[c] + ".__init__" for c in ("PageHinkley", "CUSUM")]
LEVEL = "proof"
ASSUMPTIONS = A_COMMON + [
    "np.mean / np.std of the stream are uninterpreted functions of the element sequence (std >= 0)",
    "PageHinkley: direction in ('positive', 'negative'), burn_in >= 0; CUSUM: burn_in >= 1 (preconditions)",
    "StreamingDetector._validate_X is used through its contract (proved separately under C14)",
]
