"""C18 -- batch detectors ignore the order of rows inside a batch."""
from .common import A_COMMON
TARGETS = []
LEVEL = "exploration"
LEVEL_TEXT = ("Bounded: HDDDM / CDBD (detect_batch 2, 3), KdqTreeBatch and NNDVI are run on batch sequences and on the same "
              "sequences with the rows of every batch (and of the reference) permuted, under one numpy seed schedule; the "
              "measured divergence must coincide, and the decisions where the threshold is position-free. No obligation is "
              "discharged deductively for this property in this round (the permutation proofs of DESIGN.md 9/C18 are not "
              "built); claimed as exploration.")
ASSUMPTIONS = A_COMMON
