"""C18 -- batch detectors ignore the order of rows inside a batch."""
from .common import A_COMMON
TARGETS = [("lemma", "mcount_frame"), ("lemma", "mcount_store"), ("lemma", "mcount_swap"),
           ("fn", "menelaus.detector:BatchDetector._validate_X"),
           ("fn", "menelaus.partitioners.KDQTreePartitioner:KDQTreePartitioner.build")]
LEVEL = "exploration"
LEVEL_TEXT = ("Bounded: HDDDM / CDBD (detect_batch 2, 3), KdqTreeBatch and NNDVI are run on batch sequences and on the same "
              "sequences with the rows of every batch (and of the reference) permuted, under one numpy seed schedule; the "
              "measured divergence must coincide, and the decisions where the threshold is position-free. "
              "Deductive (counted separately, lemmas and the shared input validator only): BatchDetector._validate_X returns exactly the rows of the batch, each once, whatever the row labels of a DataFrame; KDQTreePartitioner.build derives the minimum cell sizes from per-column maxima and minima (order-free summaries) and hands the data to KDQTreeNode.build; the number of rows satisfying a predicate - a histogram bin, a "
              "kdq-tree cell, which is how the proved KDQTreeNode.fill / build contracts count (mcount of the split masks) - is "
              "unchanged when two rows are exchanged (mcount_store, mcount_swap by induction), hence under every permutation (a "
              "product of exchanges; that last step is a meta-argument, not mechanised). The permutation proofs for the "
              "detectors themselves (DESIGN.md 9/C18) are not built; claimed as exploration.")
ASSUMPTIONS = A_COMMON

TECHNIQUE = ("bounded stand-in decides this property (differential runs on row-permuted batches, labelled bounded, never counted as proved); "
             "contract-based deductive verification contributes lemmas (mask counts are invariant under exchanging two rows) and the contract of the shared batch validator (pyvc, z3)")
