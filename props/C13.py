"""C13 -- each election returns exactly what its voting rule says for every vote pattern."""
M = "menelaus.ensemble.election"
TARGETS = [
    ("fn", M + ":SimpleMajorityElection.__call__"),
    ("fn", M + ":MinimumApprovalElection.__call__"),
    ("fn", M + ":OrderedApprovalElection.__call__"),
    ("fn", M + ":ConfirmedElection.__init__"),
    ("fn", M + ":ConfirmedElection.__call__"),
    ("lemma", "ndrift_bounds"),
    ("lemma", "ndrift_mono"),
    ("lemma", "ndrift_vote_monotone"),
    ("lemma", "voter_window_step"),
]
LEVEL = "proof"
ASSUMPTIONS = [
    "A-NOSUB: no user subclass overrides the methods under contract",
    "A-SEQ: single-threaded use",
    "A-TERM: termination is not proved (loops are over finite lists)",
    "members expose drift_state in {None, 'warning', 'drift'} or any other value (treated as 'other')",
    "MinimumApprovalElection: approvals_needed >= 1 (documented domain); OrderedApprovalElection: "
    "approvals_needed, confirmations_needed >= 0 and not both 0; ConfirmedElection: wait_time >= 0 and a fixed "
    "number of members between calls",
]
