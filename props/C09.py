"""C09 -- kdq-tree detectors alarm exactly when leaf divergence exceeds a bootstrap bound."""
from .common import A_COMMON
KS = "menelaus.data_drift.kdq_tree:KdqTreeStreaming"
TARGETS = [("fn", KS + ".update"), ("fn", KS + ".reset")]
LEVEL = "exploration"
LEVEL_TEXT = ('Bounded: KdqTreeBatch / KdqTreeStreaming against the rule recomputed from public outputs with the bootstrap re-drawn under the same seed (critical value, per-batch replacement of test counts, window / silence / persistence schedule, reference replacement). Claimed as exploration.')
ASSUMPTIONS = A_COMMON + [
    "ASSUMED (unverified) contract: KdqTreeDetector._inner_set_reference (builds the tree, draws the bootstrap critical "
    "value, resets the epoch); KDQTreePartitioner.fill / kl_distance are opaque in the skeleton proof (their claims are C08)",
]
