"""C09 -- kdq-tree detectors alarm exactly when leaf divergence exceeds a bootstrap bound."""
from .common import A_COMMON
TARGETS = []
LEVEL = "exploration"
LEVEL_TEXT = ('Bounded: KdqTreeBatch / KdqTreeStreaming against the rule recomputed from public outputs with the bootstrap re-drawn under the same seed (critical value, per-batch replacement of test counts, window / silence / persistence schedule, reference replacement). Claimed as exploration.')
ASSUMPTIONS = A_COMMON + []
