"""C09 -- kdq-tree detectors alarm exactly when leaf divergence exceeds a bootstrap bound."""
from .common import A_COMMON
KS = "menelaus.data_drift.kdq_tree:KdqTreeStreaming"
KB = "menelaus.data_drift.kdq_tree:KdqTreeBatch"
TARGETS = [("fn", KS + ".update"), ("fn", KS + ".reset"), ("fn", KB + ".update"), ("fn", KB + ".set_reference"), ("fn", KB + ".reset")]
LEVEL = "exploration"
LEVEL_TEXT = ('Bounded: KdqTreeBatch / KdqTreeStreaming against the rule recomputed from public outputs with the bootstrap re-drawn under the same seed (critical value, per-batch replacement of test counts, window / silence / persistence schedule, reference replacement). Deductive (counted separately): the control skeleton of KdqTreeStreaming.update / reset (window / silence / persistence schedule) and of KdqTreeBatch.update / set_reference / reset (first batch becomes the reference silently; afterwards drift <=> stored divergence > stored critical value; the drifted batch is remembered cell by cell and the tree is rebuilt from a block with its row count before the next batch is examined - ghost ref_rows) is proved with the partitioner opaque and _inner_set_reference assumed. Claimed as exploration.')
ASSUMPTIONS = A_COMMON + [
    "ASSUMED (unverified) contract: KdqTreeDetector._inner_set_reference (builds the tree, draws the bootstrap critical "
    "value, resets the epoch); KDQTreePartitioner.fill / kl_distance are opaque in the skeleton proof (their claims are C08)",
]
