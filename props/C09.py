"""C09 -- kdq-tree detectors alarm exactly when leaf divergence exceeds a bootstrap bound."""
from .common import A_COMMON
KS = "menelaus.data_drift.kdq_tree:KdqTreeStreaming"
KB = "menelaus.data_drift.kdq_tree:KdqTreeBatch"
TARGETS = [("fn", KS + ".update"), ("fn", KS + ".reset"), ("fn", KB + ".update"), ("fn", KB + ".set_reference"), ("fn", KB + ".reset"),
           ("fn", KS + "._inner_set_reference"), ("fn", KB + "._inner_set_reference"),
           ("fn", KS + "._get_critical_kld"), ("fn", KB + "._get_critical_kld")]
LEVEL = "exploration"
LEVEL_TEXT = ('Bounded: KdqTreeBatch / KdqTreeStreaming against the rule recomputed from public outputs with the bootstrap re-drawn under the same seed (critical value, per-batch replacement of test counts, window / silence / persistence schedule, reference replacement). Deductive (counted separately): the control skeleton of KdqTreeStreaming.update / reset (window / silence / persistence schedule) and of KdqTreeBatch.update / set_reference / reset (first batch becomes the reference silently; afterwards drift <=> stored divergence > stored critical value; the drifted batch is remembered cell by cell and the tree is rebuilt from a block with its row count before the next batch is examined - ghost ref_rows) is proved with the partitioner opaque and _inner_set_reference assumed. Claimed as exploration.')
ASSUMPTIONS = A_COMMON + [
    "KdqTreeDetector._get_critical_kld (the Monte-Carlo critical value: some real number, no side effect) is verified per "
    "receiver class with its bootstrap loop ABSTRACTED (the loop body is not verified; the tail - entropies, np.quantile - is); "
    "its monotonicity in alpha is the two-run obligation KdqTree*_alpha under C17; KDQTreePartitioner is an opaque object in the skeleton proofs (construction, build, fill, kl_distance; "
    "leaf_counts of a build add up to the rows built - the C08 conservation claim); _inner_set_reference itself is verified per receiver class",
]
