"""C02 -- after a drift (or a new reference) a detector starts from a clean slate."""
from .common import SCALAR, A_COMMON
TARGETS = [("rel", "%s_reset_fresh" % c) for c in ("DDM", "EDDM", "STEPD", "PageHinkley")] + \
          [("frame", "%s_update_reads" % c) for c in ("DDM", "EDDM", "STEPD", "PageHinkley")] + \
          [("rel", "%s_index_free" % c) for c in ("DDM", "EDDM", "STEPD", "PageHinkley", "CUSUM")] + \
          [("fn", SCALAR[c] + ".reset") for c in ("DDM", "EDDM", "STEPD", "PageHinkley", "CUSUM")] + \
          [("fn", SCALAR[c] + ".update") for c in ("DDM", "EDDM", "STEPD", "PageHinkley")] + \
          [("fn", SCALAR["CUSUM"] + ".update"), ("fn", "menelaus.data_drift.kdq_tree:KdqTreeStreaming.reset"), ("fn", "menelaus.data_drift.kdq_tree:KdqTreeBatch.reset"),
           ("fn", "menelaus.data_drift.histogram_density_method:HistogramDensityMethod.reset"),
           ("fn", "menelaus.data_drift.histogram_density_method:HistogramDensityMethod.set_reference")]
LEVEL = "proof"
ASSUMPTIONS = A_COMMON + [
    "clean slate = (i) reset() re-establishes the constructor's post-state on every per-epoch field (relational "
    "obligation reset vs __init__), (ii) every field update() reads is a parameter, a per-epoch field, a documented "
    "carry-over, the input-shape memo or the running index (read-set frame obligation), (iii) update() performs that "
    "reset itself on the update that follows a drift: the epoch counter restarts at 1 there (clause tagged C01,C02 of each update, "
    "these functions are C02 targets; the C01/C05 postconditions use the epoch-start values), (iv) update() is "
    "blind to the running index: two-run obligation *_index_free - same epoch state, different lifetime sample counts and "
    "correspondingly shifted retraining indices => same epoch state, same drift state, same exceptions and equally "
    "shifted indices afterwards (DDM, EDDM, STEPD, PageHinkley, CUSUM); (i) + (iv) are the base and the step of the "
    "simulation 'after a drift the detector behaves like a fresh one'; the induction over the history is the meta-argument",
]
