"""C02 -- after a drift (or a new reference) a detector starts from a clean slate."""
from .common import SCALAR, A_COMMON
TARGETS = [("rel", "%s_reset_fresh" % c) for c in ("DDM", "EDDM", "STEPD", "PageHinkley")] + \
          [("frame", "%s_update_reads" % c) for c in ("DDM", "EDDM", "STEPD", "PageHinkley")] + \
          [("fn", SCALAR[c] + ".reset") for c in ("DDM", "EDDM", "STEPD", "PageHinkley", "CUSUM")] + \
          [("fn", SCALAR["CUSUM"] + ".update"), ("fn", "menelaus.data_drift.kdq_tree:KdqTreeStreaming.reset"), ("fn", "menelaus.data_drift.kdq_tree:KdqTreeBatch.reset"),
           ("fn", "menelaus.data_drift.histogram_density_method:HistogramDensityMethod.reset"),
           ("fn", "menelaus.data_drift.histogram_density_method:HistogramDensityMethod.set_reference")]
LEVEL = "proof"
ASSUMPTIONS = A_COMMON + [
    "clean slate = (i) reset() re-establishes the constructor's post-state on every per-epoch field (relational "
    "obligation reset vs __init__), (ii) every field update() reads is a parameter, a per-epoch field, a documented "
    "carry-over, the input-shape memo or the running index (read-set frame obligation), (iii) update() performs that "
    "reset itself on the update that follows a drift (C01/C05 postconditions use the epoch-start values); update being "
    "a deterministic function of the fields it reads, later outputs equal those of a fresh detector (index shifted)",
]
