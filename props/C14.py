"""C14 -- uniform input validation; rejected inputs do no harm; containers don't matter."""
from .common import SCALAR, A_COMMON
TARGETS = [("fn", "menelaus.detector:StreamingDetector._validate_X"),
           ("fn", "menelaus.detector:BatchDetector._validate_X"),
           ("fn", "menelaus.detector:StreamingDetector._validate_y")] + \
          [("fn", SCALAR[c] + ".update") for c in SCALAR] + \
          [("fn", "menelaus.change_detection.adwin:ADWIN.update"), ("fn", "menelaus.concept_drift.adwin_accuracy:ADWINAccuracy.update"),
           ("fn", "menelaus.data_drift.kdq_tree:KdqTreeStreaming.update"),
           ("fn", "menelaus.concept_drift.lfr:LinearFourRates.update@tnr"),
           ("fn", "menelaus.data_drift.kdq_tree:KdqTreeBatch.update"), ("fn", "menelaus.data_drift.kdq_tree:KdqTreeBatch.set_reference"), ("fn", "menelaus.data_drift.nndvi:NNDVI.update"), ("fn", "menelaus.data_drift.nndvi:NNDVI.set_reference"),
           ("fn", "menelaus.data_drift.histogram_density_method:HistogramDensityMethod.set_reference"),
           ("fn", "menelaus.data_drift.cdbd:CDBD.update"), ("fn", "menelaus.data_drift.cdbd:CDBD.set_reference")]
TARGETS_THOROUGH = [("fn", "menelaus.data_drift.histogram_density_method:HistogramDensityMethod.update")]
LEVEL = "proof"
ASSUMPTIONS = A_COMMON + [
    "a rejected call is harmless *modulo the pending reset*: every detector performs the reset that follows a "
    "reported drift before it validates, so after a call rejected right after a drift the detector is in the reset "
    "state (which the next accepted update would have established anyway)",
    "pandas.Index.equals is reflexive and symmetric, equal indexes have equal length (axioms)",
]
