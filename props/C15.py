"""C15 -- detectors and injectors never modify or keep live references to caller data."""
from .common import A_COMMON
FM = "menelaus.injection.feature_manipulation:"
LM = "menelaus.injection.label_manipulation:"
NZ = "menelaus.injection.noise:"
TARGETS = [("fn", "menelaus.detector:StreamingDetector._validate_X"), ("fn", "menelaus.detector:BatchDetector._validate_X"),
           ("fn", FM + "FeatureShiftInjector.__call__"), ("fn", FM + "FeatureSwapInjector.__call__"),
           ("fn", LM + "LabelSwapInjector.__call__"), ("fn", LM + "LabelJoinInjector.__call__"),
           ("fn", NZ + "BrownianNoiseInjector.__call__"), ("fn", LM + "LabelProbabilityInjector.__call__"),
           ("fn", LM + "LabelDirichletInjector.__call__"), ("fn", "menelaus.data_drift.nndvi:NNDVI.set_reference")]
LEVEL = "exploration"
LEVEL_TEXT = ("Deductive part: the ownership clause fresh(result) of both _validate_X functions (every detector stores only "
              "what validation hands out) is proved on every run under the aliasing model of numpy/pandas; for seven injectors "
              "(FeatureShift, FeatureSwap, LabelSwap, LabelJoin, BrownianNoise, LabelProbability, LabelDirichlet) the clause 'every input cell and the input shape are unchanged and the result does not share storage with the input' is proved over content-level arrays. The rest of "
              "the property (no argument modified, no live view kept by detectors that copy explicitly, injectors) is "
              "decided by the bounded tier: the caller overwrites every object right after passing it (C / Fortran order, "
              "views, DataFrames) and the outputs are compared with a run on private copies. Claimed as exploration.")
ASSUMPTIONS = A_COMMON + [
    "aliasing model: np.array / copy.copy / copy.deepcopy -> fresh; DataFrame.values, np.asarray, np.atleast_2d, ravel / "
    "reshape -> may share memory with the argument (probed on the installed numpy / pandas by the bounded tier)",
]
