"""Contracts for menelaus.data_drift.nndvi:NNDVI (C10 skeleton: which batches are compared, the decision, the reference
hand-over).  NNSpacePartitioner is an opaque object here (its matrix and membership vectors are deterministic
uninterpreted functions of the two blocks and k; NNSpacePartitioner.build is bounded only); compute_nnps_distance is used
through its verified contract; the permutation threshold is an ASSUMED contract (some real number)."""
from .detector_base import BATCH_FIELDS, MEMO_INV

Q = "menelaus.data_drift.nndvi:NNDVI"
NP = "menelaus.partitioners.NNSpacePartitioner:NNSpacePartitioner"
FRESH = "old(self._drift_state) == 'drift'"
B_REJECT = ("(is_df(X) and self._input_cols is not None and not cols_equal(cols(X), self._input_cols)) or "
            "((not is_df(X)) and self._input_col_dim is not None and bwidth(X) != self._input_col_dim) or brows(X) <= 1")
R0 = "old(self.reference_batch)"
DIST = ("nnps_sum(dotv(nnsp_v1(%(r)s, X, self.k_nn), nnsp_matrix(%(r)s, X, self.k_nn)), "
        "dotv(nnsp_v2(%(r)s, X, self.k_nn), nnsp_matrix(%(r)s, X, self.k_nn)), len(nnsp_v1(%(r)s, X, self.k_nn))) / "
        "len(nnsp_v1(%(r)s, X, self.k_nn))" % {"r": R0})


def register(R):
    f = dict(BATCH_FIELDS)
    f.update({"k_nn": "Int", "sampling_times": "Int", "alpha": "Real", "reference_batch": "Nd2"})
    R.klass(Q, fields=f, ghost={"d_act": "Real", "theta": "Real"}, invariant=[
        ("C01", "self._drift_state is None or self._drift_state == 'drift'"),
        ("C01", "0 <= self._batches_since_reset and self._batches_since_reset <= self._total_batches"),
    ] + list(MEMO_INV))
    R.contract(Q + "._compute_drift_threshold", tags=("C10",), modular=True,
               params={"M_nnps": "Mat", "v_ref": "Vec", "v_test": "Vec", "sampling_times": "Int", "alpha": "Real"},
               result="Real", ensures=[], modifies=[], check_invariant=False, assume_invariant=False,
               # verified with the permutation loop abstracted (its body is not verified; recorded as an assumption): the
               # tail - norm.fit, norm.ppf - returns a real number, nothing is modified, no exception escapes the tail
               loops={0: {"abstract": True, "index": "k0", "havoc_locals": ["d_shuffle", "v1_shuffle", "v2_shuffle", "d_i_shuffle"],
                          "types": {"d_shuffle": "AnyList"}, "invariant": []}})
    # C17: a smaller alpha never lowers the critical value.  Two runs of the real function on the same matrix, membership
    # vectors and number of re-assignments; the sampling loop is abstracted (its body is not verified here) and shown not
    # to read alpha (dependency analysis), so both runs fit the same sample; the tail - norm.fit, norm.ppf(1 - alpha, mu,
    # std) - is executed symbolically
    R.relational("NNDVI_alpha", function=Q + "._compute_drift_threshold", tags=("C17",), vary=[], vary_params=["alpha"],
                 requires=["0 < alpha1 and alpha1 <= alpha2 and alpha2 < 1", "sampling_times1 >= 0"],
                 ensures=["result1 >= result2"],
                 loops={Q + "._compute_drift_threshold": {0: {"abstract": True, "independent": True, "index": "k0",
                                                             "havoc_locals": ["d_shuffle", "v1_shuffle", "v2_shuffle", "d_i_shuffle"],
                                                             "types": {"d_shuffle": "AnyList"}, "invariant": []}}})
    R.contract(Q + ".update", tags=("C10", "C01"), params={"X": "RawX", "y_true": "RawY", "y_pred": "RawY"},
               reads_not=["y_true", "y_pred"], reads_not_tags=("C16",),
               calls={NP: "opaque", NP + ".compute_nnps_distance": "contract"},
               # the reference was accepted by validation when it was set: it has the established width and >= 2 rows
               requires=["self._input_col_dim is not None and self.reference_batch.shape[1] == self._input_col_dim and "
                         "self.reference_batch.shape[0] >= 2"],
               raises={"ValueError": {"when": B_REJECT, "iff": True, "tags": "C14", "ensures": [
                   ("C14", "self._total_batches == old(self._total_batches)"),
                   ("C14", "unchanged(self.reference_batch)")]}},
               ensures=[
                   ("C01", "self._total_batches == old(self._total_batches) + 1"),
                   ("C01", "self._batches_since_reset == (1 if %s else old(self._batches_since_reset) + 1)" % FRESH),
                   # the distance is measured between exactly the current reference batch and the batch supplied
                   ("C10", "self.ghost.d_act == " + DIST),
                   # drift exactly when it exceeds the permutation threshold computed for this pair
                   ("C10", "self._drift_state == ('drift' if self.ghost.d_act > self.ghost.theta else None)"),
                   # the drifted batch becomes the reference, otherwise the reference stays
                   ("C10", "implies(self._drift_state == 'drift', self.reference_batch.shape[0] == brows(X) and "
                           "self.reference_batch.shape[1] == bwidth(X) and forall(i, 0, brows(X), forall(j, 0, bwidth(X), "
                           "self.reference_batch[i][j] == bval(X, i, j))))"),
                   ("C10", "implies(self._drift_state != 'drift', unchanged(self.reference_batch))"),
               ],
               ghost_update=["self.ghost.d_act = d_act", "self.ghost.theta = theta_drift"],
               modifies=["_total_batches", "_batches_since_reset", "_drift_state", "_input_cols", "_input_col_dim", "reference_batch"])
    R.contract(Q + ".set_reference", tags=("C10",), params={"X": "RawX", "y_true": "RawY", "y_pred": "RawY"},
               reads_not=["y_true", "y_pred"], reads_not_tags=("C16",),
               raises={"ValueError": {"when": B_REJECT, "iff": True, "tags": "C14", "ensures": [("C14", "unchanged(self)")]}},
               ensures=["self.reference_batch.shape[0] == brows(X) and self.reference_batch.shape[1] == bwidth(X)",
                        "forall(i, 0, brows(X), forall(j, 0, bwidth(X), self.reference_batch[i][j] == bval(X, i, j)))",
                        ("C15", "fresh(self.reference_batch)"),
                        "unchanged(self._total_batches) and unchanged(self._batches_since_reset) and unchanged(self._drift_state)"],
               modifies=["_input_cols", "_input_col_dim", "reference_batch"])
