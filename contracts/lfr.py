"""Contracts for menelaus.concept_drift.lfr:LinearFourRates (C06, C01, C16): confusion matrix, four rates, statistic
update rule, gating by burn_in / subsample, state from the alarm / warning flags of the tracked rates only.
The Monte-Carlo bounds (_update_bounds_dict -> _sim_bounds) are an ASSUMED contract returning arbitrary bounds: that a
flag is raised exactly when the statistic lies outside them is decided by the bounded tier (same-seed re-simulation)."""
from .detector_base import STREAM_FIELDS, STREAM_INV

Q = "menelaus.concept_drift.lfr:LinearFourRates"
RATES = ["tpr", "tnr", "ppv", "npv"]
FRESH = "old(self._drift_state) == 'drift'"
N = "self._samples_since_reset"

SPEC = '''
def lfr_rate(name, tn, fn, fp, tp):
    return (tp / (tp + fn) if name == "tpr" else (tn / (tn + fp) if name == "tnr" else (tp / (fp + tp) if name == "ppv" else tn / (tn + fn))))
'''


def c0(i, j):
    return "(1 if %s else old(self._confusion)[%d][%d])" % (FRESH, i, j)


def c1(i, j):
    return "self._confusion[%d][%d]" % (i, j)


RATE0 = lambda r: "lfr_rate(%r, %s, %s, %s, %s)" % (r, c0(0, 0), c0(0, 1), c0(1, 0), c0(1, 1))
RATE1 = lambda r: "lfr_rate(%r, %s, %s, %s, %s)" % (r, c1(0, 0), c1(0, 1), c1(1, 0), c1(1, 1))
R0 = lambda r: "(0.5 if %s else old(self._r_stat)[old(self._samples_since_reset)][%r])" % (FRESH, r)
GATE = "(%s > self.burn_in and %s %% self.subsample == 0)" % (N, N)
IMAPR = "IMap[tpr:Real,tnr:Real,ppv:Real,npv:Real]"
IMAPB = "IMap[tpr:Bool,tnr:Bool,ppv:Bool,npv:Bool]"


def register(R):
    R.specfn(SPEC)
    f = dict(STREAM_FIELDS)
    f.update({"time_decay_factor": "Real", "warning_level": "Real", "detect_level": "Real", "burn_in": "Int", "num_mc": "Int",
              "subsample": "Int", "rates_tracked": "Const[('tpr', 'tnr', 'ppv', 'npv')]", "parallelize": "Bool", "round_val": "Int",
              "all_drift_states": "List[OptStr]", "_p_table": IMAPR, "_r_stat": IMAPR, "_warning_states": IMAPB,
              "_alarm_states": IMAPB, "_denominators": "Dict[tpr_N:Int,tnr_N:Int,ppv_N:Int,npv_N:Int]",
              "_bounds": "AnyDictOf[AnyDictOf[Dict[lb_warn:Real,ub_warn:Real,lb_detect:Real,ub_detect:Real]]]",
              "_confusion": "ListN[ListN[Int,Int],ListN[Int,Int]]", "_retraining_recs": "Pair[Opt[Int]]"})
    R.klass(Q, fields=f, ghost={"first_warn": "Opt[Int]"}, ghost_init=["self.ghost.first_warn = None"],
            invariant=STREAM_INV + [
                ("C06", "self._confusion[0][0] >= 1 and self._confusion[0][1] >= 1 and self._confusion[1][0] >= 1 and self._confusion[1][1] >= 1"),
                # the epoch's confusion matrix counts the epoch's samples on top of one pseudo-count per cell
                ("C06", "self._confusion[0][0] + self._confusion[0][1] + self._confusion[1][0] + self._confusion[1][1] == "
                        "4 + self._samples_since_reset"),
                ("C01", "implies(self._samples_since_reset <= self.burn_in, self._drift_state is None)"),
                ("C06", "has_key(self._r_stat, self._samples_since_reset) and has_key(self._p_table, self._samples_since_reset)"),
                ("C01", "implies(self._drift_state != 'drift', self._retraining_recs[1] is None)"),
                ("C01", "implies(self._drift_state == 'drift', self._retraining_recs[0] is not None and "
                        "self._retraining_recs[1] is not None and self._retraining_recs[0] <= self._retraining_recs[1] and "
                        "self._retraining_recs[1] == self._total_samples - 1)"),
                ("C06", "self._retraining_recs[0] == self.ghost.first_warn"),
                ("C01", "implies(self._retraining_recs[0] is not None, 0 <= self._retraining_recs[0] and "
                        "self._retraining_recs[0] <= self._total_samples - 1)"),
                ("C06", "implies(self._drift_state is not None, self._retraining_recs[0] is not None)"),
            ])
    for fn in ("_get_four_rates", "_get_four_denominators"):
        pass
    R.contract(Q + "._get_four_rates", tags=("C06",), params={"confusion": "ListN[ListN[Int,Int],ListN[Int,Int]]"},
               requires=["confusion[0][0] >= 1 and confusion[0][1] >= 1 and confusion[1][0] >= 1 and confusion[1][1] >= 1"],
               ensures=["result[%r] == lfr_rate(%r, confusion[0][0], confusion[0][1], confusion[1][0], confusion[1][1])" % (r, r)
                        for r in RATES])
    R.contract(Q + "._get_four_denominators", tags=("C06",), params={"confusion": "ListN[ListN[Int,Int],ListN[Int,Int]]"},
               ensures=["result['tpr_N'] == confusion[1][1] + confusion[0][1]", "result['tnr_N'] == confusion[0][0] + confusion[1][0]",
                        "result['ppv_N'] == confusion[1][0] + confusion[1][1]", "result['npv_N'] == confusion[0][0] + confusion[0][1]"])
    # returns some bounds record; may extend the cache, touches nothing else.  Verified with the cache as an opaque
    # dictionary (every read yields an arbitrary value, writes are dropped: an over-approximation) and _sim_bounds through its
    # contract; WHICH record comes back (cached under the rounded key, or freshly simulated) is decided by the bounded tier
    R.contract(Q + "._update_bounds_dict", tags=("C06",), modular=True,
               params={"est_rate": "Real", "curr_denom": "Int", "r_est_rate": "Real", "r_curr_denom": "Int"},
               result="Dict[lb_warn:Real,ub_warn:Real,lb_detect:Real,ub_detect:Real]",
               ensures=[], modifies=["_bounds"], check_invariant=False)
    # the Monte-Carlo simulation (from the assignment of exps to that of result_vector) is abstracted - its statements are not
    # verified; the four np.percentile calls and the returned record are: a record of four reals, nothing modified
    R.contract(Q + "._sim_bounds", tags=("C06",), modular=True, params={"est_rate": "Real", "denom": "Int"},
               result="Dict[lb_warn:Real,ub_warn:Real,lb_detect:Real,ub_detect:Real]",
               ensures=["result['lb_warn'] == result['lb_warn'] and result['ub_detect'] == result['ub_detect']", "unchanged(self)"],
               modifies=[], check_invariant=False,
               abstract_blocks=[{"from": "exps", "to": "result_vector", "types": {"result_vector": "AnyList"}}])

    def update_contract(suffix, tracked):
        ens = [
            ("C01", "self._total_samples == old(self._total_samples) + 1"),
            ("C01", "self._samples_since_reset == (1 if %s else old(self._samples_since_reset) + 1)" % FRESH),
            ("C06", "len(self.all_drift_states) == len(old(self.all_drift_states)) + 1 and self.all_drift_states[-1] == self._drift_state"),
        ]
        # confusion matrix: exactly the cell [y_pred][y_true] of the epoch's matrix (one pseudo-count per cell) is incremented
        for i in (0, 1):
            for j in (0, 1):
                ens.append(("C06,C16", "%s == %s + (1 if (first(y_pred) == %d and first(y_true) == %d) else 0)" % (c1(i, j), c0(i, j), i, j)))
        for r in RATES:
            if r in tracked:
                # statistic of a tracked rate: exponentially weighted, updated only when the rate changed
                ens.append(("C06", "self._r_stat[%s][%r] == ((self.time_decay_factor * %s + (1 - self.time_decay_factor) * "
                                   "(1 if first(y_true) == first(y_pred) else 0)) if %s != %s else %s)" % (N, r, R0(r), RATE1(r), RATE0(r), R0(r))))
                ens.append(("C06", "self._p_table[%s][%r] == %s" % (N, r, RATE1(r))))
            else:
                # rates that are not tracked: statistic untouched, never flagged
                ens.append(("C06", "self._r_stat[%s][%r] == %s" % (N, r, R0(r))))
                ens.append(("C06", "self._alarm_states[%s][%r] == False and self._warning_states[%s][%r] == False" % (N, r, N, r)))
        ens.append(("C06,C01", "implies(not %s, self._drift_state is None)" % GATE))
        anyalarm = " or ".join("self._alarm_states[%s][%r]" % (N, r) for r in tracked)
        anywarn = " or ".join("self._warning_states[%s][%r]" % (N, r) for r in tracked)
        ens.append(("C06", "self._drift_state == ('drift' if (%s) else ('warning' if (%s) else None))" % (anyalarm, anywarn)))
        R.contract(Q + ".update@" + suffix, tags=("C06", "C01"), on_self="LinearFourRates",
                   params={"y_true": "RawYBit", "y_pred": "RawYBit", "X": "RawX"},
                   self_fields={"rates_tracked": "Const[%r]" % (tuple(tracked),)},
                   requires=["self.parallelize == False", "self.subsample >= 1", "self.burn_in >= 0",
                             "implies(not %s, self._r_stat_has(self._samples_since_reset))" % FRESH if False else "True"],
                   reads_not=["X"], reads_not_tags=("C16",),
                   raises={"ValueError": {"when": "size(y_true) != 1 or size(y_pred) != 1", "iff": True, "tags": "C14",
                                          "ensures": [("C14", "self._total_samples == old(self._total_samples)"),
                                                      ("C14", "implies(not %s, unchanged(self))" % FRESH)]}},
                   ensures=ens,
                   ghost_update=["fw0 = None if old(self._drift_state) == 'drift' else old(self.ghost.first_warn)",
                                 "self.ghost.first_warn = fw0 if fw0 is not None else "
                                 "(self._total_samples - 1 if self._drift_state is not None else None)"],
                   modifies=["_total_samples", "_samples_since_reset", "_drift_state", "_retraining_recs", "all_drift_states",
                             "_p_table", "_r_stat", "_warning_states", "_alarm_states", "_denominators", "_bounds", "_confusion"])
    update_contract("all", RATES)
    update_contract("tpr_ppv", ["tpr", "ppv"])
    update_contract("tnr", ["tnr"])

    # C17: smaller levels never tighten the simulated bounds.  Two runs of the real _sim_bounds that differ in one level
    # only; the Monte-Carlo simulation (from the assignment of exps to that of result_vector) is abstracted - not verified
    # here - and shown not to read the levels (dependency analysis), so both runs take percentiles of the same simulated
    # vector; the four np.percentile calls and the returned record are executed symbolically
    for nm, fld in (("LFR_detect_level", "detect_level"), ("LFR_warning_level", "warning_level")):
        kind = "detect" if fld == "detect_level" else "warn"
        other = "warn" if kind == "detect" else "detect"
        R.relational(nm, function=Q + "._sim_bounds", tags=("C17",), vary=[fld],
                     params={"est_rate": "Real", "denom": "Int"},
                     requires=["same_except(self1, self2, %r)" % fld, "0 < self1.%s and self1.%s <= self2.%s and self2.%s < 1" % (fld, fld, fld, fld)],
                     ensures=[
                         # the smaller level has the lower lower bound and the higher upper bound ...
                         "result1['lb_%s'] <= result2['lb_%s'] and result1['ub_%s'] >= result2['ub_%s']" % (kind, kind, kind, kind),
                         # ... and the bounds of the other level are not touched
                         "result1['lb_%s'] == result2['lb_%s'] and result1['ub_%s'] == result2['ub_%s']" % (other, other, other, other),
                         "same_except(self1, self2, %r)" % fld],
                     abstract_blocks={Q + "._sim_bounds": [{"from": "exps", "to": "result_vector", "types": {"result_vector": "AnyList"}}]})

