"""Contracts for menelaus.data_drift.histogram_density_method (C07 pieces within reach, C17)."""
from .detector_base import BATCH_FIELDS

M = "menelaus.data_drift.histogram_density_method:HistogramDensityMethod"
HD = "menelaus.data_drift.hdddm:HDDDM"

SPEC = '''
@recursive("Array[Int]", "Array[Int]", "Real", "Real", "Int", "Real")
def hell_sum(t, r, tl, rl, k):
    return 0 if k <= 0 else hell_sum(t, r, tl, rl, k - 1) + (sqrt(t[k - 1] / tl) - sqrt(r[k - 1] / rl)) * (sqrt(t[k - 1] / tl) - sqrt(r[k - 1] / rl))
'''

FIELDS = dict(BATCH_FIELDS)
FIELDS.update({"detect_batch": "Int", "statistic": "Str", "significance": "Real", "subsets": "Int", "_lambda": "Int",
               "epsilon": "List[Real]", "total_epsilon": "Real", "reference_n": "Int", "_bins": "Int"})

DROP = "(old(self._batches_since_reset) == 3 and self.detect_batch != 3)"
E0 = "old(self.epsilon)"
NE = "len(self.epsilon)"
DSCALE = "(1 if (self._batches_since_reset == 2 and self.detect_batch != 3) else self._total_batches - self._lambda - 1)"
TE = "((old(self.total_epsilon) - (%s[0] if %s else 0)) + self.epsilon[%s - 2])" % (E0, DROP, NE)
EHAT = "((1 / %s) * %s)" % (DSCALE, TE)
STDEV = "sqrt(sum((self.epsilon[i] - %s) ** 2 for i in range(%s - 1)) / %s)" % (EHAT, NE, DSCALE)


def register(R):
    R.specfn(SPEC)
    R.klass(HD, fields=dict(FIELDS))
    R.contract(HD + "._adaptive_threshold", tags=("C07",), params={"stat": "Str", "test_n": "Int"},
               requires=["len(self.epsilon) >= 2 + (1 if (self._batches_since_reset == 3 and self.detect_batch != 3) else 0)",
                         "self._total_batches - self._lambda - 1 >= 1"],
               ensures=[
                   # the bootstrapped first epsilon is dropped exactly at the third batch of an epoch (detect_batch 1, 2)
                   "len(self.epsilon) == len(%s) - (1 if %s else 0)" % (E0, DROP),
                   "forall(i, 0, len(self.epsilon), self.epsilon[i] == %s[i + (1 if %s else 0)])" % (E0, DROP),
                   "self.total_epsilon == " + TE,
                   # mean plus scaled deviation of the epoch's earlier epsilons
                   "result == (%s + t_ppf(1 - self.significance / 2, self.reference_n + test_n - 2) * (%s / sqrt(%s)) "
                   "if stat == 'tstat' else %s + self.significance * %s)" % (EHAT, STDEV, DSCALE, EHAT, STDEV),
               ],
               modifies=["epsilon", "total_epsilon"], check_invariant=False, assume_invariant=False)
    # C17: smaller t-test significance / larger number of standard deviations never lowers the threshold
    R.relational("HDM_significance", function=HD + "._adaptive_threshold", tags=("C17",), vary=["significance"],
                 requires=["(stat1 == 'tstat' and self1.significance <= self2.significance) or "
                           "(stat1 != 'tstat' and self1.significance >= self2.significance)",
                           "self1._total_batches - self1._lambda - 1 >= 1",
                           "len(self1.epsilon) >= 3"],
                 ensures=["result1 >= result2", "same_except(self1, self2, 'significance')"])

    R.contract(HD + "._hellinger_distance", tags=("C07",),
               params={"reference_density": "List[Nat]", "test_density": "List[Nat]"},
               requires=["self._bins >= 0", "len(reference_density) == self._bins and len(test_density) == self._bins"],
               ensures=["result == sqrt(hell_sum(test_density, reference_density, vsum(test_density), vsum(reference_density), self._bins))",
                        "unchanged(self)"],
               modifies=[], check_invariant=False, assume_invariant=False,
               loops={0: {"index": "k", "invariant": [
                   "f_distance == hell_sum(test_density, reference_density, t_length, r_length, k)",
                   "t_length == vsum(test_density) and r_length == vsum(reference_density)"]}})
    # identity and symmetry (equal sample sizes) of the Hellinger sum
    R.lemma("hell_identity", params={"a": "List[Int]", "n": "Real", "k": "Int"}, requires=["k >= 0"],
            ensures=["hell_sum(a, a, n, n, k) == 0"], induct=("k", "0"))
    R.lemma("hell_symmetric", params={"a": "List[Int]", "b": "List[Int]", "n": "Real", "k": "Int"}, requires=["k >= 0"],
            ensures=["hell_sum(a, b, n, n, k) == hell_sum(b, a, n, n, k)"], induct=("k", "0"))
    R.lemma("hell_nonneg", params={"a": "List[Int]", "b": "List[Int]", "n": "Real", "m": "Real", "k": "Int"}, requires=["k >= 0"],
            ensures=["hell_sum(a, b, n, m, k) >= 0"], induct=("k", "0"))
