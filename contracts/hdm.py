"""Contracts for menelaus.data_drift.histogram_density_method (C07 pieces within reach, C17)."""
from .detector_base import BATCH_FIELDS

M = "menelaus.data_drift.histogram_density_method:HistogramDensityMethod"
HD = "menelaus.data_drift.hdddm:HDDDM"

SPEC = '''
@recursive("Array[Int]", "Array[Int]", "Real", "Real", "Int", "Real")
def hell_sum(t, r, tl, rl, k):
    return 0 if k <= 0 else hell_sum(t, r, tl, rl, k - 1) + (sqrt(t[k - 1] / tl) - sqrt(r[k - 1] / rl)) * (sqrt(t[k - 1] / tl) - sqrt(r[k - 1] / rl))
'''

FIELDS = dict(BATCH_FIELDS)
FIELDS.update({"detect_batch": "Int", "statistic": "Str", "significance": "Real", "subsets": "Int", "_lambda": "Int",
               "epsilon": "List[Real]", "total_epsilon": "Real", "reference_n": "Int", "_bins": "Int"})

DROP = "(old(self._batches_since_reset) == 3 and self.detect_batch != 3)"
E0 = "old(self.epsilon)"
NE = "len(self.epsilon)"
DSCALE = "(1 if (self._batches_since_reset == 2 and self.detect_batch != 3) else self._total_batches - self._lambda - 1)"
TE = "((old(self.total_epsilon) - (%s[0] if %s else 0)) + self.epsilon[%s - 2])" % (E0, DROP, NE)
EHAT = "((1 / %s) * %s)" % (DSCALE, TE)
STDEV = "sqrt(sum((self.epsilon[i] - %s) ** 2 for i in range(%s - 1)) / %s)" % (EHAT, NE, DSCALE)


def register(R):
    R.specfn(SPEC)
    R.klass(HD, fields=dict(FIELDS))
    R.contract(HD + "._adaptive_threshold", tags=("C07",), params={"stat": "Str", "test_n": "Int"},
               requires=["len(self.epsilon) >= 2 + (1 if (self._batches_since_reset == 3 and self.detect_batch != 3) else 0)",
                         "self._total_batches - self._lambda - 1 >= 1"],
               ensures=[
                   # the bootstrapped first epsilon is dropped exactly at the third batch of an epoch (detect_batch 1, 2)
                   "len(self.epsilon) == len(%s) - (1 if %s else 0)" % (E0, DROP),
                   "forall(i, 0, len(self.epsilon), self.epsilon[i] == %s[i + (1 if %s else 0)])" % (E0, DROP),
                   "self.total_epsilon == " + TE,
                   # mean plus scaled deviation of the epoch's earlier epsilons
                   "result == (%s + t_ppf(1 - self.significance / 2, self.reference_n + test_n - 2) * (%s / sqrt(%s)) "
                   "if stat == 'tstat' else %s + self.significance * %s)" % (EHAT, STDEV, DSCALE, EHAT, STDEV),
               ],
               modifies=["epsilon", "total_epsilon"], check_invariant=False, assume_invariant=False,
               # what update()'s skeleton needs of it: the effect on the epsilon list (the value itself is 'self.beta')
               views={"list_effect": [0, 1]})
    # C17: smaller t-test significance / larger number of standard deviations never lowers the threshold
    R.relational("HDM_significance", function=HD + "._adaptive_threshold", tags=("C17",), vary=["significance"],
                 requires=["(stat1 == 'tstat' and self1.significance <= self2.significance) or "
                           "(stat1 != 'tstat' and self1.significance >= self2.significance)",
                           "self1._total_batches - self1._lambda - 1 >= 1",
                           "len(self1.epsilon) >= 3"],
                 ensures=["result1 >= result2", "same_except(self1, self2, 'significance')"])

    R.contract(HD + "._hellinger_distance", tags=("C07",),
               params={"reference_density": "List[Nat]", "test_density": "List[Nat]"},
               requires=["self._bins >= 0", "len(reference_density) == self._bins and len(test_density) == self._bins"],
               ensures=["result == sqrt(hell_sum(test_density, reference_density, vsum(test_density), vsum(reference_density), self._bins))",
                        "unchanged(self)"],
               modifies=[], check_invariant=False, assume_invariant=False,
               loops={0: {"index": "k", "invariant": [
                   "f_distance == hell_sum(test_density, reference_density, t_length, r_length, k)",
                   "t_length == vsum(test_density) and r_length == vsum(reference_density)"]}})
    # identity and symmetry (equal sample sizes) of the Hellinger sum
    R.lemma("hell_identity", params={"a": "List[Int]", "n": "Real", "k": "Int"}, requires=["k >= 0"],
            ensures=["hell_sum(a, a, n, n, k) == 0"], induct=("k", "0"))
    R.lemma("hell_symmetric", params={"a": "List[Int]", "b": "List[Int]", "n": "Real", "k": "Int"}, requires=["k >= 0"],
            ensures=["hell_sum(a, b, n, n, k) == hell_sum(b, a, n, n, k)"], induct=("k", "0"))
    R.lemma("hell_nonneg", params={"a": "List[Int]", "b": "List[Int]", "n": "Real", "m": "Real", "k": "Int"}, requires=["k >= 0"],
            ensures=["hell_sum(a, b, n, m, k) >= 0"], induct=("k", "0"))


    # ---- update(): skeleton of the decision rule and the reference hand-over (C07), detect_batch 2 and 3 ------------------
    register_update(R)


UPD_FIELDS = {"reference": "DF", "distance_function": "Func[dist]", "current_distance": "Real", "_prev_distance": "Real",
              "distances": "Map[Real]", "epsilon_values": "Map[Real]", "thresholds": "Map[Real]", "beta": "Real",
              "feature_epsilons": "Opaque[AnyList]", "_prev_feature_distances": "Opaque[AnyList]",
              "_reference_density": "Opaque[Hists]", "feature_info": "Opaque[AnyDict]"}
FRESH = "old(self._drift_state) == 'drift'"
S1 = "(1 if %s else old(self._batches_since_reset) + 1)" % FRESH
T1 = "(old(self._total_batches) + 1)"
TESTED = "((%s >= 2 and self.detect_batch != 3) or (%s >= 3 and self.detect_batch == 3))" % (S1, S1)
EPS = "abs(self.current_distance - old(self._prev_distance))"
B_REJECT = ("(is_df(X) and self._input_cols is not None and not cols_equal(cols(X), self._input_cols)) or "
            "((not is_df(X)) and self._input_col_dim is not None and bwidth(X) != self._input_col_dim) or brows(X) <= 1")
# length of the epsilon list as a function of the position in the epoch (the bootstrapped first value lives for one batch)
ELEN = ("(0 if self._batches_since_reset <= 1 else (2 if (self._batches_since_reset == 2 and self.detect_batch != 3) "
        "else self._batches_since_reset - 1))")


def register_update(R):
    from .detector_base import MEMO_INV
    f = dict(FIELDS)
    f.update(UPD_FIELDS)
    R.klass(HD, fields=f, invariant=[
        ("C01", "self._drift_state is None or self._drift_state == 'drift'"),
        ("C01", "0 <= self._batches_since_reset and self._batches_since_reset <= self._total_batches"),
        ("C07", "self.detect_batch == 1 or self.detect_batch == 2 or self.detect_batch == 3"),
        ("C07", "implies(self._drift_state != 'drift', len(self.epsilon) == %s)" % ELEN),
        ("C07", "implies(self._drift_state != 'drift', self._batches_since_reset <= self._total_batches - self._lambda)"),
    ] + list(MEMO_INV))
    R.contract(M + ".reset", tags=("C07", "C02"), on_self="HDDDM", modular=True, params={},
               requires=["self.detect_batch != 1"],
               ensures=["self._batches_since_reset == 0 and self._drift_state is None and len(self.epsilon) == 0 and self.total_epsilon == 0",
                        "self.reference_n == len(self.reference) and self._bins == floor(sqrt(self.reference_n))",
                        "unchanged(self._total_batches) and unchanged(self._lambda) and unchanged(self.reference) and "
                        "unchanged(self._prev_distance) and unchanged(self._input_cols) and unchanged(self._input_col_dim)"],
               modifies=["_batches_since_reset", "_drift_state", "epsilon", "total_epsilon", "reference_n", "_bins"],
               check_invariant=False)
    R.contract(M + "._build_histograms", tags=("C07",), on_self="HDDDM", modular=True,
               params={"dataset": "DF", "min_values": "Opaque[AnyList]", "max_values": "Opaque[AnyList]"},
               result="Opaque[Hists]", ensures=[], modifies=[], check_invariant=False, assume_invariant=False)
    R.contract(M + "._estimate_initial_epsilon", tags=("C07",), on_self="HDDDM", modular=True,
               params={"reference": "DF", "num_subsets": "Int", "histogram_mins": "Opaque[AnyList]", "histogram_maxes": "Opaque[AnyList]"},
               result="Real", ensures=[], modifies=[], check_invariant=False, assume_invariant=False)
    R.contract(M + ".update", tags=("C07", "C01"), on_self="HDDDM",
               params={"X": "RawX", "y_true": "RawY", "y_pred": "RawY"},
               reads_not=["y_true", "y_pred"], reads_not_tags=("C16",),
               calls={M + ".reset": "contract", HD + "._adaptive_threshold": "contract:list_effect"},
               requires=["self.detect_batch != 1", "self._input_col_dim is not None"],
               raises={"ValueError": {"when": B_REJECT, "iff": True, "tags": "C14", "ensures": [
                   ("C14", "self._total_batches == old(self._total_batches)")]}},
               ensures=[
                   ("C01", "self._total_batches == %s" % T1),
                   ("C01", "self._batches_since_reset == %s" % S1),
                   ("C07", "self.distances[%s] == self.current_distance" % T1),
                   # epsilon is the absolute change of the distance between consecutive batches of the epoch
                   ("C07", "implies(%s >= 2, self.epsilon_values[%s] == %s and self.epsilon[len(self.epsilon) - 1] == %s)" % (S1, T1, EPS, EPS)),
                   # drift is reported exactly when epsilon exceeds the adaptive threshold, from the detect_batch-th batch on
                   ("C07", "implies(%s, (self._drift_state == 'drift') == (%s > self.beta))" % (TESTED, EPS)),
                   ("C07", "implies(%s, self.thresholds[%s] == self.beta)" % (TESTED, T1)),
                   ("C07", "implies(not %s, self._drift_state is None)" % TESTED),
                   # without drift the batch is appended to the reference; with drift it replaces it and the statistics restart
                   # (frames are opaque here: the hand-over is stated through row counts; which rows is decided by the bounded tier)
                   ("C07", "implies(self._drift_state is None, len(self.reference) == len(old(self.reference)) + brows(X) and "
                           "self.reference_n == len(self.reference) and self._bins == floor(sqrt(self.reference_n)))"),
                   ("C07", "implies(self._drift_state is None, self._prev_distance == self.current_distance and unchanged(self._lambda))"),
                   ("C07", "implies(self._drift_state == 'drift', len(self.reference) == brows(X) and self._lambda == %s and "
                           "unchanged(self._prev_distance))" % T1),
               ],
               modifies=["_total_batches", "_batches_since_reset", "_drift_state", "_input_cols", "_input_col_dim", "epsilon", "total_epsilon",
                         "reference_n", "_bins", "reference", "current_distance", "_prev_distance", "distances", "epsilon_values",
                         "thresholds", "beta", "feature_epsilons", "_prev_feature_distances", "_reference_density", "feature_info", "_lambda"],
               loops={0: {"index": "k0", "types": {"mins": "Opaque[AnyList]", "maxes": "Opaque[AnyList]"},
                          "havoc_locals": ["mins", "maxes", "f", "reference_variable", "test_variable"], "invariant": []},
                      1: {"index": "k1", "types": {"feature_distances": "Opaque[AnyList]"},
                          "havoc_locals": ["feature_distances", "total_distance", "f", "f_distance"], "invariant": []}})

    # CDBD (C14): the one-column guard of the univariate detector.  A batch with more than one column is refused with
    # ValueError before anything else happens - whatever its container, in particular a DataFrame arriving after a history of
    # plain arrays, which the base-class validation alone would let through (known finding KF-C14-df-width-gap-batch);
    # otherwise the call is HistogramDensityMethod.update (through its contract, detect_batch 2 and 3)
    CD = "menelaus.data_drift.cdbd:CDBD"
    R.klass(CD, fields=f, invariant=[
        ("C01", "self._drift_state is None or self._drift_state == 'drift'"),
        ("C01", "0 <= self._batches_since_reset and self._batches_since_reset <= self._total_batches"),
    ] + list(MEMO_INV))
    HDM_MOD = ["_total_batches", "_batches_since_reset", "_drift_state", "_input_cols", "_input_col_dim", "epsilon", "total_epsilon",
               "reference_n", "_bins", "reference", "current_distance", "_prev_distance", "distances", "epsilon_values",
               "thresholds", "beta", "feature_epsilons", "_prev_feature_distances", "_reference_density", "feature_info", "_lambda"]
    R.contract(CD + ".update", tags=("C14",), params={"X": "RawX", "y_true": "RawY", "y_pred": "RawY"},
               reads_not=["y_true", "y_pred"], reads_not_tags=("C16",),
               calls={M + ".update": "contract"},
               requires=["self.detect_batch != 1", "self._input_col_dim is not None"],
               raises={"ValueError": {"when": "bwidth(X) != 1 or " + B_REJECT, "iff": True, "tags": "C14", "ensures": [
                   ("C14", "self._total_batches == old(self._total_batches)")]}},
               ensures=[("C14", "bwidth(X) == 1"), ("C01", "self._total_batches == old(self._total_batches) + 1")],
               modifies=HDM_MOD, check_invariant=False)
    R.contract(CD + ".set_reference", tags=("C14",), params={"X": "RawX", "y_true": "RawY", "y_pred": "RawY"},
               reads_not=["y_true", "y_pred"], reads_not_tags=("C16",),
               calls={M + ".set_reference": "contract"},
               requires=["self.detect_batch != 1"],
               raises={"ValueError": {"when": "bwidth(X) != 1 or " + B_REJECT, "iff": True, "tags": "C14",
                                      "ensures": [("C14", "unchanged(self)")]}},
               ensures=[("C14", "bwidth(X) == 1"), "len(self.reference) == brows(X)", "unchanged(self._total_batches)"],
               modifies=["_batches_since_reset", "_drift_state", "_input_cols", "_input_col_dim", "epsilon", "total_epsilon",
                         "reference_n", "_bins", "reference", "_lambda"], check_invariant=False)
    R.contract(M + ".set_reference", tags=("C07", "C02"), on_self="HDDDM", params={"X": "RawX", "y_true": "RawY", "y_pred": "RawY"},
               reads_not=["y_true", "y_pred"], reads_not_tags=("C16",),
               calls={M + ".reset": "contract"},
               requires=["self.detect_batch != 1"],
               raises={"ValueError": {"when": B_REJECT, "iff": True, "tags": "C14", "ensures": [("C14", "unchanged(self)")]}},
               ensures=["len(self.reference) == brows(X) and self.reference_n == brows(X) and self._bins == floor(sqrt(self.reference_n))",
                        # the statistics restart from this batch: epoch counter, epsilons, last-drift index
                        "self._batches_since_reset == 0 and self._drift_state is None and len(self.epsilon) == 0 and "
                        "self.total_epsilon == 0 and self._lambda == self._total_batches",
                        "unchanged(self._total_batches)"],
               modifies=["_batches_since_reset", "_drift_state", "_input_cols", "_input_col_dim", "epsilon", "total_epsilon",
                         "reference_n", "_bins", "reference", "_lambda"])
