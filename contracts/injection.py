"""Contracts for the drift injectors (C20): frame condition (only the window rows and the targeted columns change),
container round trip, and the documented effect inside the window -- over content-level 2-D arrays (pyvc/mat2.py).

`data` is an ndarray or a DataFrame (both cases are enumerated); columns are integer positions for arrays and integer
label codes for frames.  Windows satisfy 0 <= from_index <= to_index <= rows(data) (the property's quantifier)."""

FM = "menelaus.injection.feature_manipulation:"
LM = "menelaus.injection.label_manipulation:"
NZ = "menelaus.injection.noise:"

INJ_FIELDS = {"_columns": "Opt[Opaque[Cols2]]"}
WINDOW = ["0 <= from_index and from_index <= to_index and to_index <= mrows(data)"]


def outside_unchanged(cols):
    """all cells outside the window rows or outside the targeted columns are the input's cells"""
    notcol = " and ".join("j != colidx(data, %s)" % c for c in cols)
    return ("forall(i, 0, mrows(data), forall(j, 0, mcols(data), implies(i < from_index or i >= to_index or (%s), "
            "cell(result, i, j) == old(cell(data, i, j)))))" % notcol)


SAME = ("C15,C20", "same_container(result, data)")
# C15: the input is left unchanged and the result is a new object that does not share storage with it
INPUT_KEPT = ("C15,C20", "forall(i, 0, mrows(data), forall(j, 0, mcols(data), cell(data, i, j) == old(cell(data, i, j)))) and "
              "unchanged(mrows(data)) and unchanged(mcols(data)) and not shares_cells(result, data)")


def register(R):
    for q in (FM + "FeatureShiftInjector", FM + "FeatureSwapInjector", LM + "LabelSwapInjector", LM + "LabelJoinInjector",
              NZ + "BrownianNoiseInjector"):
        R.klass(q, fields=dict(INJ_FIELDS), invariant=[])
    R.contract(FM + "FeatureShiftInjector.__call__", tags=("C20",),
               params={"data": "Data2", "from_index": "Int", "to_index": "Int", "col": "Int", "shift_factor": "Real", "alpha": "Real"},
               requires=WINDOW + ["valid_col(data, col)"],
               ensures=[SAME, outside_unchanged(["col"]),
                        # inside the window: the column shifted by shift_factor * (alpha + window mean)
                        "forall(i, from_index, to_index, cell(result, i, colidx(data, col)) == old(cell(data, i, colidx(data, col))) + "
                        "(alpha + seq_mean(old(mcol(data, from_index, to_index, colidx(data, col))))) * shift_factor)",
                        INPUT_KEPT],
               modifies=["_columns", "_section_mean", "_delta"], check_invariant=False)
    R.contract(FM + "FeatureSwapInjector.__call__", tags=("C20",),
               params={"data": "Data2", "from_index": "Int", "to_index": "Int", "col_1": "Int", "col_2": "Int"},
               requires=WINDOW + ["valid_col(data, col_1)", "valid_col(data, col_2)"],
               ensures=[SAME, outside_unchanged(["col_1", "col_2"]),
                        "forall(i, from_index, to_index, cell(result, i, colidx(data, col_1)) == old(cell(data, i, colidx(data, col_2))) and "
                        "cell(result, i, colidx(data, col_2)) == old(cell(data, i, colidx(data, col_1))))",
                        INPUT_KEPT],
               modifies=["_columns"], check_invariant=False)
    R.contract(LM + "LabelSwapInjector.__call__", tags=("C20",),
               params={"data": "Data2", "from_index": "Int", "to_index": "Int", "target_col": "Int", "class_1": "Real", "class_2": "Real"},
               requires=WINDOW + ["valid_col(data, target_col)"],
               ensures=[SAME, outside_unchanged(["target_col"]),
                        "forall(i, from_index, to_index, cell(result, i, colidx(data, target_col)) == "
                        "swap_class(old(cell(data, i, colidx(data, target_col))), class_1, class_2))",
                        INPUT_KEPT],
               modifies=["_columns"], check_invariant=False)
    R.specfn("def swap_class(v, a, b):\n    return b if v == a else (a if v == b else v)\n")
    R.lemma("swap_class_involution", params={"v": "Real", "a": "Real", "b": "Real"}, requires=[],
            ensures=["swap_class(swap_class(v, a, b), a, b) == v"])
    R.contract(LM + "LabelJoinInjector.__call__", tags=("C20",),
               params={"data": "Data2", "from_index": "Int", "to_index": "Int", "target_col": "Int", "class_1": "Real", "class_2": "Real",
                       "new_class": "Real"},
               requires=WINDOW + ["valid_col(data, target_col)"],
               ensures=[SAME, outside_unchanged(["target_col"]),
                        "forall(i, from_index, to_index, cell(result, i, colidx(data, target_col)) == "
                        "(new_class if (old(cell(data, i, colidx(data, target_col))) == class_1 or "
                        "old(cell(data, i, colidx(data, target_col))) == class_2) else old(cell(data, i, colidx(data, target_col)))))",
                        INPUT_KEPT],
               modifies=["_columns"], check_invariant=False)

    # -- Brownian noise: random walk starting at x0 with steps of size 1/sqrt(steps) added to the window ---------------
    RW = NZ + "BrownianNoiseInjector._random_walk"
    R.contract(RW, tags=("C20",), params={"steps": "Int", "x0": "Real", "random_state": "None"},
               requires=["steps >= 0"], result="Vec",
               ensures=["len(result) == steps",
                        "implies(steps >= 1, result[0] == x0)",
                        "forall(k, 1, steps, result[k] - result[k - 1] == 1 / sqrt(steps) or "
                        "result[k] - result[k - 1] == -1 / sqrt(steps))"],
               modifies=[], check_invariant=False,
               loops={0: {"index": "k", "havoc_locals": ["w", "yi", "i"],
                          "invariant": ["len(w) == steps", "implies(steps >= 1, w[0] == x0)",
                                        "forall(j, 1, k + 1, w[j] - w[j - 1] == 1 / sqrt(steps) or "
                                        "w[j] - w[j - 1] == -1 / sqrt(steps))"]}})
    NOISE = "(cell(result, %s, colidx(data, col)) - old(cell(data, %s, colidx(data, col))))"
    R.contract(NZ + "BrownianNoiseInjector.__call__", tags=("C20",),
               params={"data": "Data2", "from_index": "Int", "to_index": "Int", "col": "Int", "x0": "Real", "random_state": "None"},
               calls={RW: "contract"},
               requires=WINDOW + ["valid_col(data, col)"],
               ensures=[SAME, outside_unchanged(["col"]),
                        # the added noise is a random walk: starts at x0, moves by +-1/sqrt(window length)
                        "implies(to_index > from_index, %s == x0)" % (NOISE % ("from_index", "from_index")),
                        "forall(i, from_index + 1, to_index, %s - %s == 1 / sqrt(to_index - from_index) or "
                        "%s - %s == -1 / sqrt(to_index - from_index))" % (NOISE % ("i", "i"), NOISE % ("i - 1", "i - 1"),
                                                                          NOISE % ("i", "i"), NOISE % ("i - 1", "i - 1")),
                        INPUT_KEPT],
               modifies=["_columns"], check_invariant=False)

    # -- LabelProbabilityInjector: frame and provenance of the resampled rows (the class frequencies are a statistical
    #    claim outside this technique; the probability bookkeeping is opaque) ---------------------------------------------
    LP = LM + "LabelProbabilityInjector"
    R.klass(LP, fields={"_columns": "Opt[Opaque[Cols2]]", "_p_distribution": "Opaque[AnyList]"}, invariant=[])
    ROWS_OUT = ("forall(i, 0, mrows(data), forall(j, 0, mcols(data), implies(i < from_index or i >= to_index, "
                "cell(result, i, j) == old(cell(data, i, j)))))")
    # every row of the window is a copy of some row of the window of the input
    ROWS_IN = ("forall(i, from_index, to_index, exists(k, from_index, to_index, forall(j, 0, mcols(data), "
               "cell(result, i, j) == old(cell(data, k, j)))))")
    R.contract(LP + ".__call__", tags=("C20",),
               params={"data": "Data2", "from_index": "Int", "to_index": "Int", "target_col": "Int",
                       "class_probabilities": "Opaque[AnyDict]"},
               requires=WINDOW + ["valid_col(data, target_col)"],
               raises={"ValueError": {"when": "True"}},
               ensures=[SAME, ROWS_OUT, ROWS_IN, INPUT_KEPT],
               modifies=["_columns", "_p_distribution"], check_invariant=False,
               loops={0: {"index": "k0", "invariant": []},
                      1: {"index": "k1", "types": {"sample_idxs_grouped": "IdxBag"},
                          "havoc_locals": ["sample_idxs_grouped", "cls", "cls_idx", "p_individual"],
                          "havoc_fields": {"_p_distribution": "Opaque[AnyList]"},
                          "invariant": ["bag_within(sample_idxs_grouped, from_index, to_index)"]}})

    LD = LM + "LabelDirichletInjector"
    R.klass(LD, fields={"_columns": "Opt[Opaque[Cols2]]", "_alpha_classes": "Opaque[AnyList]", "_alpha_values": "Opaque[AnyList]",
                        "_dirichlet_distribution": "Opaque[AnyList]", "_dirichlet_probabilities": "Opaque[AnyDict]"}, invariant=[])
    R.contract(LD + ".__call__", tags=("C20",),
               params={"data": "Data2", "from_index": "Int", "to_index": "Int", "target_col": "Int", "alpha": "Opaque[AnyDict]"},
               requires=WINDOW + ["valid_col(data, target_col)"],
               raises={"ValueError": {"when": "True"}},
               ensures=[SAME, ROWS_OUT, ROWS_IN, INPUT_KEPT],
               modifies=["_alpha_classes", "_alpha_values", "_dirichlet_distribution", "_dirichlet_probabilities"],
               check_invariant=False)
