"""Contracts for menelaus.data_drift.kdq_tree (C09 streaming schedule and persistence rule, C01, C02) -- skeleton proofs:
the partitioner is opaque (its own claims are C08), the bootstrap critical value is whatever _inner_set_reference
stores; what is proved is the control flow that relates the stored divergence to the decision."""
from .detector_base import STREAM_FIELDS, STREAM_INV

KS = "menelaus.data_drift.kdq_tree:KdqTreeStreaming"
KD = "menelaus.data_drift.kdq_tree:KdqTreeDetector"

FRESH = "old(self._drift_state) == 'drift'"


def ep(f, zero):
    return "(%s if %s else old(self.%s))" % (zero, FRESH, f)


NREF0 = "(0 if %s else len(old(self._ref_data)))" % FRESH
TREE0 = "(%s or old(self._kdqtree) is None)" % FRESH           # no tree at the start of this update
TS0 = ep("_test_data_size", "0")
DC0 = ep("_drift_counter", "0")


def register(R):
    f = dict(STREAM_FIELDS)
    f.update({"alpha": "Real", "bootstrap_samples": "Int", "count_ubound": "Int", "cutpoint_proportion_lbound": "Real",
              "window_size": "Int", "persistence": "Real", "_ref_data": "NdRows", "_test_data_size": "Nat",
              "_kdqtree": "Opt[KTree]", "_critical_dist": "Opt[Real]", "_test_dist": "Opt[Real]", "_drift_counter": "Nat"})
    R.klass(KS, fields=f, invariant=STREAM_INV + [
        ("C09", "self.window_size >= 1"),
        ("C09", "implies(self._kdqtree is None, len(self._ref_data) < self.window_size)"),
        ("C09", "implies(self._kdqtree is not None, self._critical_dist is not None)"),
        # C01 / C09: silent until a further window_size samples have arrived after the tree was built
        ("C01", "implies(self._drift_state is not None, self._drift_state == 'drift' and self._kdqtree is not None and "
                "self._test_data_size >= self.window_size)"),
    ])
    # builds the tree and the critical value from the reference window; resets the epoch (proved separately? no: opaque
    # partitioner + bootstrap) -- ASSUMED contract, its effect on the fields is what the code visibly does
    R.contract(KD + "._inner_set_reference", tags=("C09",), modular=True,
               params={"ary": "NdRows", "input_type": "Str"},
               ensures=["self._kdqtree is not None", "self._critical_dist is not None", "self._test_data_size == 0",
                        "self._test_dist is None", "self._samples_since_reset == 0", "self._drift_state is None",
                        "self._drift_counter == 0", "len(self._ref_data) == 0",
                        "self._total_samples == old(self._total_samples)"],
               modifies=["_kdqtree", "_critical_dist", "_test_data_size", "_test_dist", "_samples_since_reset", "_drift_state",
                         "_drift_counter", "_ref_data"], check_invariant=False)
    REJECT = ("(is_df(X) and self._input_cols is not None and not cols_equal(cols(X), self._input_cols)) or "
              "((not is_df(X)) and self._input_col_dim is not None and width(X) != self._input_col_dim) or rows(X) != 1")
    R.contract(KS + ".update", tags=("C09", "C01"), params={"X": "RawX", "y_true": "RawY", "y_pred": "RawY"},
               reads_not=["y_true", "y_pred"], reads_not_tags=("C16",),
               raises={"ValueError": {"when": REJECT, "iff": True, "tags": "C14", "ensures": [
                   ("C14", "self._total_samples == old(self._total_samples)"),
                   ("C14", "implies(not %s, unchanged(self))" % FRESH)]}},
               ensures=[
                   ("C01", "self._total_samples == old(self._total_samples) + 1"),
                   # the tree is built from the first window_size samples of an epoch (and the epoch counter restarts)
                   ("C09", "implies(%s and %s + 1 == self.window_size, self._kdqtree is not None and self._test_data_size == 0 "
                           "and self._drift_counter == 0 and self._samples_since_reset == 0 and self._drift_state is None)" % (TREE0, NREF0)),
                   ("C09", "implies(%s and %s + 1 != self.window_size, self._kdqtree is None and len(self._ref_data) == %s + 1 "
                           "and self._drift_state is None)" % (TREE0, NREF0, NREF0)),
                   ("C01", "implies(not (%s and %s + 1 == self.window_size), self._samples_since_reset == "
                           "(1 if %s else old(self._samples_since_reset) + 1))" % (TREE0, NREF0, FRESH)),
                   # test phase: counts accumulate; silent until window_size test samples; persistence = consecutive samples
                   ("C09", "implies(not %s, self._test_data_size == old(self._test_data_size) + 1)" % TREE0),
                   ("C09", "implies(not %s and self._test_data_size < self.window_size, self._drift_state is None and "
                           "self._drift_counter == old(self._drift_counter))" % TREE0),
                   ("C09", "implies(not %s and self._test_data_size >= self.window_size, "
                           "self._drift_counter == (old(self._drift_counter) + 1 if self._test_dist > self._critical_dist else 0))" % TREE0),
                   ("C09", "implies(not %s and self._test_data_size >= self.window_size, "
                           "(self._drift_state == 'drift') == (self._test_dist > self._critical_dist and "
                           "self._drift_counter > self.persistence * self.window_size))" % TREE0),
               ],
               modifies=["_total_samples", "_samples_since_reset", "_drift_state", "_input_cols", "_input_col_dim", "_ref_data",
                         "_test_data_size", "_kdqtree", "_critical_dist", "_test_dist", "_drift_counter"])
    R.contract(KS + ".reset", tags=("C02", "C09"), params={},
               ensures=["self._samples_since_reset == 0 and self._drift_state is None and self._kdqtree is None and "
                        "self._test_data_size == 0 and self._drift_counter == 0 and len(self._ref_data) == 0 and "
                        "self._critical_dist is None and self._test_dist is None",
                        "self._total_samples == old(self._total_samples)"],
               modifies=["_samples_since_reset", "_drift_state", "_ref_data", "_test_data_size", "_kdqtree", "_critical_dist",
                         "_test_dist", "_drift_counter"])
