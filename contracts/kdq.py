"""Contracts for menelaus.data_drift.kdq_tree (C09 streaming schedule and persistence rule, C01, C02) -- skeleton proofs:
the partitioner is opaque (its own claims are C08), the bootstrap critical value is whatever _inner_set_reference
stores; what is proved is the control flow that relates the stored divergence to the decision."""
from .detector_base import STREAM_FIELDS, STREAM_INV

KS = "menelaus.data_drift.kdq_tree:KdqTreeStreaming"
KD = "menelaus.data_drift.kdq_tree:KdqTreeDetector"

FRESH = "old(self._drift_state) == 'drift'"


def ep(f, zero):
    return "(%s if %s else old(self.%s))" % (zero, FRESH, f)


NREF0 = "(0 if %s else len(old(self._ref_data)))" % FRESH
TREE0 = "(%s or old(self._kdqtree) is None)" % FRESH           # no tree at the start of this update
TS0 = ep("_test_data_size", "0")
DC0 = ep("_drift_counter", "0")


ISR_COMMON = dict(
    tags=("C09",), calls={"menelaus.partitioners.KDQTreePartitioner:KDQTreePartitioner": "opaque"},
    assume_invariant=False, check_invariant=False,
    # ghost: number of rows of the block the current tree was built from
    ghost_update=["self.ghost.ref_rows = len(ary)"])
ISR_STREAM = dict(ISR_COMMON, params={"ary": "NdRows", "input_type": "Str"}, requires=["input_type == 'stream'"],
                  ensures=["self._kdqtree is not None", "self._critical_dist is not None", "self._test_data_size == 0",
                           "self._test_dist is None", "self._samples_since_reset == 0", "self._drift_state is None",
                           "self._drift_counter == 0", "len(self._ref_data) == 0",
                           "self._total_samples == old(self._total_samples)",
                           # the bootstrap draws window_size leaves per sample in the streaming case
                           "self.ghost.boot_n == self.window_size"],
                  modifies=["_kdqtree", "_critical_dist", "_test_data_size", "_test_dist", "_samples_since_reset", "_drift_state",
                            "_drift_counter", "_ref_data"])
# KdqTreeBatch inherits it with the batch counters (reset is BatchDetector.reset + KdqTreeDetector.reset)
ISR_BATCH = dict(ISR_COMMON, params={"ary": "Nd2", "input_type": "Str"}, requires=["input_type == 'batch'"],
                 ensures=["self._kdqtree is not None", "self._critical_dist is not None", "self._test_data_size == 0",
                          "self._test_dist is None", "self._batches_since_reset == 0", "self._drift_state is None",
                          "self._total_batches == old(self._total_batches)", "len(self._ref_data) == 0",
                          # ... and as many as the reference has rows in the batch case (C08: leaf counts add up to them)
                          "self.ghost.boot_n == len(ary)"],
                 modifies=["_kdqtree", "_critical_dist", "_test_data_size", "_test_dist", "_batches_since_reset", "_drift_state",
                           "_ref_data"])


def register(R):
    f = dict(STREAM_FIELDS)
    f.update({"alpha": "Real", "bootstrap_samples": "Int", "count_ubound": "Int", "cutpoint_proportion_lbound": "Real",
              "window_size": "Int", "persistence": "Real", "_ref_data": "NdRows", "_test_data_size": "Nat",
              "_kdqtree": "Opt[KTree]", "_critical_dist": "Opt[Real]", "_test_dist": "Opt[Real]", "_drift_counter": "Nat"})
    R.klass(KS, fields=f, ghost={"ref_rows": "Int", "boot_n": "Int"}, invariant=STREAM_INV + [
        ("C09", "self.window_size >= 1"),
        ("C09", "implies(self._kdqtree is None, len(self._ref_data) < self.window_size)"),
        ("C09", "implies(self._kdqtree is not None, self._critical_dist is not None)"),
        # C01 / C09: silent until a further window_size samples have arrived after the tree was built
        ("C01", "implies(self._drift_state is not None, self._drift_state == 'drift' and self._kdqtree is not None and "
                "self._test_data_size >= self.window_size)"),
    ])
    # builds the tree and the critical value from the reference window; resets the epoch (proved separately? no: opaque
    # partitioner + bootstrap) -- ASSUMED contract, its effect on the fields is what the code visibly does
    # the Monte-Carlo critical value: ASSUMED (a real number, nothing modified); the bounded tier re-draws it under the seed
    # verified per receiver class with the bootstrap loop abstracted (its body is not verified; recorded as an assumption):
    # the tail - the entropies and np.quantile - returns a real number, nothing is modified, no exception escapes the tail
    CK = dict(tags=("C09",), params={"ref_counts": "List[Nat]", "sample_size": "Int"},
              result="Real", ensures=[], modifies=[], check_invariant=False, assume_invariant=False,
              ghost_update=["self.ghost.boot_n = sample_size"], calls={"pandas.DataFrame": "any"},
              loops={0: {"abstract": True, "index": "k0", "havoc_locals": ["b_dist_pairs", "b_sample", "b_hist1", "b_hist2"],
                         "types": {"b_dist_pairs": "AnyList"}, "invariant": []}})
    R.contract(KD + "._get_critical_kld", modular=True, verified_by=[KS + "._get_critical_kld", KB + "._get_critical_kld"], **CK)
    R.contract(KS + "._get_critical_kld", **CK)
    R.contract(KB + "._get_critical_kld", **CK)
    # C17: a smaller alpha never lowers the critical value.  Two runs of the real function on the same leaf counts and
    # sample size, differing in self.alpha only; the bootstrap loop is abstracted (its body is not verified here) and shown
    # not to read alpha (dependency analysis), so both runs collect the same distribution pairs; the tail - the list of
    # entropies and np.quantile(..., 1 - alpha, method="nearest") - is executed symbolically
    for nm, cls in (("KdqTreeStreaming_alpha", "KdqTreeStreaming"), ("KdqTreeBatch_alpha", "KdqTreeBatch")):
        R.relational(nm, function=KD + "._get_critical_kld", on_self=cls, tags=("C17",), vary=["alpha"],
                     requires=["same_except(self1, self2, 'alpha')", "0 < self1.alpha and self1.alpha <= self2.alpha and self2.alpha < 1"],
                     ensures=["result1 >= result2", "same_except(self1, self2, 'alpha')"],
                     calls={"pandas.DataFrame": "any", "menelaus.partitioners.KDQTreePartitioner:KDQTreePartitioner._distn_from_counts": "any"},
                     loops={KD + "._get_critical_kld": {0: {"abstract": True, "independent": True, "index": "k0",
                                                          "havoc_locals": ["b_dist_pairs", "b_sample", "b_hist1", "b_hist2"],
                                                          "types": {"b_dist_pairs": "AnyList"}, "invariant": []}}})
    # _inner_set_reference is inherited by both detectors; its effect is stated per receiver class (counter names
    # differ) and VERIFIED per receiver class below (targets KS/KB + "._inner_set_reference"); call sites use this entry.
    R.contract(KD + "._inner_set_reference", modular=True, verified_by=[KS + "._inner_set_reference", KB + "._inner_set_reference"],
               for_class={"KdqTreeBatch": dict(ISR_BATCH)}, **ISR_STREAM)
    R.contract(KS + "._inner_set_reference", **ISR_STREAM)
    R.contract(KB + "._inner_set_reference", **ISR_BATCH)
    REJECT = ("(is_df(X) and self._input_cols is not None and not cols_equal(cols(X), self._input_cols)) or "
              "((not is_df(X)) and self._input_col_dim is not None and width(X) != self._input_col_dim) or rows(X) != 1")
    R.contract(KS + ".update", tags=("C09", "C01"), params={"X": "RawX", "y_true": "RawY", "y_pred": "RawY"},
               reads_not=["y_true", "y_pred"], reads_not_tags=("C16",),
               raises={"ValueError": {"when": REJECT, "iff": True, "tags": "C14", "ensures": [
                   ("C14", "self._total_samples == old(self._total_samples)"),
                   ("C14", "implies(not %s, unchanged(self))" % FRESH)]}},
               ensures=[
                   ("C01", "self._total_samples == old(self._total_samples) + 1"),
                   # the tree is built from the first window_size samples of an epoch (and the epoch counter restarts)
                   ("C09", "implies(%s and %s + 1 == self.window_size, self._kdqtree is not None and self._test_data_size == 0 "
                           "and self._drift_counter == 0 and self._samples_since_reset == 0 and self._drift_state is None)" % (TREE0, NREF0)),
                   ("C09", "implies(%s and %s + 1 != self.window_size, self._kdqtree is None and len(self._ref_data) == %s + 1 "
                           "and self._drift_state is None)" % (TREE0, NREF0, NREF0)),
                   ("C01", "implies(not (%s and %s + 1 == self.window_size), self._samples_since_reset == "
                           "(1 if %s else old(self._samples_since_reset) + 1))" % (TREE0, NREF0, FRESH)),
                   # test phase: counts accumulate; silent until window_size test samples; persistence = consecutive samples
                   ("C09", "implies(not %s, self._test_data_size == old(self._test_data_size) + 1)" % TREE0),
                   ("C09", "implies(not %s and self._test_data_size < self.window_size, self._drift_state is None and "
                           "self._drift_counter == old(self._drift_counter))" % TREE0),
                   ("C09", "implies(not %s and self._test_data_size >= self.window_size, "
                           "self._drift_counter == (old(self._drift_counter) + 1 if self._test_dist > self._critical_dist else 0))" % TREE0),
                   ("C09", "implies(not %s and self._test_data_size >= self.window_size, "
                           "(self._drift_state == 'drift') == (self._test_dist > self._critical_dist and "
                           "self._drift_counter > self.persistence * self.window_size))" % TREE0),
               ],
               modifies=["_total_samples", "_samples_since_reset", "_drift_state", "_input_cols", "_input_col_dim", "_ref_data",
                         "_test_data_size", "_kdqtree", "_critical_dist", "_test_dist", "_drift_counter"])
    register_batch(R)
    # (C01: the warm-up of the next epoch - a full reference window, then a full test window - starts from these zeros)
    R.contract(KS + ".reset", tags=("C02", "C09", "C01"), params={},
               ensures=["self._samples_since_reset == 0 and self._drift_state is None and self._kdqtree is None and "
                        "self._test_data_size == 0 and self._drift_counter == 0 and len(self._ref_data) == 0 and "
                        "self._critical_dist is None and self._test_dist is None",
                        "self._total_samples == old(self._total_samples)"],
               modifies=["_samples_since_reset", "_drift_state", "_ref_data", "_test_data_size", "_kdqtree", "_critical_dist",
                         "_test_dist", "_drift_counter"])


KB = "menelaus.data_drift.kdq_tree:KdqTreeBatch"
B_REJECT = ("(is_df(X) and self._input_cols is not None and not cols_equal(cols(X), self._input_cols)) or "
            "((not is_df(X)) and self._input_col_dim is not None and bwidth(X) != self._input_col_dim) or brows(X) <= 1")


def register_batch(R):
    from .detector_base import BATCH_FIELDS, MEMO_INV
    f = dict(BATCH_FIELDS)
    f.update({"alpha": "Real", "bootstrap_samples": "Int", "count_ubound": "Int", "cutpoint_proportion_lbound": "Real",
              "_ref_data": "NdRows", "_test_data_size": "Nat", "_kdqtree": "Opt[KTree]", "_critical_dist": "Opt[Real]",
              "_test_dist": "Opt[Real]", "ref_data": "Nd2"})
    R.klass(KB, fields=f, ghost={"ref_rows": "Int", "boot_n": "Int"}, invariant=[
        ("C01", "self._drift_state is None or self._drift_state == 'drift'"),
        ("C01", "0 <= self._batches_since_reset and self._batches_since_reset <= self._total_batches"),
        ("C09", "implies(self._kdqtree is not None, self._critical_dist is not None)"),
        ("C09", "implies(self._drift_state == 'drift', self._kdqtree is not None)"),
        ("C09", "implies(self._kdqtree is None, len(self._ref_data) == 0)"),
        # the remembered batch was an accepted input: re-validating it at the next update cannot fail
        ("C09", "implies(self._drift_state == 'drift', self._input_col_dim is not None and "
                "self.ref_data.shape[1] == self._input_col_dim and self.ref_data.shape[0] >= 2)"),
    ] + list(MEMO_INV))
    R.contract(KB + ".update", tags=("C09", "C01"), params={"X": "RawX", "y_true": "RawY", "y_pred": "RawY"},
               reads_not=["y_true", "y_pred"], reads_not_tags=("C16",),
               calls={KD + "._inner_set_reference": "contract"},
               raises={"ValueError": {"when": B_REJECT, "iff": True, "tags": "C14", "ensures": [
                   ("C14", "self._total_batches == old(self._total_batches)")]}},
               ensures=[
                   ("C01", "self._total_batches == old(self._total_batches) + 1"),
                   # building a reference restarts the epoch counter (the reference batch is batch 0 of its epoch)
                   ("C01", "self._batches_since_reset == (0 if (old(self._kdqtree) is None and not %s) else "
                           "(1 if %s else old(self._batches_since_reset) + 1))" % (FRESH, FRESH)),
                   # first batch after construction / user reset: it becomes the reference, nothing is reported
                   ("C09", "implies(old(self._kdqtree) is None and not %s, self._kdqtree is not None and self._drift_state is None)" % FRESH),
                   # otherwise: drift exactly when the stored divergence exceeds the stored critical value
                   ("C09", "implies(old(self._kdqtree) is not None or %s, (self._drift_state == 'drift') == "
                           "(self._test_dist > self._critical_dist))" % FRESH),
                   # the drifted batch is remembered as the next reference ...
                   ("C09", "implies(self._drift_state == 'drift', self.ref_data.shape[0] == brows(X) and self.ref_data.shape[1] == bwidth(X) and "
                           "forall(i, 0, brows(X), forall(j, 0, bwidth(X), self.ref_data[i][j] == bval(X, i, j))))"),
                   # ... and after a drift the tree is rebuilt from it before the new batch is examined
                   ("C09", "implies(%s, self.ghost.ref_rows == old(self.ref_data).shape[0])" % FRESH),
                   ("C09", "implies(old(self._kdqtree) is None and not %s, self.ghost.ref_rows == brows(X))" % FRESH),
                   ("C09", "implies(old(self._kdqtree) is not None and not %s, self.ghost.ref_rows == old(self.ghost.ref_rows))" % FRESH),
               ],
               modifies=["_total_batches", "_batches_since_reset", "_drift_state", "_input_cols", "_input_col_dim", "_ref_data",
                         "_test_data_size", "_kdqtree", "_critical_dist", "_test_dist", "ref_data"])
    R.contract(KB + ".set_reference", tags=("C09",), params={"X": "RawX", "y_true": "RawY", "y_pred": "RawY"},
               reads_not=["y_true", "y_pred"], reads_not_tags=("C16",),
               calls={KD + "._inner_set_reference": "contract"},
               raises={"ValueError": {"when": B_REJECT, "iff": True, "tags": "C14", "ensures": [("C14", "unchanged(self)")]}},
               ensures=["self._kdqtree is not None and self._drift_state is None and self._batches_since_reset == 0",
                        "self._total_batches == old(self._total_batches)", "self.ghost.ref_rows == brows(X)",
                        "self._test_dist is None and self._test_data_size == 0"],
               modifies=["_batches_since_reset", "_drift_state", "_input_cols", "_input_col_dim", "_ref_data",
                         "_test_data_size", "_kdqtree", "_critical_dist", "_test_dist"])
    R.contract(KB + ".reset", tags=("C02", "C09"), params={},
               ensures=["self._batches_since_reset == 0 and self._drift_state is None and self._kdqtree is None and "
                        "self._test_data_size == 0 and len(self._ref_data) == 0 and self._critical_dist is None and "
                        "self._test_dist is None", "self._total_batches == old(self._total_batches)"],
               modifies=["_batches_since_reset", "_drift_state", "_ref_data", "_test_data_size", "_kdqtree", "_critical_dist",
                         "_test_dist"])
