"""Contracts for menelaus.data_drift.pca_cd:PCACD within the verifier's reach (C11): the intersection divergence of two
histogram densities.  The PCA / KDE / histogram pipeline of update() is bounded only."""

Q = "menelaus.data_drift.pca_cd:PCACD"

SPEC = '''
@recursive("Array[Real]", "Array[Real]", "Int", "Real")
def min_sum(p, q, k):
    # sum over the first k bins of min(p, q): the area two histograms on the same bins share
    return 0 if k <= 0 else min_sum(p, q, k - 1) + (p[k - 1] if p[k - 1] <= q[k - 1] else q[k - 1])
'''


def register(R):
    R.specfn(SPEC)
    R.klass(Q, fields={})
    R.lemma("min_sum_vector_form", params={"p": "Vec", "q": "Vec", "k": "Int"}, requires=["k >= 0"],
            ensures=["asum(vmin2(p, q), 0, k) == min_sum(p, q, k)"], induct=("k", "0"))
    R.contract(Q + "._intersection_divergence", tags=("C11",),
               params={"density_reference": "Dict[density:Vec]", "density_test": "Dict[density:Vec]"}, result="Real",
               requires=["len(density_reference['density']) == len(density_test['density'])"],
               ensures=["result == 1 - min_sum(density_reference['density'], density_test['density'], len(density_test['density']))"],
               use_exit=["min_sum_vector_form(density_reference['density'], density_test['density'], len(density_test['density']))"],
               modifies=None, check_invariant=False, assume_invariant=False)
    # C11: the change score of a window compared with itself is 0; it is symmetric and lies in [0, 1] for distributions
    R.lemma("min_sum_identity", params={"p": "Vec", "k": "Int"}, requires=["k >= 0"],
            ensures=["min_sum(p, p, k) == asum(p, 0, k)"], induct=("k", "0"))
    R.lemma("min_sum_symmetric", params={"p": "Vec", "q": "Vec", "k": "Int"}, requires=["k >= 0"],
            ensures=["min_sum(p, q, k) == min_sum(q, p, k)"], induct=("k", "0"))
    R.lemma("min_sum_range", params={"p": "Vec", "q": "Vec", "k": "Int"},
            requires=["k >= 0", "forall(i, 0, k, p[i] >= 0 and q[i] >= 0)"],
            ensures=["0 <= min_sum(p, q, k)", "min_sum(p, q, k) <= asum(p, 0, k)", "min_sum(p, q, k) <= asum(q, 0, k)"],
            induct=("k", "0"))
