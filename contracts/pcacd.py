"""Contracts for menelaus.data_drift.pca_cd:PCACD within the verifier's reach (C11): the intersection divergence of two
histogram densities.  The PCA / KDE / histogram pipeline of update() is bounded only."""

Q = "menelaus.data_drift.pca_cd:PCACD"

SPEC = '''
@recursive("Array[Real]", "Array[Real]", "Int", "Real")
def min_sum(p, q, k):
    # sum over the first k bins of min(p, q): the area two histograms on the same bins share
    return 0 if k <= 0 else min_sum(p, q, k - 1) + (p[k - 1] if p[k - 1] <= q[k - 1] else q[k - 1])
'''


def register(R):
    R.specfn(SPEC)
    R.klass(Q, fields={})
    register_update(R)
    R.lemma("min_sum_vector_form", params={"p": "Vec", "q": "Vec", "k": "Int"}, requires=["k >= 0"],
            ensures=["asum(vmin2(p, q), 0, k) == min_sum(p, q, k)"], induct=("k", "0"))
    R.contract(Q + "._intersection_divergence", tags=("C11",),
               params={"density_reference": "Dict[density:Vec]", "density_test": "Dict[density:Vec]"}, result="Real",
               requires=["len(density_reference['density']) == len(density_test['density'])"],
               ensures=["result == 1 - min_sum(density_reference['density'], density_test['density'], len(density_test['density']))"],
               use_exit=["min_sum_vector_form(density_reference['density'], density_test['density'], len(density_test['density']))"],
               modifies=None, check_invariant=False, assume_invariant=False)
    # C11: the change score of a window compared with itself is 0; it is symmetric and lies in [0, 1] for distributions
    R.lemma("min_sum_identity", params={"p": "Vec", "k": "Int"}, requires=["k >= 0"],
            ensures=["min_sum(p, p, k) == asum(p, 0, k)"], induct=("k", "0"))
    R.lemma("min_sum_symmetric", params={"p": "Vec", "q": "Vec", "k": "Int"}, requires=["k >= 0"],
            ensures=["min_sum(p, q, k) == min_sum(q, p, k)"], induct=("k", "0"))
    R.lemma("min_sum_range", params={"p": "Vec", "q": "Vec", "k": "Int"},
            requires=["k >= 0", "forall(i, 0, k, p[i] >= 0 and q[i] >= 0)"],
            ensures=["0 <= min_sum(p, q, k)", "min_sum(p, q, k) <= asum(p, 0, k)", "min_sum(p, q, k) <= asum(q, 0, k)"],
            induct=("k", "0"))


# ---- update(): skeleton of the window schedule, the reference hand-over, the scoring schedule and the decision (C11) -------
from .detector_base import STREAM_FIELDS, STREAM_INV  # noqa: E402

QS = Q + "@skeleton"
W = "self.window_size"
B0 = "old(self._build_reference_and_test)"
D0 = "(old(self._drift_state) is not None)"
T1 = "(self._total_samples - 1)"
SCHEDULED = "((%s %% self.step) == 0 and %s != 0)" % (T1, T1)
REF0, TEST0 = "old(self._reference_window)", "old(self._test_window)"
# the window an observation lands in while the two windows are being filled
FILL_REF = "(%s and not %s and df_rows(%s) < %s)" % (B0, D0, REF0, W)
FILL_TEST = "(%s and not %s and df_rows(%s) >= %s and df_rows(%s) < %s)" % (B0, D0, REF0, W, TEST0, W)


def register_update(R):
    f = dict(STREAM_FIELDS)
    f.update({"window_size": "Int", "ev_threshold": "Real", "divergence_metric": "Str", "sample_period": "Real", "step": "Int",
              "ph_threshold": "Int", "bins": "Int", "delta": "Real", "_drift_detection_monitor": "Obj[PHMonitor]",
              "num_pcs": "Opt[Int]", "online_scaling": "Bool", "_reference_scaler": "Opaque[Scaler]",
              "_build_reference_and_test": "Bool", "_reference_window": "DF", "_test_window": "DF", "_pca": "Opt[Opaque[Pca]]",
              "_reference_pca_projection": "DF", "_test_pca_projection": "DF", "_density_reference": "Opaque[AnyDict]",
              "_density_test": "Opaque[AnyDict]", "lower": "Opaque[AnyDict]", "upper": "Opaque[AnyDict]",
              "_change_score": "Opaque[AnyList]"})
    R.klass("spec:PHMonitor", fields={"st": "Opaque[MonState]"})
    R.klass(Q, fields=f, ghost={"score": "Real", "obs": "DF"}, invariant=STREAM_INV + [
        ("C11", "self.window_size >= 1 and self.step >= 1"),
        ("C11", "df_rows(self._reference_window) <= self.window_size and df_rows(self._test_window) <= self.window_size"),
        # scoring mode: both windows are full and the components are fitted
        ("C11", "implies(not self._build_reference_and_test, df_rows(self._reference_window) == self.window_size and "
                "df_rows(self._test_window) == self.window_size and self.num_pcs is not None and self._pca is not None and "
                "self._drift_state is None)"),
        # filling mode: the test window only starts once the reference window is full; a pending drift has a full test window
        ("C11", "implies(self._build_reference_and_test and self._drift_state is None, "
                "df_rows(self._test_window) < self.window_size and "
                "(df_rows(self._test_window) == 0 or df_rows(self._reference_window) == self.window_size))"),
        ("C11", "implies(self._drift_state is not None, self._drift_state == 'drift' and self._build_reference_and_test and "
                "df_rows(self._test_window) == self.window_size)"),
    ])
    abstract = lambda **kw: dict({"abstract": True, "index": "k", "invariant": []}, **kw)
    R.contract(Q + ".update", tags=("C11", "C01"), params={"X": "RawX", "y_true": "RawY", "y_pred": "RawY"},
               reads_not=["y_true", "y_pred"], reads_not_tags=("C16",),
               calls={Q + "._build_histograms": "any", Q + "._build_kde": "any", Q + "._jensen_shannon_distance": "any",
                      Q + "._intersection_divergence": "any"},
               raises={"ValueError": {"when": "True"}},
               ensures=[
                   ("C01", "self._total_samples == old(self._total_samples) + 1"),
                   # nothing is reported while the windows are being (re)filled
                   ("C11", "implies(%s, self._drift_state is None)" % B0),
                   # the update that follows a drift: the former test window becomes the reference window, the test window is
                   # empty, the monitor starts afresh, the observation itself is not stored
                   ("C11", "implies(%s and %s, df_rows(self._reference_window) == df_rows(%s) and df_rows(self._test_window) == 0 and "
                           "mon_state(self._drift_detection_monitor) == mon_rst(old(mon_state(self._drift_detection_monitor))) and "
                           "self._build_reference_and_test)" % (B0, D0, TEST0)),
                   ("C11", "implies(%s and %s and not self.online_scaling, self._reference_window == %s)" % (B0, D0, TEST0)),
                   # filling: the observation goes to the reference window until it is full, then to the test window
                   ("C11", "implies(%s, df_rows(self._reference_window) == df_rows(%s) + 1 and self._test_window == %s and "
                           "self._build_reference_and_test)" % (FILL_REF, REF0, TEST0)),
                   ("C11", "implies(%s, df_rows(self._test_window) == df_rows(%s) + 1 and df_rows(self._reference_window) == df_rows(%s))"
                           % (FILL_TEST, TEST0, REF0)),
                   # scoring starts exactly when the test window is full
                   ("C11", "implies(%s and not %s, self._build_reference_and_test == (df_rows(self._test_window) != %s))" % (B0, D0, W)),
                   ("C11", "implies(%s, mon_state(self._drift_detection_monitor) == old(mon_state(self._drift_detection_monitor)) or %s)"
                           % (B0, D0)),
                   # scoring mode: the test window slides by one observation, the reference window stays
                   ("C11", "implies(not %s, df_rows(self._test_window) == %s and self._reference_window == %s)" % (B0, W, REF0)),
                   # the newest row of the test window is the current observation (as a one-row frame: the raw observation when
                   # online_scaling is off, its scaled image otherwise), the oldest row is dropped
                   ("C11", "implies(not %s, df_rows(self.ghost.obs) == 1 and df_last(self._test_window) == df_last(self.ghost.obs) and "
                           "self._test_window == df_concat(df_tail(%s), self.ghost.obs))" % (B0, TEST0)),
                   # (that this frame is pd.DataFrame(X) of the validated observation is visible in the code path but not claimed:
                   # the identity between the raw argument and the validated block makes the query too heavy, as for HDDDM)
                   # the score is computed and fed to the monitor exactly every `step` samples ...
                   ("C11", "implies(not %s and not %s, mon_state(self._drift_detection_monitor) == old(mon_state(self._drift_detection_monitor)) "
                           "and self._drift_state is None and not self._build_reference_and_test)" % (B0, SCHEDULED)),
                   ("C11", "implies(not %s and %s, mon_state(self._drift_detection_monitor) == "
                           "mon_upd(old(mon_state(self._drift_detection_monitor)), self.ghost.score))" % (B0, SCHEDULED)),
                   # ... and drift is reported exactly when the monitor alarms; the windows are then rebuilt
                   ("C11", "implies(not %s and %s, (self._drift_state == 'drift') == mon_alarm(self._drift_detection_monitor) and "
                           "(self._drift_state is None or self._drift_state == 'drift') and "
                           "self._build_reference_and_test == mon_alarm(self._drift_detection_monitor))" % (B0, SCHEDULED)),
               ],
               ghost_update=["self.ghost.score = change_score if (not %s and %s) else old(self.ghost.score)" % (B0, SCHEDULED),
                             "self.ghost.obs = next_obs if not %s else old(self.ghost.obs)" % B0],
               modifies=["_total_samples", "_samples_since_reset", "_drift_state", "_input_cols", "_input_col_dim",
                         "_reference_window", "_test_window", "_build_reference_and_test", "_pca", "num_pcs",
                         "_reference_pca_projection", "_test_pca_projection", "_density_reference", "_density_test", "lower", "upper",
                         "_change_score", "_drift_detection_monitor"],
               loops={0: abstract(havoc_fields={"lower": "Opaque[AnyDict]", "upper": "Opaque[AnyDict]", "_density_reference": "Opaque[AnyDict]"}),
                      1: abstract(havoc_locals=["next_proj"], types={"next_proj": "DF"}),
                      2: abstract(havoc_fields={"_density_test": "Opaque[AnyDict]"}),
                      3: abstract(havoc_locals=["change_scores"], types={"change_scores": "AnyList"}),
                      4: abstract(havoc_locals=["change_scores"], types={"change_scores": "AnyList"})})
