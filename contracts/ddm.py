"""Contracts for menelaus.concept_drift.ddm:DDM  (C01 lifecycle, C05 specification, C14 rejected calls, C16)."""
from .detector_base import STREAM_FIELDS, STREAM_INV

Q = "menelaus.concept_drift.ddm:DDM"

SPEC = '''
def ddm_rate1(rate0, e, n):
    return rate0 + (e - rate0) / n

def ddm_std1(std0, rate0, e, n):
    return sqrt((std0 + (e - ddm_rate1(rate0, e, n)) * (e - rate0)) / n)
'''

# values at the start of the epoch the update belongs to: re-initialised when the previous update reported drift
R0 = "(0 if old(self._drift_state) == 'drift' else old(self._error_rate))"
S0 = "(0 if old(self._drift_state) == 'drift' else old(self._error_std))"
E = "err(y_true, y_pred)"
N = "self._samples_since_reset"
RATE1 = "ddm_rate1(%s, %s, %s)" % (R0, E, N)
STD1 = "ddm_std1(%s, %s, %s, %s)" % (S0, R0, E, N)
# minimum tracking (epoch-start minimum is +inf)
NEWMIN = ("(%s >= self.n_threshold and (old(self._drift_state) == 'drift' or isinf(old(self._error_rate_min)) or "
          "%s + %s <= old(self._error_rate_min) + old(self._error_std_min)))" % (N, RATE1, STD1))


def register(R):
    R.specfn(SPEC)
    fields = dict(STREAM_FIELDS)
    fields.update({
        "n_threshold": "Int", "warning_scale": "Real", "drift_scale": "Real",
        "_error_rate": "Real", "_error_std": "Real",
        "_error_rate_min": "ExtReal", "_error_std_min": "ExtReal",
        "_retraining_recs": "Pair[Opt[Int]]",
    })
    R.klass(Q, fields=fields,
            ghost={"errs": "Int", "first_warn": "Opt[Int]"},
            ghost_init=["self.ghost.errs = 0", "self.ghost.first_warn = None"],
            params=["n_threshold", "warning_scale", "drift_scale"],
            invariant=STREAM_INV + [
                # C01: nothing is reported before n_threshold samples of the epoch
                ("C01", "implies(self._samples_since_reset < self.n_threshold, self._drift_state is None)"),
                # C05: the error rate is the fraction of errors of the epoch
                ("C05", "self._error_rate * self._samples_since_reset == self.ghost.errs"),
                ("C05", "0 <= self.ghost.errs and self.ghost.errs <= self._samples_since_reset"),
                ("C05", "self._error_std >= 0"),
                # C01 / C05: retraining recommendations
                ("C01", "implies(self._drift_state != 'drift', self._retraining_recs[1] is None)"),
                ("C01", "implies(self._drift_state == 'drift', self._retraining_recs[0] is not None and "
                        "self._retraining_recs[1] is not None and "
                        "self._retraining_recs[0] <= self._retraining_recs[1] and "
                        "self._retraining_recs[1] == self._total_samples - 1)"),
                ("C05", "self._retraining_recs[0] == self.ghost.first_warn"),
                ("C01", "implies(self._retraining_recs[0] is not None, 0 <= self._retraining_recs[0] and "
                        "self._retraining_recs[0] <= self._total_samples - 1)"),
                ("C05", "implies(self._drift_state is not None, self._retraining_recs[0] is not None)"),
            ])

    R.contract(Q + ".__init__", tags=("C01",),
               params={"n_threshold": "Int", "warning_scale": "Real", "drift_scale": "Real"},
               requires=["n_threshold >= 1"],
               ensures=["self.n_threshold == n_threshold", "self.warning_scale == warning_scale",
                        "self.drift_scale == drift_scale", "self._total_samples == 0",
                        "self._samples_since_reset == 0", "self._drift_state is None",
                        "self._error_rate == 0", "self._error_std == 0",
                        "isinf(self._error_rate_min)", "isinf(self._error_std_min)",
                        "self._retraining_recs[0] is None and self._retraining_recs[1] is None"])

    R.contract(Q + ".update", tags=("C01", "C05"),
               params={"y_true": "RawY", "y_pred": "RawY", "X": "RawX"},
               requires=["self.n_threshold >= 1"],
               reads_not=["X"], reads_not_tags=("C16",),
               raises={"ValueError": {
                   "when": "size(y_true) != 1 or size(y_pred) != 1", "iff": True, "tags": "C14",
                   "ensures": [
                       # C14: a rejected call is not counted and changes nothing but the pending reset
                       ("C14", "self._total_samples == old(self._total_samples)"),
                       ("C14", "implies(old(self._drift_state) != 'drift', unchanged(self))"),
                       ("C14", "implies(old(self._drift_state) == 'drift', self._samples_since_reset == 0 and "
                               "self._drift_state is None and self._error_rate == 0 and self._error_std == 0 and "
                               "isinf(self._error_rate_min) and isinf(self._error_std_min) and "
                               "self._retraining_recs[0] is None and self._retraining_recs[1] is None)"),
                   ]}},
               ensures=[
                   ("C01", "self._total_samples == old(self._total_samples) + 1"),
                   ("C01,C02", "self._samples_since_reset == (1 if old(self._drift_state) == 'drift' "
                           "else old(self._samples_since_reset) + 1)"),
                   ("C05", "self._error_rate == " + RATE1),
                   ("C05", "self._error_std == " + STD1),
                   ("C05", "implies(%s, (not isinf(self._error_rate_min)) and self._error_rate_min == self._error_rate "
                           "and self._error_std_min == self._error_std)" % NEWMIN),
                   ("C05", "implies(not %s, self._error_rate_min == (inf() if old(self._drift_state) == 'drift' else "
                           "old(self._error_rate_min)) and self._error_std_min == (inf() if "
                           "old(self._drift_state) == 'drift' else old(self._error_std_min)))" % NEWMIN),
                   ("C05", "implies(%s >= self.n_threshold, self._drift_state == ("
                           "'drift' if self._error_rate + self._error_std >= "
                           "self._error_rate_min + self.drift_scale * self._error_std else "
                           "('warning' if self._error_rate + self._error_std >= "
                           "self._error_rate_min + self.warning_scale * self._error_std else None)))" % N),
                   ("C01", "implies(%s < self.n_threshold, self._drift_state is None)" % N),
               ],
               ghost_update=[
                   "self.ghost.errs = (0 if old(self._drift_state) == 'drift' else old(self.ghost.errs)) + " + E,
                   "fw0 = None if old(self._drift_state) == 'drift' else old(self.ghost.first_warn)",
                   "self.ghost.first_warn = fw0 if fw0 is not None else "
                   "(self._total_samples - 1 if self._drift_state is not None else None)",
               ],
               modifies=["_total_samples", "_samples_since_reset", "_drift_state", "_error_rate", "_error_std",
                         "_error_rate_min", "_error_std_min", "_retraining_recs"])

    R.contract(Q + ".reset", tags=("C02",),
               params={},
               ensures=["self._samples_since_reset == 0", "self._drift_state is None", "self._error_rate == 0",
                        "self._error_std == 0", "isinf(self._error_rate_min)", "isinf(self._error_std_min)",
                        "self._retraining_recs[0] is None and self._retraining_recs[1] is None",
                        "self._total_samples == old(self._total_samples)"],
               ghost_update=["self.ghost.errs = 0", "self.ghost.first_warn = None"],
               modifies=["_samples_since_reset", "_drift_state", "_error_rate", "_error_std",
                         "_error_rate_min", "_error_std_min", "_retraining_recs"])
