"""Two-run obligations for the scalar streaming detectors:
   C16 only agreement matters, C17 stricter threshold never earlier, C02 reset == freshly constructed."""

CD = "menelaus.concept_drift"
CH = "menelaus.change_detection"

SAME_Y = "y_true1 == y_true2 and y_pred1 == y_pred2 and X1 == X2"
AGREE = ("(first(y_true1) == first(y_pred1)) == (first(y_true2) == first(y_pred2)) and "
         "size(y_true1) == size(y_true2) and size(y_pred1) == size(y_pred2)")


def register(R):
    # ---------------------------------------------------------------- C16
    for mod, cls in (("ddm", "DDM"), ("eddm", "EDDM"), ("stepd", "STEPD")):
        q = "%s.%s:%s.update" % (CD, mod, cls)
        R.relational("%s_agreement_only" % cls, function=q, tags=("C16",), vary=[],
                     vary_params=["y_true", "y_pred", "X"],
                     requires=["same_except(self1, self2)", AGREE],
                     ensures=["raised1 == raised2", "same_except(self1, self2)"])
    # ---------------------------------------------------------------- C17 (drift threshold) and warning threshold
    def c17(name, q, param, stricter, extra_free=()):
        free = [param, "_drift_state", "_retraining_recs"] + list(extra_free)
        args = ", ".join(repr(f) for f in free)
        R.relational(name, function=q, tags=("C17",), vary=[param],
                     requires=["same_except(self1, self2, %r)" % param, stricter,
                               "self1._drift_state != 'drift' and self2._drift_state != 'drift'", SAME_Y],
                     ensures=[
                         # statistics do not depend on the threshold ...
                         "raised1 == raised2",
                         "same_except(self1, self2, %s)" % args,
                         # ... and the stricter run alarms only if the looser one does
                         "implies(self1._drift_state == 'drift', self2._drift_state == 'drift')",
                     ])

    c17("DDM_drift_scale", "%s.ddm:DDM.update" % CD, "drift_scale", "self1.drift_scale >= self2.drift_scale")
    c17("EDDM_drift_thresh", "%s.eddm:EDDM.update" % CD, "drift_thresh", "self1.drift_thresh <= self2.drift_thresh")
    c17("STEPD_alpha_drift", "%s.stepd:STEPD.update" % CD, "alpha_drift", "self1.alpha_drift <= self2.alpha_drift")
    c17("PageHinkley_threshold", "%s.page_hinkley:PageHinkley.update" % CH, "threshold",
        # documented domain: a positive threshold (theta = threshold * mean)
        "self1.threshold >= self2.threshold and self2.threshold > 0",
        extra_free=("_theta_threshold", "_drift_detected"))
    c17("CUSUM_threshold", "%s.cusum:CUSUM.update" % CH, "threshold", "self1.threshold >= self2.threshold")

    def warn(name, q, param, looser):
        R.relational(name, function=q, tags=("C17",), vary=[param],
                     requires=["same_except(self1, self2, %r)" % param, looser,
                               "self1._drift_state != 'drift' and self2._drift_state != 'drift'", SAME_Y],
                     ensures=[
                         # loosening only the warning threshold never changes when drift is reported ...
                         "(self1._drift_state == 'drift') == (self2._drift_state == 'drift')",
                         # ... and never removes a warning (self2 is the looser run)
                         "implies(self1._drift_state == 'warning', self2._drift_state == 'warning')",
                     ])
    warn("DDM_warning_scale", "%s.ddm:DDM.update" % CD, "warning_scale", "self1.warning_scale >= self2.warning_scale")
    warn("EDDM_warning_thresh", "%s.eddm:EDDM.update" % CD, "warning_thresh",
         "self1.warning_thresh <= self2.warning_thresh")
    warn("STEPD_alpha_warning", "%s.stepd:STEPD.update" % CD, "alpha_warning",
         "self1.alpha_warning <= self2.alpha_warning")

    # ---------------------------------------------------------------- C02: update() is blind to the running index
    # two runs from the same epoch state that differ only in how many samples the detector has seen over its lifetime
    # (and in the retraining indices, shifted accordingly): the update leaves the same epoch state, the same drift state,
    # raises alike, and the retraining indices stay the same distance from the running index.  With reset() == __init__
    # (below) this is the simulation step of "after a drift the detector behaves like a fresh one, indices shifted".
    def recs_shift(k):
        a, b = "self1._retraining_recs[%d]" % k, "self2._retraining_recs[%d]" % k
        return ("((%s is None) == (%s is None)) and implies(%s is not None and %s is not None, %s - self1._total_samples == %s - self2._total_samples)"
                % (a, b, a, b, a, b))

    def index_free(name, q, has_recs=True, extra=()):
        free = ["_total_samples"] + (["_retraining_recs"] if has_recs else []) + list(extra)
        args = ", ".join(repr(f) for f in free)
        R.relational(name, function=q, tags=("C02",), vary=list(free),
                     requires=["same_except(self1, self2, %s)" % args, SAME_Y] + ([recs_shift(0), recs_shift(1)] if has_recs else []),
                     ensures=["raised1 == raised2", "same_except(self1, self2, %s)" % args,
                              "self1._total_samples - old(self1._total_samples) == self2._total_samples - old(self2._total_samples)"]
                             + ([recs_shift(0), recs_shift(1)] if has_recs else []))
    index_free("DDM_index_free", "%s.ddm:DDM.update" % CD)
    index_free("EDDM_index_free", "%s.eddm:EDDM.update" % CD)
    index_free("STEPD_index_free", "%s.stepd:STEPD.update" % CD)
    index_free("PageHinkley_index_free", "%s.page_hinkley:PageHinkley.update" % CH, has_recs=False)
    index_free("CUSUM_index_free", "%s.cusum:CUSUM.update" % CH, has_recs=False)

    # ---------------------------------------------------------------- C02: reset() == freshly constructed
    def fresh(name, cls_q, params, epoch_fields, carry=(), index=("_total_samples",)):
        cname = cls_q.split(":")[1]
        R.frame(cname + "_update_reads", function=cls_q + ".update", cls=cname, params=list(params),
                epoch=list(epoch_fields), carry=list(carry), index=list(index))
        R.relational(name, functions=(cls_q + ".reset", cls_q + ".__init__"), tags=("C02",),
                     requires=[" and ".join("%s2 == self1.%s" % (p, p) for p in params)],
                     ensures=["same_fields(self1, self2, %s)" % ", ".join(repr(f) for f in epoch_fields + params)])
    fresh("DDM_reset_fresh", "%s.ddm:DDM" % CD, ["n_threshold", "warning_scale", "drift_scale"],
          ["_samples_since_reset", "_drift_state", "_error_rate", "_error_std", "_error_rate_min", "_error_std_min",
           "_retraining_recs"])
    fresh("EDDM_reset_fresh", "%s.eddm:EDDM" % CD, ["n_threshold", "warning_thresh", "drift_thresh"],
          ["_samples_since_reset", "_drift_state", "_n_errors", "_index_error_curr", "_index_error_last",
           "_dist_mean", "_dist_std", "_max_numerator", "_test_statistic", "_retraining_recs"])
    fresh("STEPD_reset_fresh", "%s.stepd:STEPD" % CD, ["window_size", "alpha_warning", "alpha_drift"],
          ["_samples_since_reset", "_drift_state", "_s", "_r", "_window", "_test_statistic", "_test_p",
           "_retraining_recs"])
    fresh("PageHinkley_reset_fresh", "%s.page_hinkley:PageHinkley" % CH, ["delta", "threshold", "burn_in", "direction"],
          ["_samples_since_reset", "_drift_state", "_max", "_min", "_sum", "_mean", "_change_scores",
           "_page_hinkley_values", "_page_hinkley_differences", "_theta_threshold", "_drift_detected", "_maxes",
           "_mins", "_means"])
