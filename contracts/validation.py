"""Contracts for the input validation of both detector base classes (C14, used modularly by every detector).

Clauses tagged with a trailing '!' (e.g. 'C14!') are *checked* against the code but never *assumed* at call sites:
they are the property-derived acceptance rule, which the current code does not satisfy everywhere (known findings).
"""
from .detector_base import STREAM_FIELDS, BATCH_FIELDS, MEMO_INV

SD = "menelaus.detector:StreamingDetector"
BD = "menelaus.detector:BatchDetector"

# what the code as written rejects (exact), streaming
S_REJECT = ("(is_df(X) and self._input_cols is not None and not cols_equal(cols(X), self._input_cols)) or "
            "((not is_df(X)) and self._input_col_dim is not None and width(X) != self._input_col_dim) or "
            "rows(X) != 1")
B_REJECT = ("(is_df(X) and self._input_cols is not None and not cols_equal(cols(X), self._input_cols)) or "
            "((not is_df(X)) and self._input_col_dim is not None and bwidth(X) != self._input_col_dim) or "
            "brows(X) <= 1")
# what the property demands: one observation (>= 2 for batch), and once a width / column names are established
# every input with a different width / different names is rejected, whatever the container
S_ACCEPT_PROP = ("rows(X) == 1 and (self._input_col_dim is None or width(X) == self._input_col_dim) and "
                 "(self._input_cols is None or (not is_df(X)) or cols_equal(cols(X), self._input_cols))")
B_ACCEPT_PROP = ("brows(X) >= 2 and (self._input_col_dim is None or bwidth(X) == self._input_col_dim) and "
                 "(self._input_cols is None or (not is_df(X)) or cols_equal(cols(X), self._input_cols))")


def register(R):
    R.klass(SD, fields=dict(STREAM_FIELDS), invariant=list(MEMO_INV))
    R.klass(BD, fields=dict(BATCH_FIELDS), invariant=list(MEMO_INV))
    for Q, REJ, ACC, W, ROWS in ((SD, S_REJECT, S_ACCEPT_PROP, "width", "rows"),
                                 (BD, B_REJECT, B_ACCEPT_PROP, "bwidth", "brows")):
        memo = [
            "self._input_cols == (cols(X) if (is_df(X) and old(self._input_cols) is None) else old(self._input_cols))",
            "self._input_col_dim == (%s(X) if (old(self._input_cols) is None and is_df(X)) else "
            "(%s(X) if ((not is_df(X)) and old(self._input_col_dim) is None) else old(self._input_col_dim)))" % (W, W),
        ]
        R.contract(Q + "._validate_X", tags=("C14",), modular=True,
                   params={"X": "RawX"},
                   result="Nd2",
                   raises={"ValueError": {
                       "when": REJ, "iff": True, "tags": "C14",
                       "modifies": [],
                       "ensures": [
                           # property C14: a rejected call does no harm -- in particular it establishes nothing
                           ("C14", "unchanged(self)"),
                           # property C14: only inputs the acceptance rule forbids are rejected
                           ("C14", "not (%s)" % ACC),
                       ]}},
                   ensures=memo + [
                       # C15: the validated array never shares memory with the caller's object
                       ("C15", "fresh(result)"),
                       "result.shape[0] == %s(X)" % ROWS,
                       "result.shape[1] == %s(X)" % W,
                       ("C14", "forall(j, 0, %s(X), result[0][j] == %s)" % (
                           W, "xval(X, j)" if Q == SD else "bval(X, 0, j)")),
                       # property C14: an accepted input satisfies the acceptance rule
                       ("C14!", ACC.replace("self._input_col_dim", "old(self._input_col_dim)")
                        .replace("self._input_cols", "old(self._input_cols)")),
                   ] + ([
                       # C18: what a batch detector works on is the batch's rows, each exactly once and whatever their labels
                       ("C14,C18", "result.shape[0] == brows(X)"),
                       ("C14,C18", "forall(i, 0, brows(X), forall(j, 0, bwidth(X), result[i][j] == bval(X, i, j)))")]
                        if Q == BD else []),
                   modifies=["_input_cols", "_input_col_dim"])
    R.contract(SD + "._validate_y", tags=("C14",),
               params={"y": "RawY"},
               raises={"ValueError": {"when": "size(y) != 1", "iff": True, "ensures": ["unchanged(self)"]}},
               ensures=["result.shape[0] == 1", "result[0] == first(y)", "unchanged(self)"],
               modifies=[])
