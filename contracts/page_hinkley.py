"""Contracts for menelaus.change_detection.page_hinkley:PageHinkley (C01, C04, C14, C16)."""
from .detector_base import STREAM_FIELDS, STREAM_INV

Q = "menelaus.change_detection.page_hinkley:PageHinkley"

LISTS = {"_change_scores": "Real", "_page_hinkley_values": "Real", "_page_hinkley_differences": "Real",
         "_theta_threshold": "Real", "_drift_detected": "Bool", "_maxes": "Real", "_mins": "Real", "_means": "Real"}

FRESH = "old(self._drift_state) == 'drift'"


def ep(f):
    """value of statistic f at the start of the epoch this update belongs to"""
    return "(0 if %s else old(self.%s))" % (FRESH, f)


X0 = "xval(X, 0)"
N = "self._samples_since_reset"
MEAN1 = "(%s + (%s - %s) / %s)" % (ep("_mean"), X0, ep("_mean"), N)
SUM1 = "(%s + %s - %s - self.delta)" % (ep("_sum"), X0, MEAN1)
MIN1 = "(%s if %s < %s else %s)" % (SUM1, SUM1, ep("_min"), ep("_min"))
MAX1 = "(%s if %s > %s else %s)" % (SUM1, SUM1, ep("_max"), ep("_max"))
DIFF1 = "((%s - %s) if self.direction == 'positive' else (%s - %s))" % (SUM1, MIN1, MAX1, SUM1)
ALARM = "(%s > self.burn_in and %s > self.threshold * %s)" % (N, DIFF1, MEAN1)

REJECT = ("(is_df(X) and self._input_cols is not None and not cols_equal(cols(X), self._input_cols)) or "
          "((not is_df(X)) and self._input_col_dim is not None and width(X) != self._input_col_dim) or "
          "rows(X) != 1 or width(X) != 1")

# C14: state after a rejected call == state before it, modulo the pending reset (performed before validation)
RESET_FIELDS = ["_max", "_min", "_sum", "_mean"]


def register(R):
    fields = dict(STREAM_FIELDS)
    fields.update({"burn_in": "Int", "delta": "Real", "threshold": "Real", "direction": "Str",
                   "_max": "Real", "_min": "Real", "_sum": "Real", "_mean": "Real"})
    for l, t in LISTS.items():
        fields[l] = "List[%s]" % t
    R.klass(Q, fields=fields, params=["burn_in", "delta", "threshold", "direction"],
            invariant=STREAM_INV + [
                # C01 / C04: no alarm during burn-in; Page-Hinkley never warns
                ("C01", "implies(self._samples_since_reset <= self.burn_in, self._drift_state is None)"),
                ("C04", "self._drift_state is None or self._drift_state == 'drift'"),
                ("C04", "self._min <= self._sum and self._sum <= self._max"),
                ("C04", "self._min <= 0 and 0 <= self._max"),
            ] + [("C04", "len(self.%s) == self._samples_since_reset" % l) for l in LISTS])

    R.contract(Q + ".__init__", tags=("C01",),
               params={"delta": "Real", "threshold": "Real", "burn_in": "Int", "direction": "Str"},
               requires=["burn_in >= 0"],
               ensures=["self.burn_in == burn_in", "self.delta == delta", "self.threshold == threshold",
                        "self.direction == direction", "self._max == 0 and self._min == 0 and self._sum == 0 and "
                        "self._mean == 0", "self._total_samples == 0 and self._samples_since_reset == 0",
                        "self._drift_state is None"])

    pending_reset = ("implies(%s, self._samples_since_reset == 0 and self._drift_state is None and "
                     "self._max == 0 and self._min == 0 and self._sum == 0 and self._mean == 0 and %s)"
                     % (FRESH, " and ".join("len(self.%s) == 0" % l for l in LISTS)))
    R.contract(Q + ".update", tags=("C01", "C04"),
               params={"X": "RawX", "y_true": "RawY", "y_pred": "RawY"},
               requires=["self.direction == 'positive' or self.direction == 'negative'", "self.burn_in >= 0"],
               reads_not=["y_true", "y_pred"], reads_not_tags=("C16",),
               raises={"ValueError": {
                   "when": REJECT, "iff": True, "tags": "C14",
                   "ensures": [
                       ("C14", "self._total_samples == old(self._total_samples)"),
                       ("C14", "implies(not %s, unchanged(self))" % FRESH),
                       ("C14", pending_reset),
                       ("C14", "self._input_cols == old(self._input_cols) and "
                               "self._input_col_dim == old(self._input_col_dim)"),
                   ]}},
               ensures=[
                   ("C01", "self._total_samples == old(self._total_samples) + 1"),
                   ("C01,C02", "self._samples_since_reset == (1 if %s else old(self._samples_since_reset) + 1)" % FRESH),
                   ("C04", "self._mean == " + MEAN1),
                   ("C04", "self._sum == " + SUM1),
                   ("C04", "self._min == " + MIN1),
                   ("C04", "self._max == " + MAX1),
                   # the documented test: PH difference in the chosen direction above threshold * mean, after burn-in
                   ("C04", "self._drift_state == ('drift' if %s else None)" % ALARM),
                   ("C04", "self._means[-1] == self._mean and self._mins[-1] == self._min and "
                           "self._maxes[-1] == self._max and self._page_hinkley_values[-1] == self._sum and "
                           "self._change_scores[-1] == %s and self._page_hinkley_differences[-1] == %s and "
                           "self._theta_threshold[-1] == self.threshold * self._mean and "
                           "self._drift_detected[-1] == (%s > self.threshold * self._mean)" % (X0, DIFF1, DIFF1)),
               ],
               modifies=["_total_samples", "_samples_since_reset", "_drift_state", "_input_cols", "_input_col_dim",
                         "_max", "_min", "_sum", "_mean"] + list(LISTS))

    R.contract(Q + ".reset", tags=("C02",), params={},
               ensures=["self._samples_since_reset == 0", "self._drift_state is None",
                        "self._max == 0 and self._min == 0 and self._sum == 0 and self._mean == 0",
                        "self._total_samples == old(self._total_samples)"] +
               ["len(self.%s) == 0" % l for l in LISTS],
               modifies=["_samples_since_reset", "_drift_state", "_max", "_min", "_sum", "_mean"] + list(LISTS))
