"""Contracts for menelaus.change_detection.cusum:CUSUM (C01, C02 carry-over, C04, C14, C16)."""
from .detector_base import STREAM_FIELDS, STREAM_INV

Q = "menelaus.change_detection.cusum:CUSUM"
FRESH = "old(self._drift_state) == 'drift'"
X0 = "xval(X, 0)"
N = "self._samples_since_reset"

REJECT = ("(is_df(X) and self._input_cols is not None and not cols_equal(cols(X), self._input_cols)) or "
          "((not is_df(X)) and self._input_col_dim is not None and width(X) != self._input_col_dim) or "
          "rows(X) != 1 or width(X) != 1")

REJECT_OLD = ("(is_df(X) and old(self._input_cols) is not None and not cols_equal(cols(X), old(self._input_cols))) or "
              "((not is_df(X)) and old(self._input_col_dim) is not None and width(X) != old(self._input_col_dim)) "
              "or rows(X) != 1 or width(X) != 1")

# mean / standard deviation in force for this update, from the property statement:
#   given, or estimated from the first burn_in observations of the stream, or re-estimated from the last burn_in
#   observations after a drift
TARGET1 = ("(seq_mean(old(self._stream)[-self.burn_in:]) if %s else "
           "(old(self.target) if old(self.target) is not None else "
           "(seq_mean(self._stream) if %s == self.burn_in else None)))" % (FRESH, N))
SD1 = ("(seq_std(old(self._stream)[-self.burn_in:]) if %s else "
       "(old(self.sd_hat) if old(self.target) is not None else "
       "(seq_std(self._stream) if %s == self.burn_in else old(self.sd_hat))))" % (FRESH, N))
UP0 = "(0 if %s else old(self._upper_bound)[%s - 1])" % (FRESH, N)
LO0 = "(0 if %s else old(self._lower_bound)[%s - 1])" % (FRESH, N)
Z = "((%s - self.target) / self.sd_hat)" % X0       # standardised *current* observation
SH1 = "max(0, %s + %s - self.delta)" % (UP0, Z)
SL1 = "max(0, %s - self.delta - %s)" % (LO0, Z)
TEST = ("((self._upper_bound[%s] > self.threshold or self._lower_bound[%s] > self.threshold) "
        "if self.direction is None else (self._upper_bound[%s] > self.threshold if self.direction == 'positive' "
        "else (self._lower_bound[%s] > self.threshold if self.direction == 'negative' else False)))" % (N, N, N, N))


def register(R):
    fields = dict(STREAM_FIELDS)
    fields.update({"target": "Opt[Real]", "sd_hat": "Opt[Real]", "burn_in": "Int", "delta": "Real",
                   "threshold": "Real", "direction": "OptStr",
                   "_upper_bound": "List[Real]", "_lower_bound": "List[Real]", "_stream": "List[Real]"})
    R.klass(Q, fields=fields, params=["burn_in", "delta", "threshold", "direction"],
            invariant=STREAM_INV + [
                ("C01", "implies(self._samples_since_reset <= self.burn_in, self._drift_state is None)"),
                ("C04", "self._drift_state is None or self._drift_state == 'drift'"),
                ("C04", "len(self._upper_bound) == self._samples_since_reset + 1"),
                ("C04", "len(self._lower_bound) == self._samples_since_reset + 1"),
                ("C04", "len(self._stream) == self._total_samples"),
                ("C04", "self._upper_bound[self._samples_since_reset] >= 0 and "
                        "self._lower_bound[self._samples_since_reset] >= 0"),
                ("C04", "(self.target is None) == (self.sd_hat is None)"),
                # the statistics are known from the end of burn-in onwards
                ("C04", "implies(self.target is None, self._samples_since_reset < self.burn_in)"),
            ])

    R.contract(Q + ".__init__", tags=("C01",),
               params={"target": "Opt[Real]", "sd_hat": "Opt[Real]", "burn_in": "Int", "delta": "Real",
                       "threshold": "Real", "direction": "OptStr"},
               requires=["burn_in >= 1", "(target is None) == (sd_hat is None)"],
               ensures=["self.target == target and self.sd_hat == sd_hat and self.burn_in == burn_in and "
                        "self.delta == delta and self.threshold == threshold and self.direction == direction",
                        "len(self._stream) == 0", "self._total_samples == 0 and self._samples_since_reset == 0",
                        "self._drift_state is None"])

    R.contract(Q + ".update", tags=("C01", "C04"),
               params={"X": "RawX", "y_true": "RawY", "y_pred": "RawY"},
               requires=["self.burn_in >= 1"],
               reads_not=["y_true", "y_pred"], reads_not_tags=("C16",),
               raises={"ValueError": {
                   # malformed input, or a degenerate (zero) standard deviation after burn-in
                   "when": "(%s) or True" % REJECT, "tags": "C04",
                   "ensures": [
                       ("C14", "implies(%s, self._total_samples == old(self._total_samples))" % REJECT),
                       ("C14", "implies((%s) and not %s, unchanged(self))" % (REJECT, FRESH)),
                       ("C14", "implies(%s, self._input_cols == old(self._input_cols) and "
                               "self._input_col_dim == old(self._input_col_dim))" % REJECT),
                       ("C04", "implies(not (%s), self.sd_hat == 0 and %s > self.burn_in)" % (REJECT, N)),
                   ]}},
               ensures=[
                   ("C14", "not (%s)" % REJECT_OLD),
                   ("C01", "self._total_samples == old(self._total_samples) + 1"),
                   ("C01,C02", "self._samples_since_reset == (1 if %s else old(self._samples_since_reset) + 1)" % FRESH),
                   ("C04", "len(self._stream) == len(old(self._stream)) + 1 and self._stream[-1] == " + X0),
                   # (C02: the documented carry-over -- after a drift mean and sd are re-estimated from the last burn_in
                   # observations, whatever their values; nothing else of the previous epoch survives)
                   ("C04,C02", "self.target == " + TARGET1),
                   ("C04,C02", "self.sd_hat == " + SD1),
                   # the two-sided recurrences on the standardised current observation (0 while the mean is unknown)
                   ("C04", "self._upper_bound[%s] == (0 if self.target is None else %s)" % (N, SH1)),
                   ("C04", "self._lower_bound[%s] == (0 if self.target is None else %s)" % (N, SL1)),
                   ("C04", "self._drift_state == ('drift' if (%s > self.burn_in and %s) else None)" % (N, TEST)),
               ],
               modifies=["_total_samples", "_samples_since_reset", "_drift_state", "_input_cols", "_input_col_dim",
                         "target", "sd_hat", "_upper_bound", "_lower_bound", "_stream"])

    R.contract(Q + ".reset", tags=("C02",), params={},
               ensures=["self._samples_since_reset == 0", "self._drift_state is None",
                        "len(self._upper_bound) == 1 and self._upper_bound[0] == 0",
                        "len(self._lower_bound) == 1 and self._lower_bound[0] == 0",
                        "unchanged(self._stream)", "self._total_samples == old(self._total_samples)"],
               modifies=["_samples_since_reset", "_drift_state", "_upper_bound", "_lower_bound"])
