"""Contracts for menelaus.ensemble.election (property C13).

Top-level postconditions are written from the property statement:
  SimpleMajority   drift iff strictly more than half report drift
  MinimumApproval  drift iff at least a do
  OrderedApproval  drift iff at least a + c do
  ConfirmedElection  voters / warnings / counters as stated
"""

M = "menelaus.ensemble.election"

SPEC = '''
def ndrift(dets, k):
    return count(lambda d: d.drift_state == "drift", dets, k)

def confirmed_is_voter(c, s):
    # a member is a voter in a call iff it newly reports drift (counter 0) or it is inside its waiting
    # period (counter != 0) and does not report warning
    return (s == "drift" and c == 0) or (c != 0 and s != "warning")

def confirmed_is_warning(c, s):
    return s == "warning" and not (s == "drift" and c == 0)

def confirmed_mid(c, s):
    # counter after the vote-accounting pass
    return c + 1 if confirmed_is_voter(c, s) else c

def confirmed_step(c, s, wait_time):
    # counter after the call: waiting time is used up only by calls in which the member is a voter;
    # it expires (returns to 0) once it exceeds wait_time
    return 0 if confirmed_mid(c, s) > wait_time else confirmed_mid(c, s)

def nvoters(cs, dets, k):
    return count2(lambda c, d: (d.drift_state == "drift" and c == 0) or (c != 0 and d.drift_state != "warning"), cs, dets, k)

def nwarnings(cs, dets, k):
    return count2(lambda c, d: d.drift_state == "warning" and not (d.drift_state == "drift" and c == 0), cs, dets, k)

def confirmed_verdict(voters, warnings, sensitivity):
    return "drift" if voters >= sensitivity else ("warning" if voters + warnings >= sensitivity else None)
'''


def register(R):
    R.specfn(SPEC)

    R.klass(M + ":SimpleMajorityElection", fields={})
    R.klass(M + ":MinimumApprovalElection", fields={"approvals_needed": "Int"})
    R.klass(M + ":OrderedApprovalElection", fields={"approvals_needed": "Int", "confirmations_needed": "Int"})
    R.klass(M + ":ConfirmedElection",
            fields={"sensitivity": "Int", "wait_time": "Int", "wait_period_counters": "Opt[List[Int]]"},
            invariant=[
                ("C13", "self.wait_period_counters is None or forall(i, 0, len(self.wait_period_counters), "
                        "0 <= self.wait_period_counters[i] <= self.wait_time)"),
            ])

    # library lemmas about counting (proved by induction on every run)
    R.lemma("ndrift_bounds", params={"dets": "List[Det]", "k": "Int"},
            requires=["k >= 0"], ensures=["0 <= ndrift(dets, k)", "ndrift(dets, k) <= k"], induct=("k", "0"))
    R.lemma("ndrift_mono", params={"dets": "List[Det]", "k": "Int", "n": "Int"},
            requires=["0 <= k", "k <= n"], ensures=["ndrift(dets, k) <= ndrift(dets, n)"], induct=("n", "k"))
    # C13: turning one more member to drift never retracts a drift verdict (count is monotone in the vote vector)
    R.lemma("ndrift_vote_monotone", params={"a": "List[Det]", "b": "List[Det]", "k": "Int"},
            requires=["k >= 0",
                      "forall(i, 0, k, implies(a[i].drift_state == 'drift', b[i].drift_state == 'drift'))"],
            ensures=["ndrift(a, k) <= ndrift(b, k)"], induct=("k", "0"))

    R.contract(M + ":SimpleMajorityElection.__call__", tags=("C13",),
               params={"detectors": "List[Det]"},
               ensures=["result == ('drift' if 2 * ndrift(detectors, len(detectors)) > len(detectors) else None)"],
               modifies=[])

    R.contract(M + ":MinimumApprovalElection.__call__", tags=("C13",),
               params={"detectors": "List[Det]"},
               # documented domain: "1 to the maximum number of detectors"
               requires=["self.approvals_needed >= 1"],
               ensures=["result == ('drift' if ndrift(detectors, len(detectors)) >= self.approvals_needed else None)"],
               modifies=[],
               loops={0: {"index": "k",
                          "invariant": ["num_approvals == ndrift(detectors, k)",
                                        "num_approvals < self.approvals_needed"],
                          "use_body": ["ndrift_mono(detectors, k + 1, len(detectors))"]}})

    R.contract(M + ":OrderedApprovalElection.__call__", tags=("C13",),
               params={"detectors": "List[Det]"},
               requires=["self.approvals_needed >= 0", "self.confirmations_needed >= 0",
                         "self.approvals_needed + self.confirmations_needed >= 1"],
               ensures=["result == ('drift' if ndrift(detectors, len(detectors)) >= "
                        "self.approvals_needed + self.confirmations_needed else None)"],
               modifies=[],
               loops={0: {"index": "k",
                          "invariant": ["num_approvals + num_confirmations == ndrift(detectors, k)",
                                        "0 <= num_approvals", "num_approvals <= self.approvals_needed",
                                        "0 <= num_confirmations",
                                        "implies(num_confirmations > 0, num_approvals == self.approvals_needed)",
                                        "num_approvals + num_confirmations < "
                                        "self.approvals_needed + self.confirmations_needed"],
                          "use_body": ["ndrift_mono(detectors, k + 1, len(detectors))"]}})

    R.contract(M + ":ConfirmedElection.__init__", tags=("C13",),
               params={"sensitivity": "Int", "wait_time": "Int"},
               requires=["wait_time >= 0"],
               ensures=["self.sensitivity == sensitivity", "self.wait_time == wait_time",
                        "self.wait_period_counters is None"])

    R.contract(M + ":ConfirmedElection.__call__", tags=("C13",),
               params={"detectors": "List[Det]"},
               requires=["self.wait_time >= 0",
                         "self.wait_period_counters is None or len(self.wait_period_counters) == len(detectors)"],
               ensures=[
                   "len(self.wait_period_counters) == len(detectors)",
                   # per-member counter step, from the property statement
                   "forall(i, 0, len(detectors), self.wait_period_counters[i] == confirmed_step("
                   "(0 if old(self.wait_period_counters) is None else old(self.wait_period_counters)[i]), "
                   "detectors[i].drift_state, self.wait_time))",
                   "result == confirmed_verdict("
                   "nvoters(c_in(old(self.wait_period_counters), len(detectors)), detectors, len(detectors)), "
                   "nwarnings(c_in(old(self.wait_period_counters), len(detectors)), detectors, len(detectors)), "
                   "self.sensitivity)",
               ],
               modifies=["wait_period_counters"],
               loops={
                   0: {"index": "k",
                       "let": {"c0": "self.wait_period_counters"},
                       "havoc_fields": {"wait_period_counters": "List[Int]"},
                       "invariant": [
                           "len(self.wait_period_counters) == len(detectors)",
                           "len(states) == len(detectors)",
                           "num_drift == nvoters(c0, detectors, k)",
                           "num_warning == nwarnings(c0, detectors, k)",
                           "forall(j, 0, k, self.wait_period_counters[j] == "
                           "confirmed_mid(c0[j], detectors[j].drift_state))",
                           "forall(j, k, len(detectors), self.wait_period_counters[j] == c0[j])",
                       ]},
                   1: {"index": "k",
                       "let": {"c1": "self.wait_period_counters"},
                       "havoc_fields": {"wait_period_counters": "List[Int]"},
                       "invariant": [
                           "len(self.wait_period_counters) == len(c1)",
                           "forall(j, 0, k, self.wait_period_counters[j] == (0 if c1[j] > self.wait_time else c1[j]))",
                           "forall(j, k, len(c1), self.wait_period_counters[j] == c1[j])",
                       ]},
               })

    # voter window (C13): a member that newly alarms is a voter in that call and in each of its next wait_time
    # calls in which it does not report warning; a warning call does not use up waiting time.
    R.lemma("voter_window_step", params={"c": "Int", "s": "OptStr", "w": "Int"},
            requires=["w >= 0", "0 <= c", "c <= w"],
            ensures=[
                "0 <= confirmed_step(c, s, w)", "confirmed_step(c, s, w) <= w",
                # newly reporting drift: voter, and the waiting period starts (unless wait_time == 0)
                "implies(c == 0 and s == 'drift', confirmed_is_voter(c, s) and confirmed_step(c, s, w) == (1 if w >= 1 else 0))",
                # inside the waiting period, not warning: voter, one unit of waiting time used
                "implies(c != 0 and s != 'warning', confirmed_is_voter(c, s) and "
                "confirmed_step(c, s, w) == (c + 1 if c + 1 <= w else 0))",
                # warning: counted as a warning, counter untouched
                "implies(s == 'warning', (not confirmed_is_voter(c, s)) and confirmed_is_warning(c, s) "
                "and confirmed_step(c, s, w) == c)",
                # idle member not alarming: neither
                "implies(c == 0 and s != 'drift' and s != 'warning', "
                "(not confirmed_is_voter(c, s)) and confirmed_step(c, s, w) == 0)",
            ])
