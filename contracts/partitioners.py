"""Contracts for menelaus.partitioners (C08 / C10 pieces within the verifier's reach)."""

KP = "menelaus.partitioners.KDQTreePartitioner:KDQTreePartitioner"


def register(R):
    R.klass(KP, fields={})
    # sum_{i<k} (a[i] + 1/2) / D == (sum_{i<k} a[i] + k/2) / D      (the +0.5-corrected distribution sums to one)
    R.lemma("corrected_sum", params={"a": "List[Int]", "b": "List[Real]", "D": "Real", "k": "Int"},
            requires=["k >= 0", "D != 0", "forall(i, 0, k, b[i] == (a[i] + 0.5) / D)"],
            ensures=["asum(b, 0, k) == (asum(a, 0, k) + k / 2) / D"], induct=("k", "0"))
    R.contract(KP + "._distn_from_counts", tags=("C08",), params={"counts": "List[Nat]"},
               requires=["len(counts) >= 1"],
               ensures=["len(result) == len(counts)",
                        "forall(i, 0, len(counts), result[i] == (counts[i] + 0.5) / (vsum(counts) + len(counts) / 2))",
                        # ... and therefore sums to one
                        "vsum(result) == 1"],
               use_exit=["vsum_nonneg(counts, 0, len(counts))",
                         "corrected_sum(counts, result, vsum(counts) + len(counts) / 2, len(counts))"])
    R.lemma("vsum_nonneg", params={"a": "List[Int]", "lo": "Int", "hi": "Int"},
            requires=["0 <= lo", "lo <= hi", "forall(i, lo, hi, a[i] >= 0)"], ensures=["asum(a, lo, hi) >= 0"], induct=("hi", "lo"))
