"""Contracts for menelaus.partitioners (C08 / C10 pieces within the verifier's reach)."""

KP = "menelaus.partitioners.KDQTreePartitioner:KDQTreePartitioner"


NP = "menelaus.partitioners.NNSpacePartitioner:NNSpacePartitioner"


def register(R):
    R.klass(KP, fields={})
    R.klass(NP, fields={"k": "Int", "D": "Opt[Nd2c]", "v1": "Opt[Vec]", "v2": "Opt[Vec]", "nnps_matrix": "Opt[Opaque[AnyVal]]",
                        "adjacency_matrix": "Opt[Opaque[AnyVal]]"}, ghost={"inv": "List[Int]"})
    # build (C10): D holds every distinct point of the pooled samples exactly once, and the membership vectors mark exactly
    # the points that occur in the respective sample - whatever the sizes of the two samples and however often a point
    # occurs.  The part after the membership vectors (nearest neighbours, NNPS matrix) is abstracted: not verified here.
    ROW_EQ = "forall(j, 0, mcols(%s), cell(%s, %s, j) == cell(self.D, %s, j))"
    IN1 = "exists(i, 0, mrows(sample1), %s)" % (ROW_EQ % ("sample1", "sample1", "i", "u"))
    IN2 = "exists(i, 0, mrows(sample2), %s)" % (ROW_EQ % ("sample2", "sample2", "i", "u"))
    R.contract(NP + ".build", tags=("C10",), params={"sample1": "Nd2c", "sample2": "Nd2c"},
               requires=["mcols(sample1) == mcols(sample2)", "mcols(sample1) >= 1", "mrows(sample1) >= 1 and mrows(sample2) >= 1"],
               ensures=["self.D is not None and self.v1 is not None and self.v2 is not None",
                        "len(self.v1) == mrows(self.D) and len(self.v2) == mrows(self.D) and mcols(self.D) == mcols(sample1)",
                        # every point of either sample is a row of D (ghost inv: the row of D that holds the i-th pooled point)
                        "len(self.ghost.inv) == mrows(sample1) + mrows(sample2)",
                        "forall(i, 0, mrows(sample1), 0 <= self.ghost.inv[i] and self.ghost.inv[i] < mrows(self.D) and %s)"
                        % (ROW_EQ % ("sample1", "sample1", "i", "self.ghost.inv[i]")),
                        "forall(i, 0, mrows(sample2), 0 <= self.ghost.inv[mrows(sample1) + i] and self.ghost.inv[mrows(sample1) + i] < mrows(self.D) and %s)"
                        % (ROW_EQ % ("sample2", "sample2", "i", "self.ghost.inv[mrows(sample1) + i]")),
                        # the membership vectors are 0/1 marks of exactly the points of the respective sample
                        "forall(u, 0, mrows(self.D), self.v1[u] == (1 if %s else 0))" % IN1,
                        "forall(u, 0, mrows(self.D), self.v2[u] == (1 if %s else 0))" % IN2],
               ghost_update=["self.ghost.inv = inverted_indices"],
               calls={"numpy.matmul": "any"},
               abstract_blocks=[{"from": "nn", "to": "m", "to_last": True, "havoc_fields": {"adjacency_matrix": "Opt[Opaque[AnyVal]]"}}],
               modifies=["D", "v1", "v2", "nnps_matrix", "adjacency_matrix"], check_invariant=False, assume_invariant=False)
    R.specfn('''
@recursive("Array[Real]", "Array[Real]", "Int", "Real")
def nnps_sum(a, b, k):
    return 0 if k <= 0 else nnps_sum(a, b, k - 1) + abs(a[k - 1] - b[k - 1]) / (a[k - 1] + b[k - 1])
''')
    # the numpy expression np.sum(np.abs(a - b) / (a + b)) is the recursive sum
    R.lemma("nnps_vector_form", params={"a": "Vec", "b": "Vec", "k": "Int"}, requires=["k >= 0"],
            ensures=["asum(vdiv(vabs(vsub(a, b)), vadd(a, b)), 0, k) == nnps_sum(a, b, k)"], induct=("k", "0"))
    # C10: symmetric in the two samples; 0 when both samples are the same set (equal membership vectors)
    R.lemma("nnps_symmetric", params={"a": "Vec", "b": "Vec", "k": "Int"}, requires=["k >= 0"],
            ensures=["nnps_sum(a, b, k) == nnps_sum(b, a, k)"], induct=("k", "0"))
    R.lemma("nnps_identity", params={"a": "Vec", "k": "Int"}, requires=["k >= 0", "forall(i, 0, k, a[i] > 0)"],
            ensures=["nnps_sum(a, a, k) == 0"], induct=("k", "0"))
    # range: every term |x - y| / (x + y) lies in [0, 1] for positive x, y, hence the averaged distance does
    R.lemma("nnps_range", params={"a": "Vec", "b": "Vec", "k": "Int"},
            requires=["k >= 0", "forall(i, 0, k, a[i] >= 0 and b[i] >= 0 and a[i] + b[i] > 0)"],
            ensures=["0 <= nnps_sum(a, b, k)", "nnps_sum(a, b, k) <= k"], induct=("k", "0"))
    R.contract(NP + ".compute_nnps_distance", tags=("C10",), params={"nnps_matrix": "Mat", "v1": "Vec", "v2": "Vec"}, result="Real",
               requires=["len(v1) == len(v2)", "len(v1) >= 1"],
               ensures=["result == nnps_sum(dotv(v1, nnps_matrix), dotv(v2, nnps_matrix), len(v1)) / len(v1)"],
               use_exit=["nnps_vector_form(M_s1, M_s2, len(v1))"])
    # sum_{i<k} (a[i] + 1/2) / D == (sum_{i<k} a[i] + k/2) / D      (the +0.5-corrected distribution sums to one)
    R.lemma("corrected_sum", params={"a": "List[Int]", "b": "List[Real]", "D": "Real", "k": "Int"},
            requires=["k >= 0", "D != 0", "forall(i, 0, k, b[i] == (a[i] + 0.5) / D)"],
            ensures=["asum(b, 0, k) == (asum(a, 0, k) + k / 2) / D"], induct=("k", "0"))
    R.contract(KP + "._distn_from_counts", tags=("C08",), params={"counts": "List[Nat]"},
               requires=["len(counts) >= 1"],
               ensures=["len(result) == len(counts)",
                        "forall(i, 0, len(counts), result[i] == (counts[i] + 0.5) / (vsum(counts) + len(counts) / 2))",
                        # ... and therefore sums to one
                        "vsum(result) == 1"],
               use_exit=["vsum_nonneg(counts, 0, len(counts))",
                         "corrected_sum(counts, result, vsum(counts) + len(counts) / 2, len(counts))"])
    R.lemma("vsum_nonneg", params={"a": "List[Int]", "lo": "Int", "hi": "Int"},
            requires=["0 <= lo", "lo <= hi", "forall(i, lo, hi, a[i] >= 0)"], ensures=["asum(a, lo, hi) >= 0"], induct=("hi", "lo"))
    # counting lemmas for boolean row masks (instantiated automatically by pyvc/mat2.py where a mask selects rows)
    R.lemma("mcount_range", params={"p": "List[Bool]", "n": "Int"}, requires=["n >= 0"],
            ensures=["0 <= mcount(p, n)", "mcount(p, n) <= n"], induct=("n", "0"))
    R.lemma("mcount_complement", params={"p": "List[Bool]", "q": "List[Bool]", "n": "Int"},
            requires=["n >= 0", "forall(i, 0, n, p[i] != q[i])"], ensures=["mcount(p, n) + mcount(q, n) == n"], induct=("n", "0"))
    R.lemma("mcount_pos", params={"p": "List[Bool]", "n": "Int", "k": "Int"}, requires=["0 <= k", "k < n", "p[k]"],
            ensures=["mcount(p, n) >= 1"], induct=("n", "k + 1"), use=["mcount_range(p, k)"])
    # C18: counts of rows satisfying a predicate (histogram bins, kdq-tree cells) do not depend on the row order --
    # changing one entry changes the count by the difference of the indicators, hence exchanging two rows changes nothing;
    # every permutation is a product of such exchanges
    R.lemma("mcount_store", params={"p": "List[Bool]", "n": "Int", "i": "Int", "v": "Bool"}, requires=["0 <= i", "i < n"],
            ensures=["mcount(store(p, i, v), n) == mcount(p, n) - (1 if p[i] else 0) + (1 if v else 0)"], induct=("n", "i + 1"),
            use=["mcount_frame(p, i, i, v)"])
    R.lemma("mcount_frame", params={"p": "List[Bool]", "n": "Int", "i": "Int", "v": "Bool"}, requires=["0 <= n", "n <= i"],
            ensures=["mcount(store(p, i, v), n) == mcount(p, n)"], induct=("n", "0"))
    R.lemma("mcount_swap", params={"p": "List[Bool]", "n": "Int", "i": "Int", "j": "Int"},
            requires=["0 <= i", "i < n", "0 <= j", "j < n", "i != j"],
            ensures=["mcount(store(store(p, i, p[j]), j, p[i]), n) == mcount(p, n)"],
            use=["mcount_store(p, n, i, p[j])", "mcount_store(store(p, i, p[j]), n, j, p[i])"])

