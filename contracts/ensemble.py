"""Contracts for menelaus.ensemble.ensemble (C12): an ensemble is its election applied to members that run exactly
as if alone.  Member model: pyvc/ensemble_model.py."""
from .detector_base import STREAM_FIELDS, BATCH_FIELDS

M = "menelaus.ensemble.ensemble"
D = "self.detectors"
N = "nmembers(self.detectors)"
DISTINCT = "forall(i, 0, %s, forall(j, 0, %s, implies(i != j, member(%s, i) != member(%s, j))))" % (N, N, D, D)

UPDATED = ("forall(i, 0, %s, mstate(member(%s, i)) == upd(old(mstate(member(%s, i))), "
           "sel(self.column_selectors, key(%s, i), X), y_true, y_pred))" % (N, D, D, D))
REFSET = ("forall(i, 0, %s, mstate(member(%s, i)) == setref(old(mstate(member(%s, i))), "
          "sel(self.column_selectors, key(%s, i), X), y_true, y_pred))" % (N, D, D, D))
RESET = "forall(i, 0, %s, mstate(member(%s, i)) == rst(old(mstate(member(%s, i)))))" % (N, D, D)


def loop_inv(fn, extra_args=True):
    args = ", sel(self.column_selectors, key(%s, j), X), y_true, y_pred" % D if extra_args else ""
    return {"index": "k", "havoc_ghost_keys": [(0, "mstore")],
            "invariant": [
                "forall(j, 0, k, mstate(member(%s, j)) == %s(old(mstate(member(%s, j)))%s))" % (D, fn, D, args),
                "forall(j, k, %s, mstate(member(%s, j)) == old(mstate(member(%s, j))))" % (N, D, D),
                "unchanged(self)",
            ]}


def register(R):
    sf = dict(STREAM_FIELDS)
    sf.update({"detectors": "ODict[Det]", "election": "Election", "column_selectors": "SelMap"})
    bf = dict(BATCH_FIELDS)
    bf.update({"detectors": "ODict[Det]", "election": "Election", "column_selectors": "SelMap"})
    R.klass(M + ":StreamingEnsemble", fields=sf)
    R.klass(M + ":BatchEnsemble", fields=bf)

    # loops live in the mixin's methods; they are verified through each concrete ensemble class
    R.contract(M + ":Ensemble.update", tags=("C12",), params={"X": "Arg", "y_true": "Arg", "y_pred": "Arg"},
               loops={0: loop_inv("upd")})
    R.contract(M + ":Ensemble.reset", tags=("C12",), params={}, loops={0: loop_inv("rst", extra_args=False)})

    for cls, tot, since in (("StreamingEnsemble", "_total_samples", "_samples_since_reset"),
                            ("BatchEnsemble", "_total_batches", "_batches_since_reset")):
        q = "%s:%s" % (M, cls)
        R.contract(q + ".update", tags=("C12",), params={"X": "Arg", "y_true": "Arg", "y_pred": "Arg"},
                   requires=[DISTINCT],
                   ensures=[
                       # each member is updated exactly once, with the columns its selector picks
                       UPDATED,
                       # the ensemble's state is its election applied to the members (insertion order) *after* the updates
                       "self._drift_state == elect(self.election, self.detectors)",
                       # own counters count updates like any detector
                       "self.%s == old(self.%s) + 1 and self.%s == old(self.%s) + 1" % (tot, tot, since, since),
                       "unchanged(self.detectors) and unchanged(self.column_selectors)",
                   ],
                   modifies=["_drift_state", tot, since])
        R.contract(q + ".reset", tags=("C12",), params={},
                   requires=[DISTINCT],
                   ensures=[RESET, "self.%s == 0 and self._drift_state is None" % since,
                            "self.%s == old(self.%s)" % (tot, tot), "unchanged(self.detectors)"],
                   modifies=["_drift_state", since])
        # views
        R.contract(q + ".drift_states@getter", tags=("C12",), params={},
                   ensures=["forall(i, 0, %s, value_at(result, key(%s, i)) == member(%s, i).drift_state)" % (N, D, D),
                            "nmembers(result) == " + N, "unchanged(self)"], modifies=[])
        # retraining_recs: exactly the members that have the attribute, each with its own current value, nothing else
        RECS_A = "forall(j, 0, %s, khas(%s, key(%s, j)) == has_recs(member(%s, j)))"
        RECS_B = "forall(j, 0, %s, implies(has_recs(member(%s, j)), kval(%s, key(%s, j)) == recs_of(member(%s, j))))"
        R.contract(q + ".retraining_recs@getter", tags=("C12",), params={}, requires=[DISTINCT],
                   ensures=[RECS_A % (N, "result", D, D), RECS_B % (N, D, "result", D, D), "kexact(result, %s, %s)" % (D, N),
                            "unchanged(self)", "forall(i, 0, %s, mstate(member(%s, i)) == old(mstate(member(%s, i))))" % (N, D, D)],
                   modifies=[],
                   loops={0: {"index": "k", "havoc_locals": ["ret", "detector_id", "detector"], "types": {"ret": "KeyMap[Recs]"},
                              "invariant": [RECS_A % ("k", "ret", D, D), RECS_B % ("k", D, "ret", D, D),
                                            "forall(j, k, %s, not khas(ret, key(%s, j)))" % (N, D),
                                            "kexact(ret, %s, k)" % D, "unchanged(self)"]}})
    R.contract(M + ":BatchEnsemble.set_reference", tags=("C12",), params={"X": "Arg", "y_true": "Arg", "y_pred": "Arg"},
               requires=[DISTINCT], ensures=[REFSET, "unchanged(self)"], modifies=[],
               loops={0: loop_inv("setref")})
