"""Contracts for menelaus.concept_drift.md3:MD3 (C19) -- skeleton proof of the warn / ask-the-oracle / confirm protocol.
pandas / sklearn values are opaque (DataFrames by row count and column objects, the classifier and the user margin function
as deterministic uninterpreted functions); calculate_distribution_statistics is verified with its k-fold loop abstracted."""

Q = "menelaus.concept_drift.md3:MD3"

FIELDS = {
    "_total_updates": "Nat", "_updates_since_reset": "Nat", "_drift_state": "OptStr", "_input_type": "None",
    "classifier": "Clf", "margin_calculation_function": "Func[margin]", "sensitivity": "Real", "k": "Int",
    "oracle_data_length_required": "Opt[Int]", "oracle_data": "Opt[DF]", "waiting_for_oracle": "Bool",
    "reference_batch_features": "DF", "reference_batch_target": "DF",
    "reference_distribution": "Dict[len:Int,md:Real,md_std:Real,acc:Real,acc_std:Real]",
    "forgetting_factor": "Real", "curr_margin_density": "Real",
}
REF = "self.reference_distribution"
OREF = "old(self.reference_distribution)"
FRESH = "old(self._drift_state) == 'drift'"
CMD0 = "(%s['md'] if %s else old(self.curr_margin_density))" % (OREF, FRESH)
SIG = "margin_signal(self, X)"
CMD1 = "(self.forgetting_factor * %s + (1 - self.forgetting_factor) * %s)" % (CMD0, SIG)
WARN = "(abs(%s - %s['md']) > self.sensitivity * %s['md_std'])" % (CMD1, OREF, OREF)
COLS_BAD = "oracle_columns_mismatch(self, labeled_sample)"
NLAB = "((0 if old(self.oracle_data) is None else len(old(self.oracle_data))) + 1)"


def register(R):
    R.klass(Q, fields=dict(FIELDS), invariant=[
        ("C19", "self._drift_state is None or self._drift_state == 'warning' or self._drift_state == 'drift'"),
        # warning <=> waiting for labels (until the first label arrives the state stays 'warning')
        ("C19", "implies(self._drift_state == 'warning', self.waiting_for_oracle)"),
        ("C19", "implies(self._drift_state == 'drift', not self.waiting_for_oracle)"),
        ("C19", "implies(not self.waiting_for_oracle, self.oracle_data is None)"),
        ("C19", "self.oracle_data_length_required is not None and self.oracle_data_length_required >= 1"),
        ("C19", "implies(self.oracle_data is not None, len(self.oracle_data) >= 1 and "
                "len(self.oracle_data) < self.oracle_data_length_required)"),
        ("C19,C01", "0 <= self._updates_since_reset and self._updates_since_reset <= self._total_updates"),
    ])
    R.contract(Q + ".calculate_distribution_statistics", tags=("C19",), modular=True, params={"data": "DF"},
               result="Dict[len:Int,md:Real,md_std:Real,acc:Real,acc_std:Real]",
               ensures=["result['len'] == len(data)", "result['md_std'] >= 0 and result['acc_std'] >= 0"],
               modifies=[], check_invariant=False,
               # verified with the k-fold loop ABSTRACTED (its body - fitting, margin signals, accuracies - is not verified; the two
               # lists it fills are arbitrary): the statistics record is built from them by np.mean / np.std, nothing is modified
               calls={"sklearn.base.clone": "any", "sklearn.model_selection.KFold": "any"},
               loops={0: {"abstract": True, "index": "k0",
                          "havoc_locals": ["margin_densities", "accuracies", "train_index", "test_index", "X_train", "X_test",
                                           "y_train", "y_test", "signal_func_values", "margin_density", "y_pred", "accuracy"],
                          "types": {"margin_densities": "AnyList", "accuracies": "AnyList"}, "invariant": []}})
    R.contract(Q + ".set_reference", tags=("C19",), params={"X": "DF", "y_true": "None", "y_pred": "None", "target_name": "Opaque[ColName]"},
               requires=["len(X) >= 1"],
               ensures=["%s['len'] == len(X)" % REF,
                        "self.forgetting_factor == (%s['len'] - 1) / %s['len']" % (REF, REF),
                        "self.curr_margin_density == %s['md']" % REF,
                        "self.oracle_data_length_required == (old(self.oracle_data_length_required) if "
                        "old(self.oracle_data_length_required) is not None else len(X))",
                        "unchanged(self.waiting_for_oracle) and unchanged(self._drift_state) and unchanged(self.oracle_data) and "
                        "unchanged(self._total_updates) and unchanged(self._updates_since_reset)"],
               modifies=["reference_batch_features", "reference_batch_target", "reference_distribution",
                         "oracle_data_length_required", "forgetting_factor", "curr_margin_density"],
               assume_invariant=False, check_invariant=False, modular=True)
    R.contract(Q + ".update", tags=("C19",), params={"X": "DF", "y_true": "None", "y_pred": "None"},
               raises={"ValueError": {"when": "self.waiting_for_oracle or len(X) != 1", "iff": True,
                                      "ensures": ["unchanged(self)"]}},
               ensures=[
                   # C01: the counters of MD3 (total never decreases; the epoch counter restarts only on the update after a drift)
                   ("C19,C01", "self._total_updates == old(self._total_updates) + 1"),
                   ("C19,C01", "self._updates_since_reset == (1 if %s else old(self._updates_since_reset) + 1)" % FRESH),
                   # exponentially forgotten margin density, restarted from the reference value after a drift
                   "self.curr_margin_density == " + CMD1,
                   "self.waiting_for_oracle == %s" % WARN,
                   "self._drift_state == ('warning' if %s else (None if %s else old(self._drift_state)))" % (WARN, FRESH),
                   "unchanged(self.reference_distribution) and unchanged(self.oracle_data) and unchanged(self.forgetting_factor)",
               ],
               modifies=["_total_updates", "_updates_since_reset", "_drift_state", "curr_margin_density", "waiting_for_oracle"])
    DONE = "(%s == old(self.oracle_data_length_required))" % NLAB
    ACC = "oracle_accuracy(self, labeled_sample)"
    R.contract(Q + ".give_oracle_label", tags=("C19",), params={"labeled_sample": "DF"},
               calls={Q + ".set_reference": "contract"},
               raises={"ValueError": {"when": "(not self.waiting_for_oracle) or len(labeled_sample) != 1 or %s" % COLS_BAD,
                                      "iff": True, "ensures": ["unchanged(self)"]}},
               ensures=[
                   # C01: an oracle label is not a sample - neither counter moves, whatever the verdict
                   ("C19,C01", "unchanged(self._total_updates) and unchanged(self._updates_since_reset)"),
                   # before the required number of labelled samples: collecting, no decision
                   "implies(not %s, self._drift_state is None and self.waiting_for_oracle and self.oracle_data is not None and "
                   "len(self.oracle_data) == %s and unchanged(self.reference_distribution))" % (DONE, NLAB),
                   # exactly at the required number: decide by the accuracy drop, adopt the samples, stop waiting
                   "implies(%s, self._drift_state == ('drift' if %s['acc'] - %s > self.sensitivity * %s['acc_std'] else None) and "
                   "(not self.waiting_for_oracle) and self.oracle_data is None and %s['len'] == %s and "
                   "self.forgetting_factor == (%s['len'] - 1) / %s['len'] and self.curr_margin_density == %s['md'])"
                   % (DONE, OREF, ACC, OREF, REF, NLAB, REF, REF, REF),
               ],
               modifies=["_drift_state", "oracle_data", "waiting_for_oracle", "reference_batch_features", "reference_batch_target",
                         "reference_distribution", "oracle_data_length_required", "forgetting_factor", "curr_margin_density"])
    R.contract(Q + ".reset", tags=("C19",), params={},
               ensures=["self._updates_since_reset == 0 and self._drift_state is None and "
                        "self.curr_margin_density == self.reference_distribution['md']", "unchanged(self._total_updates)"],
               modifies=["_updates_since_reset", "_drift_state", "curr_margin_density"], check_invariant=False)
