"""Contracts for menelaus.concept_drift.stepd:STEPD (C01, C05, C14, C16)."""
from .detector_base import STREAM_FIELDS, STREAM_INV

Q = "menelaus.concept_drift.stepd:STEPD"
FRESH = "old(self._drift_state) == 'drift'"
N = "self._samples_since_reset"
W = "self.window_size"
C = "agree(y_true, y_pred)"

SPEC = '''
def stepd_stat(past, recent, overall, n, w):
    return (abs(past - recent) - 0.5 * ((1 / (n - w)) + (1 / w))) / sqrt(overall * (1 - overall) * ((1 / (n - w)) + (1 / w)))
'''

RECENT = "(self._s / %s)" % W
PAST = "(self._r / (%s - %s))" % (N, W)
OVERALL = "((self._r + self._s) / %s)" % N
STAT = "stepd_stat(%s, %s, %s, %s, %s)" % (PAST, RECENT, OVERALL, N, W)
P = "(1 - norm_cdf(%s))" % STAT
STATE0 = "(None if %s else old(self._drift_state))" % FRESH


def register(R):
    R.specfn(SPEC)
    fields = dict(STREAM_FIELDS)
    fields.update({"window_size": "Int", "alpha_warning": "Real", "alpha_drift": "Real",
                   "_s": "Int", "_r": "Int", "_window": "List[Bit]",
                   "_test_statistic": "Opt[Real]", "_test_p": "Opt[Real]", "_retraining_recs": "Pair[Opt[Int]]"})
    R.klass(Q, fields=fields, ghost={"correct": "Int", "run_start": "Opt[Int]"},
            ghost_init=["self.ghost.correct = 0", "self.ghost.run_start = None"],
            params=["window_size", "alpha_warning", "alpha_drift"],
            invariant=STREAM_INV + [
                ("C01", "implies(self._samples_since_reset < 2 * self.window_size, self._drift_state is None)"),
                ("C05", "len(self._window) == (self._samples_since_reset if "
                        "self._samples_since_reset < self.window_size else self.window_size)"),
                # _s counts the correct predictions inside the window, _r those before it in the epoch
                ("C05", "self._s == vsum(self._window)"),
                ("C05", "0 <= self._s and self._s <= len(self._window)"),
                ("C05", "self._r + self._s == self.ghost.correct"),
                ("C05", "0 <= self._r and self._r <= self._samples_since_reset - len(self._window)"),
                ("C05", "implies(self._drift_state is None, self._retraining_recs[0] is None and "
                        "self._retraining_recs[1] is None)"),
                ("C01", "implies(self._drift_state is not None, self._retraining_recs[0] is not None and "
                        "self._retraining_recs[1] is not None and "
                        "self._retraining_recs[0] <= self._retraining_recs[1] and "
                        "self._retraining_recs[1] == self._total_samples - 1)"),
                ("C05", "implies(self._drift_state is not None, self._retraining_recs[0] == self.ghost.run_start)"),
            ])

    R.contract(Q + ".__init__", tags=("C01",),
               params={"window_size": "Int", "alpha_warning": "Real", "alpha_drift": "Real"},
               requires=["window_size >= 1"],
               ensures=["self.window_size == window_size and self.alpha_warning == alpha_warning and "
                        "self.alpha_drift == alpha_drift", "self._s == 0 and self._r == 0 and len(self._window) == 0",
                        "self._total_samples == 0 and self._samples_since_reset == 0 and self._drift_state is None",
                        "self._test_statistic is None and self._test_p is None"])

    reset_state = ("self._samples_since_reset == 0 and self._drift_state is None and self._s == 0 and self._r == 0 "
                   "and len(self._window) == 0 and self._test_statistic is None and self._test_p is None and "
                   "self._retraining_recs[0] is None and self._retraining_recs[1] is None")
    R.contract(Q + ".update", tags=("C01", "C05"),
               params={"y_true": "RawY", "y_pred": "RawY", "X": "RawX"},
               requires=["self.window_size >= 1"],
               reads_not=["X"], reads_not_tags=("C16",),
               raises={"ValueError": {
                   "when": "size(y_true) != 1 or size(y_pred) != 1", "iff": True, "tags": "C14",
                   "ensures": [
                       ("C14", "self._total_samples == old(self._total_samples)"),
                       ("C14", "implies(not %s, unchanged(self))" % FRESH),
                       ("C14", "implies(%s, %s)" % (FRESH, reset_state)),
                   ]}},
               ensures=[
                   ("C01", "self._total_samples == old(self._total_samples) + 1"),
                   ("C01,C02", "self._samples_since_reset == (1 if %s else old(self._samples_since_reset) + 1)" % FRESH),
                   ("C05", "self._window[-1] == " + C),
                   # continuity-corrected two-proportion test between the window and everything before it
                   ("C05", "implies(%s >= 2 * %s, self._test_statistic == %s and self._test_p == %s)" % (N, W, STAT, P)),
                   ("C05", "implies(%s >= 2 * %s, self._drift_state == ("
                           "'drift' if (%s > %s and %s < self.alpha_drift) else "
                           "('warning' if (%s > %s and %s < self.alpha_warning) else None)))"
                    % (N, W, PAST, RECENT, P, PAST, RECENT, P)),
                   ("C01", "implies(%s < 2 * %s, self._drift_state is None)" % (N, W)),
               ],
               ghost_update=[
                   "self.ghost.correct = (0 if %s else old(self.ghost.correct)) + %s" % (FRESH, C),
                   "rs0 = None if (%s or old(self._drift_state) is None) else old(self.ghost.run_start)" % FRESH,
                   "self.ghost.run_start = None if self._drift_state is None else "
                   "(rs0 if rs0 is not None else self._total_samples - 1)",
               ],
               use_exit=["vsum_bits(self._window, 0, len(self._window))",
                         "vsum_bits(old(self._window), 1, len(old(self._window)))"],
               modifies=["_total_samples", "_samples_since_reset", "_drift_state", "_retraining_recs",
                         "_test_statistic", "_test_p", "_s", "_r", "_window"])

    R.contract(Q + ".reset", tags=("C02",), params={},
               ensures=[reset_state, "self._total_samples == old(self._total_samples)"],
               ghost_update=["self.ghost.correct = 0", "self.ghost.run_start = None"],
               modifies=["_samples_since_reset", "_drift_state", "_retraining_recs", "_test_statistic", "_test_p",
                         "_s", "_r", "_window"])

    for fn, spec in (("recent_accuracy", "(0 if len(self._window) == 0 else self._s / len(self._window))"),
                     ("past_accuracy", "(0 if self._samples_since_reset - len(self._window) == 0 else "
                                       "self._r / (self._samples_since_reset - len(self._window)))"),
                     ("overall_accuracy", "(0 if self._samples_since_reset == 0 else "
                                          "(self._r + self._s) / self._samples_since_reset)")):
        R.contract(Q + "." + fn, tags=("C05",), params={}, ensures=["result == " + spec, "unchanged(self)"],
                   modifies=[])
