"""Contracts for menelaus.concept_drift.eddm:EDDM (C01, C05, C14, C16)."""
from .detector_base import STREAM_FIELDS, STREAM_INV

Q = "menelaus.concept_drift.eddm:EDDM"
FRESH = "old(self._drift_state) == 'drift'"
N = "self._samples_since_reset"
E = "err(y_true, y_pred)"


def ep(f, zero="0"):
    return "(%s if %s else old(self.%s))" % (zero, FRESH, f)


NE1 = "(%s + 1)" % ep("_n_errors")
DIST = "((%s - 1) - %s)" % (N, ep("_index_error_curr"))
MEAN1 = "(%s + (%s - %s) / %s)" % (ep("_dist_mean"), DIST, ep("_dist_mean"), NE1)
STD1 = "sqrt((%s + (%s - %s) * (%s - %s)) / %s)" % (ep("_dist_std"), DIST, MEAN1, DIST, ep("_dist_mean"), NE1)
NUM1 = "(%s + 2 * %s)" % (MEAN1, STD1)
MAX1 = "(%s if %s < %s else %s)" % (NUM1, ep("_max_numerator"), NUM1, ep("_max_numerator"))
STAT1 = "(%s / %s)" % (NUM1, MAX1)
STATE0 = "(None if %s else old(self._drift_state))" % FRESH
TESTED = "(%s == 1 and %s >= self.n_threshold)" % (E, NE1)
STAT_FIELDS = ["_n_errors", "_index_error_curr", "_index_error_last", "_dist_mean", "_dist_std", "_max_numerator"]


def register(R):
    fields = dict(STREAM_FIELDS)
    fields.update({"warning_thresh": "Real", "drift_thresh": "Real", "n_threshold": "Int",
                   "_n_errors": "Nat", "_index_error_curr": "Int", "_index_error_last": "Int",
                   "_dist_mean": "Real", "_dist_std": "Real", "_max_numerator": "Real",
                   "_test_statistic": "Opt[Real]", "_retraining_recs": "Pair[Opt[Int]]"})
    R.klass(Q, fields=fields, ghost={"first_warn": "Opt[Int]"}, ghost_init=["self.ghost.first_warn = None"],
            params=["warning_thresh", "drift_thresh", "n_threshold"],
            invariant=STREAM_INV + [
                # C01: nothing reported before n_threshold errors of the epoch
                ("C01", "implies(self._n_errors < self.n_threshold, self._drift_state is None)"),
                ("C05", "0 <= self._n_errors and self._n_errors <= self._samples_since_reset"),
                ("C05", "0 <= self._index_error_curr and (self._index_error_curr < self._samples_since_reset or "
                        "self._n_errors == 0)"),
                ("C05", "self._dist_std >= 0"),
                ("C01", "implies(self._drift_state != 'drift', self._retraining_recs[1] is None)"),
                ("C01", "implies(self._drift_state == 'drift', self._retraining_recs[0] is not None and "
                        "self._retraining_recs[1] is not None and "
                        "self._retraining_recs[0] <= self._retraining_recs[1] and "
                        "self._retraining_recs[1] == self._total_samples - 1)"),
                ("C05", "self._retraining_recs[0] == self.ghost.first_warn"),
                ("C01", "implies(self._retraining_recs[0] is not None, 0 <= self._retraining_recs[0] and "
                        "self._retraining_recs[0] <= self._total_samples - 1)"),
                ("C05", "implies(self._drift_state is not None, self._retraining_recs[0] is not None)"),
            ])

    R.contract(Q + ".__init__", tags=("C01",),
               params={"n_threshold": "Int", "warning_thresh": "Real", "drift_thresh": "Real"},
               requires=["n_threshold >= 1"],
               ensures=["self.n_threshold == n_threshold and self.warning_thresh == warning_thresh and "
                        "self.drift_thresh == drift_thresh",
                        "self._total_samples == 0 and self._samples_since_reset == 0 and self._drift_state is None",
                        "self._n_errors == 0 and self._index_error_curr == 0 and self._index_error_last == 0 and "
                        "self._dist_mean == 0 and self._dist_std == 0 and self._max_numerator == 0 and "
                        "self._test_statistic is None",
                        "self._retraining_recs[0] is None and self._retraining_recs[1] is None"])

    reset_state = ("self._samples_since_reset == 0 and self._drift_state is None and self._n_errors == 0 and "
                   "self._index_error_curr == 0 and self._index_error_last == 0 and self._dist_mean == 0 and "
                   "self._dist_std == 0 and self._max_numerator == 0 and self._test_statistic is None and "
                   "self._retraining_recs[0] is None and self._retraining_recs[1] is None")
    R.contract(Q + ".update", tags=("C01", "C05"),
               params={"y_true": "RawY", "y_pred": "RawY", "X": "RawX"},
               requires=["self.n_threshold >= 1"],
               reads_not=["X"], reads_not_tags=("C16",),
               raises={"ValueError": {
                   "when": "size(y_true) != 1 or size(y_pred) != 1", "iff": True, "tags": "C14",
                   "ensures": [
                       ("C14", "self._total_samples == old(self._total_samples)"),
                       ("C14", "implies(not %s, unchanged(self))" % FRESH),
                       ("C14", "implies(%s, %s)" % (FRESH, reset_state)),
                   ]}},
               ensures=[
                   ("C01", "self._total_samples == old(self._total_samples) + 1"),
                   ("C01,C02", "self._samples_since_reset == (1 if %s else old(self._samples_since_reset) + 1)" % FRESH),
                   # a correct prediction changes no statistic and no state
                   ("C05", "implies(%s == 0, %s and self._drift_state == %s)" % (
                       E, " and ".join("self.%s == %s" % (f, ep(f)) for f in STAT_FIELDS), STATE0)),
                   # an error: distance to the previous error, its running mean and deviation
                   ("C05", "implies(%s == 1, self._n_errors == %s and self._index_error_last == %s and "
                           "self._index_error_curr == %s - 1 and self._dist_mean == %s and self._dist_std == %s)"
                    % (E, NE1, ep("_index_error_curr"), N, MEAN1, STD1)),
                   ("C05", "implies(%s == 1 and %s < self.n_threshold, self._max_numerator == %s and "
                           "self._drift_state == %s)" % (E, NE1, ep("_max_numerator"), STATE0)),
                   # ratio test against its running maximum, after n_threshold errors
                   ("C05", "implies(%s, self._max_numerator == %s and self._test_statistic == %s and "
                           "self._drift_state == ('drift' if %s <= self.drift_thresh else "
                           "('warning' if %s <= self.warning_thresh else None)))" % (TESTED, MAX1, STAT1, STAT1, STAT1)),
               ],
               ghost_update=[
                   "fw0 = None if old(self._drift_state) == 'drift' else old(self.ghost.first_warn)",
                   "tested = %s" % TESTED,
                   "self.ghost.first_warn = fw0 if (fw0 is not None or not tested) else "
                   "(self._total_samples - 1 if self._drift_state is not None else None)",
               ],
               use_exit=["welford_nonneg(%s, %s, %s)" % (DIST, ep("_dist_mean"), NE1)],
               modifies=["_total_samples", "_samples_since_reset", "_drift_state", "_retraining_recs",
                         "_test_statistic"] + STAT_FIELDS)

    R.contract(Q + ".reset", tags=("C02",), params={},
               ensures=[reset_state, "self._total_samples == old(self._total_samples)"],
               ghost_update=["self.ghost.first_warn = None"],
               modifies=["_samples_since_reset", "_drift_state", "_retraining_recs", "_test_statistic"] + STAT_FIELDS)
