"""Shared declarations for the detector base classes (menelaus/detector.py)."""

STREAM_FIELDS = {
    "_total_samples": "Nat",
    "_samples_since_reset": "Nat",
    "_drift_state": "OptStr",
    "_input_cols": "Opt[Opaque[Cols]]",
    "_input_col_dim": "Opt[Int]",
}

BATCH_FIELDS = {
    "_total_batches": "Nat",
    "_batches_since_reset": "Nat",
    "_drift_state": "OptStr",
    "_input_cols": "Opt[Opaque[Cols]]",
    "_input_col_dim": "Opt[Int]",
}

# C01: state domain and counter sanity, shared by every streaming detector
STREAM_INV = [
    ("C01", "self._drift_state is None or self._drift_state == 'warning' or self._drift_state == 'drift'"),
    ("C01", "0 <= self._samples_since_reset and self._samples_since_reset <= self._total_samples"),
]
BATCH_INV = [
    ("C01", "self._drift_state is None or self._drift_state == 'warning' or self._drift_state == 'drift'"),
    ("C01", "0 <= self._batches_since_reset and self._batches_since_reset <= self._total_batches"),
]

# the column-count memo always agrees with the stored column names (detector.py sets them together)
MEMO_INV = [
    ("C14", "implies(self._input_cols is not None, self._input_col_dim is not None and "
            "self._input_col_dim == ncols(self._input_cols))"),
    ("C14", "implies(self._input_col_dim is not None, self._input_col_dim >= 0)"),
]
STREAM_INV = STREAM_INV + MEMO_INV
BATCH_INV = BATCH_INV + MEMO_INV

SPEC = '''
def err(y_true, y_pred):
    return 0 if first(y_true) == first(y_pred) else 1

def agree(y_true, y_pred):
    return 1 if first(y_true) == first(y_pred) else 0
'''


def register(R):
    R.specfn(SPEC)
    # library lemmas about sums of integer sequences (instantiated automatically at append / slice sites)
    R.lemma("vsum_frame", params={"a": "List[Int]", "k": "Int", "v": "Int", "lo": "Int", "hi": "Int"},
            requires=["k >= hi", "lo <= hi"], ensures=["asum(store(a, k, v), lo, hi) == asum(a, lo, hi)"],
            induct=("hi", "lo"))
    R.lemma("vsum_split", params={"a": "List[Int]", "lo": "Int", "m": "Int", "hi": "Int"},
            requires=["lo <= m", "m <= hi"], ensures=["asum(a, lo, hi) == asum(a, lo, m) + asum(a, m, hi)"],
            induct=("hi", "m"))
    R.lemma("vsum_bits", params={"a": "List[Int]", "lo": "Int", "hi": "Int"},
            requires=["0 <= lo", "lo <= hi", "forall(i, lo, hi, a[i] == 0 or a[i] == 1)"],
            ensures=["0 <= asum(a, lo, hi)", "asum(a, lo, hi) <= hi - lo"], induct=("hi", "lo"))
    # Welford-style update: the deviation accumulator never decreases (needed for "std >= 0" invariants)
    R.lemma("welford_nonneg", params={"d": "Real", "m0": "Real", "n": "Int"}, requires=["n >= 1"],
            ensures=["(d - (m0 + (d - m0) / n)) * (d - m0) >= 0"])
