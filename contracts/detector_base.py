"""Shared declarations for the detector base classes (menelaus/detector.py)."""

STREAM_FIELDS = {
    "_total_samples": "Nat",
    "_samples_since_reset": "Nat",
    "_drift_state": "OptStr",
    "_input_cols": "Opt[Opaque[Cols]]",
    "_input_col_dim": "Opt[Int]",
}

BATCH_FIELDS = {
    "_total_batches": "Nat",
    "_batches_since_reset": "Nat",
    "_drift_state": "OptStr",
    "_input_cols": "Opt[Opaque[Cols]]",
    "_input_col_dim": "Opt[Int]",
}

# C01: state domain and counter sanity, shared by every streaming detector
STREAM_INV = [
    ("C01", "self._drift_state is None or self._drift_state == 'warning' or self._drift_state == 'drift'"),
    ("C01", "0 <= self._samples_since_reset and self._samples_since_reset <= self._total_samples"),
]
BATCH_INV = [
    ("C01", "self._drift_state is None or self._drift_state == 'warning' or self._drift_state == 'drift'"),
    ("C01", "0 <= self._batches_since_reset and self._batches_since_reset <= self._total_batches"),
]

# the column-count memo always agrees with the stored column names (detector.py sets them together)
MEMO_INV = [
    ("C14", "implies(self._input_cols is not None, self._input_col_dim is not None and "
            "self._input_col_dim == ncols(self._input_cols))"),
    ("C14", "implies(self._input_col_dim is not None, self._input_col_dim >= 0)"),
]
STREAM_INV = STREAM_INV + MEMO_INV
BATCH_INV = BATCH_INV + MEMO_INV

SPEC = '''
def err(y_true, y_pred):
    return 0 if first(y_true) == first(y_pred) else 1

def agree(y_true, y_pred):
    return 1 if first(y_true) == first(y_pred) else 0
'''


def register(R):
    R.specfn(SPEC)
