"""Contracts for menelaus.partitioners.KDQTreePartitioner:KDQTreeNode (C08: count conservation through fill / reset).

Object-invariant methodology for the tree (A-TREE-INV): every node satisfies the class invariant below in the
pre-state of every call (assumed for the node passed in and its children); every function under contract re-establishes
it for the node it is given (proved), recursive calls do so for the subtrees they are given (their contract).  The
recursive call is used through its own contract (partial correctness; termination is A-TERM).  Subtrees of distinct
children are disjoint (A-LIST: lazily materialised nodes are pairwise distinct objects).

Counts are dict entries keyed by tree id (strings as integer codes).  Class invariant of a node:
  leaf      : axis, midpoint, left, right are all None
  internal  : axis, midpoint, left, right are all present, and for every tree id the node has a count iff both
              children have one, and then it is the sum of the children's counts                     (C08)
"""
N = "menelaus.partitioners.KDQTreePartitioner:KDQTreeNode"
CNT = "num_samples_in_compared_subtrees"

SPEC = '''
@recursive("Array[Real]", "Array[Real]", "Int", "Real")
def kl_sum(p, q, k):
    # sum over the first k cells of p * log(p / q): the Kullback-Leibler divergence of two distributions
    return 0 if k <= 0 else kl_sum(p, q, k - 1) + p[k - 1] * log(p[k - 1] / q[k - 1])

def tree_inv2(n):
    # the class invariant of a node and of its two children (if any)
    return invariant_of(n) and (n.left is None or invariant_of(n.left)) and (n.right is None or invariant_of(n.right))
'''

SUMS = ("forall_int(t, ((t in self.left.%(c)s) == (t in self.%(c)s)) and ((t in self.right.%(c)s) == (t in self.%(c)s)) and "
        "implies(t in self.%(c)s, self.%(c)s[t] == self.left.%(c)s[t] + self.right.%(c)s[t]))" % {"c": CNT})

# effect of fill on the count of the node it is given, for the id being filled; every other id untouched
NEWCOUNT = ("((0 if (reset or not old(keyof(tree_id) in node.%s)) else old(node.%s[tree_id])) + mrows(data))" % (CNT, CNT))
OTHERS = ("forall_int(t, implies(t != keyof(tree_id), ((t in node.%(c)s) == old(t in node.%(c)s)) and "
          "implies(t in node.%(c)s, node.%(c)s[t] == old(node.%(c)s[t]))))" % {"c": CNT})
SHAPE_KEPT = ("unchanged(node.axis) and unchanged(node.midpoint_at_axis) and (node.left is None) == old(node.left is None) and "
              "(node.right is None) == old(node.right is None)")


def register(R):
    R.specfn(SPEC)
    R.klass(N, fields={CNT: "Map[Int]", "axis": "Opt[Int]", "midpoint_at_axis": "Opt[Real]",
                       "left": "Lazy[KDQTreeNode]", "right": "Lazy[KDQTreeNode]"},
            invariant=[
                ("C08", "(self.axis is None and self.midpoint_at_axis is None and self.left is None and self.right is None) or "
                        "(self.axis is not None and self.midpoint_at_axis is not None and self.left is not None and self.right is not None)"),
                ("C08", "implies(self.axis is not None, self.axis >= 0)"),
                ("C08", "implies(self.axis is not None and self.left is not None and self.right is not None, %s)" % SUMS),
            ])
    R.contract(N + ".fill", tags=("C08",), modular=True,
               params={"data": "Nd2c", "node": "Lazy[KDQTreeNode]", "count_ubound": "Int", "tree_id": "Str", "reset": "Bool"},
               # A-TREE-INV (every node satisfies the class invariant) and A-TREE-WIDTH (the tree was built for data of this
               # width: split axes are valid columns) are heap-wide assumptions about the pre-state, not call-site obligations
               assume=["node is None or tree_inv2(node)",
                       "implies(node is not None and node.axis is not None, node.axis < mcols(data))"],
               ensures=["implies(node is not None, keyof(tree_id) in node.%s and node.%s[tree_id] == %s)" % (CNT, CNT, NEWCOUNT),
                        "implies(node is not None, %s)" % OTHERS,
                        "implies(node is not None, %s)" % SHAPE_KEPT,
                        # the tree invariant is re-established for the node (and, by the recursive contract, below it)
                        "implies(node is not None, invariant_of(node))",
                        "result is None"],
               modifies=["subtree:node:%s" % CNT], check_invariant=False, assume_invariant=False)

    ONLY_BUILD = "forall_int(t, (t in result.%s) == (t == keyof('build')))" % CNT
    R.contract(N + ".build", tags=("C08",), modular=True,
               params={"data": "Nd2c", "count_ubound": "Int", "min_cutpoint_sizes": "List[Int]", "leaves": "Opaque[AnyList]", "depth": "Int"},
               result="Lazy[KDQTreeNode]",
               requires=["depth >= 0", "len(min_cutpoint_sizes) == mcols(data)",
                         # cut-point sizes are int(proportion * range) of the build data with proportion >= 0
                         "forall(a, 0, len(min_cutpoint_sizes), min_cutpoint_sizes[a] >= 0)"],
               ensures=["(result is None) == (mrows(data) == 0)",
                        # each node's count is the number of points it holds; 'build' is its only id
                        "implies(result is not None, result.%s['build'] == mrows(data) and %s)" % (CNT, ONLY_BUILD),
                        # no node holding count_ubound points or fewer is split
                        "implies(result is not None and mrows(data) <= count_ubound, result.axis is None)",
                        # an internal node splits the axis given by its depth at the midpoint of the range of its points
                        "implies(result is not None and result.axis is not None, result.axis == depth % mcols(data) and "
                        "result.midpoint_at_axis == colmin(data, depth % mcols(data)) + "
                        "(colmax(data, depth % mcols(data)) - colmin(data, depth % mcols(data))) / 2)",
                        # both children of an internal node hold points, and their counts add up (class invariant)
                        "implies(result is not None, invariant_of(result))",
                        "implies(result is not None and result.axis is not None, "
                        "result.left.%s['build'] >= 1 and result.right.%s['build'] >= 1)" % (CNT, CNT)],
               modifies=None, check_invariant=False, assume_invariant=False)

    # reset writes the same value into every node of the subtree (only value 0 keeps counts = sum of children)
    R.contract(N + ".reset", tags=("C08",), modular=True,
               params={"node": "Lazy[KDQTreeNode]", "value": "Int", "tree_id": "Str"},
               assume=["node is None or tree_inv2(node)"],
               ensures=["implies(node is not None, keyof(tree_id) in node.%s and node.%s[tree_id] == value)" % (CNT, CNT),
                        "implies(node is not None, %s)" % OTHERS,
                        "implies(node is not None, %s)" % SHAPE_KEPT,
                        "implies(node is not None and value == 0, invariant_of(node))",
                        "result is None"],
               modifies=["subtree:node:%s" % CNT], check_invariant=False, assume_invariant=False)

    P = "menelaus.partitioners.KDQTreePartitioner:KDQTreePartitioner"
    R.klass(P, fields={"count_ubound": "Int", "cutpoint_proportion_lbound": "Real", "node": "Lazy[KDQTreeNode]",
                       "leaves": "Opaque[AnyList]"}, ghost={"sizes": "List[Int]"}, invariant=[])
    PN = NEWCOUNT.replace("node.", "self.node.")
    PO = OTHERS.replace("node.", "self.node.")
    # build: the minimum cell size of each feature is int(proportion * range of that feature over the build data) - computed
    # per COLUMN - and the tree is what KDQTreeNode.build makes of the data with these sizes (its contract, proved above)
    R.contract(P + ".build", tags=("C08", "C18"), params={"data": "Nd2c"},
               calls={N + ".build": "contract"},
               # (np.ptp of an empty column raises: the detectors only ever build from validated batches of >= 2 rows)
               requires=["self.cutpoint_proportion_lbound >= 0", "mcols(data) >= 1", "mrows(data) >= 1"],
               ensures=["self.node is not None and result is not None",
                        "self.node.%s['build'] == mrows(data) and invariant_of(self.node)" % CNT,
                        "implies(mrows(data) <= self.count_ubound, self.node.axis is None)",
                        "len(self.ghost.sizes) == mcols(data)",
                        "forall(a, 0, mcols(data), self.ghost.sizes[a] == floor(self.cutpoint_proportion_lbound * "
                        "(colmax(data, a) - colmin(data, a))))"],
               ghost_update=["self.ghost.sizes = min_cutpoint_sizes"],
               modifies=["node"], check_invariant=False, assume_invariant=False)
    R.contract(P + ".fill", tags=("C08",), params={"data": "Nd2c", "tree_id": "Str", "reset": "Bool"},
               calls={N + ".fill": "contract"},
               assume=["self.node is None or tree_inv2(self.node)",
                       "implies(self.node is not None and self.node.axis is not None, self.node.axis < mcols(data))"],
               ensures=["(result is None) == (self.node is None)", "(self.node is None) == old(self.node is None)",
                        # adding to existing counts unless reset is requested; every other tree id untouched
                        "implies(self.node is not None, keyof(tree_id) in self.node.%s and self.node.%s[tree_id] == %s)" % (CNT, CNT, PN),
                        "implies(self.node is not None, %s)" % PO,
                        "implies(self.node is not None, invariant_of(self.node))"],
               modifies=[], check_invariant=False, assume_invariant=False)
    R.contract(P + ".reset", tags=("C08",), params={"value": "Int", "tree_id": "Str"},
               calls={N + ".reset": "contract"},
               assume=["self.node is None or tree_inv2(self.node)"],
               ensures=["implies(self.node is not None, keyof(tree_id) in self.node.%s and self.node.%s[tree_id] == value)" % (CNT, CNT),
                        "implies(self.node is not None, %s)" % PO,
                        "implies(self.node is not None and value == 0, invariant_of(self.node))"],
               modifies=[], check_invariant=False, assume_invariant=False)

    # Gibbs' inequality, cell by cell: sum p log(p/q) >= sum p - sum q (= 0 for two distributions), equality for p = q
    R.lemma("kl_lower_bound", params={"p": "List[Real]", "q": "List[Real]", "k": "Int"},
            requires=["k >= 0", "forall(i, 0, k, p[i] > 0 and q[i] > 0)"],
            ensures=["kl_sum(p, q, k) >= asum(p, 0, k) - asum(q, 0, k)"], induct=("k", "0"),
            mention=["log(p[k - 1] / q[k - 1])"])
    R.lemma("kl_identity", params={"p": "List[Real]", "k": "Int"}, requires=["k >= 0", "forall(i, 0, k, p[i] > 0)"],
            ensures=["kl_sum(p, p, k) == 0"], induct=("k", "0"))
