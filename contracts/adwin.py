"""Contracts for menelaus.change_detection.adwin (C03 stage 1, C01, C17) and concept_drift.adwin_accuracy (C03, C16).

Ghost state: ADWIN.ghost.Q = sum of squares of the inputs in the window; _BucketRow.ghost.Qs[i] = sum of squares of the
inputs summarised by bucket i.  With T = _curr_total and W = _window_size the abstraction invariant is
    _curr_variance == Q - T^2 / W      (so that variance() == Q/W - (T/W)^2, the population variance)
Stage 2 of DESIGN.md (the row structure as a sequence abstraction, contiguity of buckets) is not built: the row
structure is reached through lazily materialised nodes (A-LIST) and the relation between bucket summaries and the input
history is a *precondition* (bucket_ok) of _remove_last, checked by the bounded tier only.
"""
from .detector_base import STREAM_FIELDS, STREAM_INV

M = "menelaus.change_detection.adwin"
Q = M + ":ADWIN"
QA = "menelaus.concept_drift.adwin_accuracy:ADWINAccuracy"

SPEC = '''
def eps_cut(n0, n1, W, variance, delta, sub, conservative):
    # documented epsilon-cut (Bifet & Gavalda 2007, eq. 3.1 and its "in practice" variant)
    m = 1 / (n0 - sub + 1) + 1 / (n1 - sub + 1)
    return (sqrt((0.5 * m) * log(4 * log(W) / delta)) if conservative else
            sqrt((2 * m) * variance * log(2 * log(W) / delta)) + 1.0 * (2 / 3) * m * log(2 * log(W) / delta))
'''

ADWIN_FIELDS = dict(STREAM_FIELDS)
ADWIN_FIELDS.update({
    "delta": "Real", "max_buckets": "Int", "new_sample_thresh": "Int", "window_size_thresh": "Int",
    "subwindow_size_thresh": "Int", "conservative_bound": "Bool",
    "_bucket_row_list": "Obj[_BucketRowList]", "_curr_total": "Real", "_curr_variance": "Real", "_window_size": "Int",
    "_retraining_recs": "Pair[Opt[Int]]",
})

HEADOK = '0 <= self._bucket_row_list.head.bucket_count and self._bucket_row_list.head.bucket_count < len(self._bucket_row_list.head.bucket_totals) and len(self._bucket_row_list.head.bucket_variances) == len(self._bucket_row_list.head.bucket_totals)'

ADWIN_INV = STREAM_INV + [
    # representation invariant of the newest row (stage 2 would prove it for every row): room for one more bucket
    ("C03", HEADOK),
    ("C03", "self._window_size >= 0"),
    # mean() / variance() are the mean and the population variance of a window with sum T and sum of squares Q
    ("C03", "implies(self._window_size >= 1, self._curr_variance == self.ghost.Q - self._curr_total * self._curr_total / self._window_size)"),
    ("C03", "implies(self._window_size == 0, self._curr_total == 0 and self._curr_variance == 0 and self.ghost.Q == 0)"),
]


def register(R):
    R.specfn(SPEC)
    R.klass(M + ":_BucketRow",
            fields={"bucket_count": "Int", "max_buckets": "Int", "bucket_totals": "Vec", "bucket_variances": "Vec",
                    "prev_bucket": "Lazy[_BucketRow]", "next_bucket": "Lazy[_BucketRow]"},
            ghost={"Qs": "List[Real]"})
    R.klass(M + ":_BucketRowList",
            fields={"max_buckets": "Int", "head": "LazyNN[_BucketRow]", "tail": "LazyNN[_BucketRow]", "size": "Int"})
    R.klass(Q, fields=dict(ADWIN_FIELDS), ghost={"Q": "Real"}, ghost_init=["self.ghost.Q = 0"], invariant=list(ADWIN_INV),
            params=["delta", "max_buckets", "new_sample_thresh", "window_size_thresh", "subwindow_size_thresh", "conservative_bound"])
    R.klass(QA, fields=dict(ADWIN_FIELDS), ghost={"Q": "Real"}, ghost_init=["self.ghost.Q = 0"],
            invariant=list(ADWIN_INV) + [("C14", "self._input_cols is None and (self._input_col_dim is None or self._input_col_dim == 1)")])

    # removal of the oldest bucket (n inputs, sum Tb, sum of squares Qb) from a window (W, T, Q): Chan's update reversed
    R.lemma("remove_bucket_identity",
            params={"Qw": "Real", "T": "Real", "W": "Real", "Qb": "Real", "Tb": "Real", "n": "Real"},
            requires=["n >= 1", "W - n >= 1"],
            ensures=["(Qw - T * T / W) - ((Qb - Tb * Tb / n) + n * (W - n) * (Tb / n - (T - Tb) / (W - n)) * "
                     "(Tb / n - (T - Tb) / (W - n)) / (n + (W - n))) == (Qw - Qb) - (T - Tb) * (T - Tb) / (W - n)"])
    # merge of two buckets of m inputs each (Chan et al.): variance accumulators add up with the between-bucket term
    R.lemma("merge_buckets_identity",
            params={"Q1": "Real", "T1": "Real", "Q2": "Real", "T2": "Real", "m": "Int"}, requires=["m >= 1"],
            ensures=["(Q1 - T1 * T1 / m) + (Q2 - T2 * T2 / m) + m * (T1 / m - T2 / m) * (T1 / m - T2 / m) / 2 == "
                     "(Q1 + Q2) - (T1 + T2) * (T1 + T2) / (2 * m)"])
    R.contract(Q + ".mean", tags=("C03",), params={},
               ensures=["result == (0 if self._window_size == 0 else self._curr_total / self._window_size)", "unchanged(self)"],
               modifies=[])
    R.contract(Q + ".variance", tags=("C03",), params={},
               ensures=["result == (0 if self._window_size == 0 else self._curr_variance / self._window_size)",
                        # = Q/W - (T/W)^2
                        "implies(self._window_size >= 1, result == self.ghost.Q / self._window_size - "
                        "(self._curr_total / self._window_size) * (self._curr_total / self._window_size))",
                        "unchanged(self)"],
               modifies=[])

    R.contract(Q + "._check_epsilon", tags=("C03",),
               params={"n_elements0": "Int", "total0": "Real", "n_elements1": "Int", "total1": "Real"},
               requires=["n_elements0 >= 1 and n_elements1 >= 1", "self._window_size >= 1"],
               ensures=["result == (abs(total0 / n_elements0 - total1 / n_elements1) > eps_cut(n_elements0, n_elements1, "
                        "self._window_size, self._curr_variance / self._window_size, self.delta, self.subwindow_size_thresh, "
                        "self.conservative_bound))", "unchanged(self)"],
               modifies=[], check_invariant=False)

    # C17: the epsilon-cut grows as delta shrinks, so the stricter run cuts only if the looser one does
    R.relational("ADWIN_delta", function=Q + "._check_epsilon", tags=("C17",), vary=["delta"],
                 requires=["0 < self1.delta and self1.delta <= self2.delta and self2.delta <= 1",
                           "self1._window_size >= 2", "self1._curr_variance >= 0",
                           "n_elements01 >= self1.subwindow_size_thresh and n_elements11 >= self1.subwindow_size_thresh",
                           "self1.subwindow_size_thresh >= 1"],
                 ensures=["implies(result1, result2)"])

    # the bucket structure is only moved around by _compress_buckets: it never touches the window statistics
    R.contract(Q + "._compress_buckets", tags=("C03",), params={}, modular=True,
               requires=[], ensures=[HEADOK, "unchanged(self._curr_total) and unchanged(self._curr_variance) and "
                                     "unchanged(self._window_size) and unchanged(self._total_samples) and "
                                     "unchanged(self._drift_state)"],
               modifies=[], assume_invariant=False, check_invariant=False,
               loops={0: {"invariant": [], "types": {"curr_bucket_row": "Lazy[_BucketRow]", "list_position": "Int"}}})

    R.contract(Q + "._add_sample", tags=("C03",), params={"new_value": "Real"},
               # called by update() after _window_size was incremented: the invariant is stated for the old window
               requires=["self._window_size >= 1", HEADOK,
                         "implies(self._window_size >= 2, self._curr_variance == self.ghost.Q - "
                         "self._curr_total * self._curr_total / (self._window_size - 1))",
                         "implies(self._window_size == 1, self._curr_total == 0 and self._curr_variance == 0 and self.ghost.Q == 0)"],
               ensures=["self._curr_total == old(self._curr_total) + new_value",
                        # Welford step: the variance accumulator stays  Q' - T'^2 / W  with Q' = Q + x^2
                        "self._curr_variance == (old(self.ghost.Q) + new_value * new_value) - "
                        "self._curr_total * self._curr_total / self._window_size",
                        "self._window_size == old(self._window_size)",
                        # hence the abstraction invariant holds again for the grown window
                        "self._curr_variance == self.ghost.Q - self._curr_total * self._curr_total / self._window_size"],
               ghost_update=["self.ghost.Q = old(self.ghost.Q) + new_value * new_value"],
               assume_invariant=False, check_invariant=False,
               modifies=["_curr_total", "_curr_variance"])

    R.contract(Q + "._remove_last", tags=("C03",), params={},
               requires=["self._bucket_row_list.size >= 1",
                         # the oldest bucket summarises n_b = 2^(size-1) inputs with sum T_b and sum of squares Q_b
                         "self._bucket_row_list.tail.bucket_variances[0] == self._bucket_row_list.tail.ghost.Qs[0] - "
                         "self._bucket_row_list.tail.bucket_totals[0] * self._bucket_row_list.tail.bucket_totals[0] / "
                         "pow2(self._bucket_row_list.size - 1)",
                         "self._window_size - pow2(self._bucket_row_list.size - 1) >= 1",
                         "self._bucket_row_list.tail.bucket_count >= 1",
                         "len(self._bucket_row_list.tail.bucket_totals) >= 2 and "
                         "len(self._bucket_row_list.tail.bucket_variances) == len(self._bucket_row_list.tail.bucket_totals)"],
               ensures=["result == pow2(old(self._bucket_row_list.size) - 1)",
                        "self._window_size == old(self._window_size) - result",
                        "self._curr_total == old(self._curr_total) - old(self._bucket_row_list.tail.bucket_totals[0])",
                        # removal of the oldest bucket keeps the abstraction: V' == (Q - Q_b) - T'^2 / W'
                        "self._curr_variance == (old(self.ghost.Q) - old(self._bucket_row_list.tail.ghost.Qs[0])) - "
                        "self._curr_total * self._curr_total / self._window_size"],
               ghost_update=["self.ghost.Q = old(self.ghost.Q) - old(self._bucket_row_list.tail.ghost.Qs[0])"],
               use_exit=["remove_bucket_identity(old(self.ghost.Q), old(self._curr_total), old(self._window_size), "
                         "old(self._bucket_row_list.tail.ghost.Qs[0]), old(self._bucket_row_list.tail.bucket_totals[0]), "
                         "pow2(old(self._bucket_row_list.size) - 1))"],
               calls={M + ":_BucketRow.remove_buckets": "contract", M + ":_BucketRowList.remove_tail": "contract"},
               check_invariant=False,
               # the trailing loop drops exhausted rows at the tail (it only touches the row list, never the statistics)
               loops={0: {"invariant": [], "havoc_fields": {"_bucket_row_list": "Obj[_BucketRowList]"}}},
               modifies=["_window_size", "_curr_total", "_curr_variance"])
    # bucket-row primitives (verified): shifting the arrays forward drops the oldest buckets and zero-fills the end
    R.contract(M + ":_BucketRow.shift", tags=("C03",), params={"arr": "Vec", "num": "Int", "fill_value": "Real"}, modular=True,
               requires=["1 <= num", "num <= len(arr)"], result="Vec",
               ensures=["len(result) == len(arr)",
                        "forall(i, 0, len(arr) - num, result[i] == arr[i + num])",
                        "forall(i, len(arr) - num, len(arr), result[i] == fill_value)"],
               modifies=[], check_invariant=False, assume_invariant=False)
    R.contract(M + ":_BucketRow.remove_buckets", tags=("C03",), params={"num_buckets": "Int"}, modular=True,
               requires=["1 <= num_buckets", "num_buckets <= len(self.bucket_totals)",
                         "len(self.bucket_variances) == len(self.bucket_totals)"],
               ensures=["self.bucket_count == old(self.bucket_count) - num_buckets",
                        "len(self.bucket_totals) == len(old(self.bucket_totals)) and len(self.bucket_variances) == len(old(self.bucket_variances))",
                        # the remaining buckets move to the front, oldest first
                        "forall(i, 0, len(self.bucket_totals) - num_buckets, self.bucket_totals[i] == old(self.bucket_totals)[i + num_buckets] and "
                        "self.bucket_variances[i] == old(self.bucket_variances)[i + num_buckets])",
                        "forall(i, len(self.bucket_totals) - num_buckets, len(self.bucket_totals), self.bucket_totals[i] == 0 and "
                        "self.bucket_variances[i] == 0)"],
               modifies=["bucket_totals", "bucket_variances", "bucket_count"])
    R.contract(M + ":_BucketRow.add_bucket", tags=("C03",), params={"total": "Real", "variance": "Real"}, modular=True,
               requires=["0 <= self.bucket_count", "self.bucket_count < len(self.bucket_totals)",
                         "len(self.bucket_variances) == len(self.bucket_totals)"],
               ensures=["self.bucket_count == old(self.bucket_count) + 1",
                        "self.bucket_totals[old(self.bucket_count)] == total and self.bucket_variances[old(self.bucket_count)] == variance",
                        "len(self.bucket_totals) == len(old(self.bucket_totals)) and len(self.bucket_variances) == len(old(self.bucket_variances))",
                        "forall(i, 0, len(self.bucket_totals), implies(i != old(self.bucket_count), "
                        "self.bucket_totals[i] == old(self.bucket_totals)[i] and self.bucket_variances[i] == old(self.bucket_variances)[i]))"],
               modifies=["bucket_totals", "bucket_variances", "bucket_count"])
    R.contract(M + ":_BucketRowList.remove_tail", tags=("C03",), params={}, modular=True,
               ensures=["self.size == old(self.size) - 1"], modifies=["tail", "head", "size"])

    # _shrink_window: NOT verified (needs the row-structure invariants of stage 2); assumed by update() and listed as
    # an assumed contract in the evidence; decided by the bounded reference model (b_C03) only
    R.contract(Q + "._shrink_window", tags=("C03",), params={}, modular=True,
               ensures=["self._total_samples == old(self._total_samples) and self._samples_since_reset == old(self._samples_since_reset)",
                        "self._window_size <= old(self._window_size) and self._window_size >= 1",
                        "(self._window_size < old(self._window_size)) == (self._drift_state == 'drift')",
                        "implies(self._window_size == old(self._window_size), unchanged(self))",
                        "implies(self._drift_state == 'drift', self._retraining_recs[0] == self._total_samples - self._window_size "
                        "and self._retraining_recs[1] == self._total_samples - 1)",
                        "self._curr_variance == self.ghost.Q - self._curr_total * self._curr_total / self._window_size",
                        "self._drift_state == 'drift' or self._drift_state == old(self._drift_state)", HEADOK],
               modifies=["_window_size", "_curr_total", "_curr_variance", "_drift_state", "_retraining_recs", "ghost.Q"])

    REJECT = ("(is_df(X) and self._input_cols is not None and not cols_equal(cols(X), self._input_cols)) or "
              "((not is_df(X)) and self._input_col_dim is not None and width(X) != self._input_col_dim) or "
              "rows(X) != 1 or width(X) != 1")
    PENDING = "old(self._drift_state) is not None"
    for cls_q in (Q,):
        R.contract(cls_q + ".update", tags=("C03", "C01"), result="None",
                   params={"X": "RawX", "y_true": "RawY", "y_pred": "RawY"},
                   requires=["self._window_size >= 1 or self._window_size == 0"],
                   reads_not=["y_true", "y_pred"], reads_not_tags=("C16",),
                   calls={Q + "._add_sample": "contract"},
                   raises={"ValueError": {"when": REJECT, "iff": True, "tags": "C14", "ensures": [
                       ("C14", "self._total_samples == old(self._total_samples)"),
                       ("C14", "implies(not %s, unchanged(self))" % PENDING),
                       ("C14", "self._input_cols == old(self._input_cols) and self._input_col_dim == old(self._input_col_dim)"),
                       ("C14", "self._window_size == old(self._window_size) and self._curr_total == old(self._curr_total)"),
                   ]}},
                   ensures=[
                       ("C01", "self._total_samples == old(self._total_samples) + 1"),
                       # ADWIN restarts its epoch counter after any non-None state
                       ("C01", "self._samples_since_reset == (1 if %s else old(self._samples_since_reset) + 1)" % PENDING),
                       # W grows by one per update and shrinks only in an update that reports drift
                       ("C03", "implies(self._drift_state != 'drift', self._window_size == old(self._window_size) + 1)"),
                       ("C03", "self._window_size <= old(self._window_size) + 1 and self._window_size >= 1"),
                       # the value entering the window is the observation just supplied
                       ("C03", "implies(self._drift_state != 'drift', self._curr_total == old(self._curr_total) + xval(X, 0) and "
                               "self.ghost.Q == old(self.ghost.Q) + xval(X, 0) * xval(X, 0))"),
                       ("C01", "implies(self._drift_state == 'drift', self._retraining_recs[0] == self._total_samples - self._window_size "
                               "and self._retraining_recs[1] == self._total_samples - 1 and "
                               "self._retraining_recs[0] <= self._retraining_recs[1])"),
                       ("C01", "implies(%s and self._drift_state != 'drift', self._retraining_recs[0] is None and "
                               "self._retraining_recs[1] is None)" % PENDING),
                       # an accepted observation is univariate: the established width is 1
                       ("C14", "self._input_col_dim == 1"),
                       ("C14", "self._input_cols == (cols(X) if (is_df(X) and old(self._input_cols) is None) else old(self._input_cols))"),
                   ],
                   modifies=["_total_samples", "_samples_since_reset", "_drift_state", "_input_cols", "_input_col_dim",
                             "_window_size", "_curr_total", "_curr_variance", "_retraining_recs"])

    # ---- ADWINAccuracy: ADWIN with the constructor parameters it was given, on the indicator stream
    R.contract(QA + ".__init__", tags=("C03",),
               params={"delta": "Real", "max_buckets": "Int", "new_sample_thresh": "Int", "window_size_thresh": "Int",
                       "subwindow_size_thresh": "Int", "conservative_bound": "Bool"},
               requires=["0 <= delta and delta <= 1", "max_buckets >= 1"],
               ensures=["self.delta == delta and self.max_buckets == max_buckets and "
                        "self.new_sample_thresh == new_sample_thresh and self.window_size_thresh == window_size_thresh and "
                        "self.subwindow_size_thresh == subwindow_size_thresh and self.conservative_bound == conservative_bound",
                        "self._window_size == 0 and self._curr_total == 0 and self._curr_variance == 0",
                        "self._total_samples == 0 and self._drift_state is None"],
               check_invariant=True)
    R.contract(QA + ".update", tags=("C03", "C16"),
               params={"y_true": "RawY", "y_pred": "RawY", "X": "RawX"},
               reads_not=["X"], reads_not_tags=("C16",),
               calls={Q + ".update": "contract"},
               raises={"ValueError": {"when": "size(y_true) != 1 or size(y_pred) != 1", "iff": True, "tags": "C14",
                                      "ensures": [("C14", "unchanged(self)")]}},
               ensures=[
                   # exactly ADWIN applied to the indicator 1{y_true == y_pred}
                   ("C03,C16", "self._total_samples == old(self._total_samples) + 1"),
                   ("C03,C16", "implies(self._drift_state != 'drift', self._window_size == old(self._window_size) + 1 and "
                               "self._curr_total == old(self._curr_total) + agree(y_true, y_pred))"),
               ],
               modifies=["_total_samples", "_samples_since_reset", "_drift_state", "_input_cols", "_input_col_dim",
                         "_window_size", "_curr_total", "_curr_variance", "_retraining_recs"])
