import sys, os, json
from pyvc import api, relational
api.init(os.environ.get("REPO", "/repo"))
rep = relational.verify_relational(api.make_ctx, api._STATE["reg"], sys.argv[1])
for ob in rep.obligations:
    if ob.verdict != "proved":
        print("==", ob.name, ob.path, ob.verdict); print(json.dumps(getattr(ob, "cex", None))[:3000]); break
