"""names of the sidecar contract modules (z3-free; shared by the symbolic and the concrete side)"""
CONTRACT_MODULES = ["detector_base", "election", "validation", "ddm", "eddm", "stepd", "page_hinkley", "cusum",
                    "adwin", "lfr", "md3", "ensemble", "hdm", "kdq", "nndvi", "pcacd", "injection", "partitioners", "kdqtree", "relational_scalar"]
